"""C06 demo: rejected Graph.remove / Function.remove / initializer (re)naming calls change nothing."""

from __future__ import annotations

import itertools
import sys

import numpy as np

import onnx_ir as ir


def snapshot(*graphs: ir.Graph, extra_values=(), extra_nodes=()):
    """Everything observable about the graphs, their nodes and values (identity based)."""
    snap = []
    values: dict[int, ir.Value] = {}
    nodes: dict[int, ir.Node] = {}

    def see_value(v):
        if v is not None:
            values.setdefault(id(v), v)

    for g in graphs:
        snap.append(
            (
                "graph",
                id(g),
                g.name,
                tuple(id(v) for v in g.inputs),
                tuple(id(v) for v in g.outputs),
                tuple((k, id(v)) for k, v in g.initializers.items()),
                tuple(id(n) for n in g),
                tuple(id(n) for n in reversed(g)),
                len(g),
            )
        )
        for v in itertools.chain(g.inputs, g.outputs, g.initializers.values()):
            see_value(v)
        for n in g:
            nodes.setdefault(id(n), n)
    for n in extra_nodes:
        nodes.setdefault(id(n), n)
    for n in list(nodes.values()):
        for v in itertools.chain(n.inputs, n.outputs):
            see_value(v)
    for v in extra_values:
        see_value(v)
    for n in nodes.values():
        snap.append(
            (
                "node",
                id(n),
                n.name,
                n.op_type,
                id(n.graph) if n.graph is not None else None,
                tuple(id(v) if v is not None else None for v in n.inputs),
                tuple(id(v) for v in n.outputs),
                tuple(id(p) for p in n.predecessors()),
                tuple(id(s) for s in n.successors()),
            )
        )
    for v in values.values():
        snap.append(
            (
                "value",
                id(v),
                v.name,
                id(v.graph) if v.graph is not None else None,
                id(v.producer()) if v.producer() is not None else None,
                v.index(),
                tuple((id(u.node), u.idx) for u in v.uses()),
                tuple(id(c) for c in v.consumers()),
                v.is_graph_input(),
                v.is_graph_output(),
                v.is_initializer(),
                id(v.const_value) if v.const_value is not None else None,
                v.const_value.name if v.const_value is not None else None,
            )
        )
    return snap


def tensor(name, *data):
    return ir.tensor(np.array(data or (1.0,), dtype=np.float32), name=name)


def build():
    x = ir.val("x")
    w = ir.val("w", const_value=tensor("w", 1.0, 2.0))
    b = ir.val("b", const_value=tensor("b", 3.0))
    n1 = ir.node("Add", [x, w], name="n1")
    n2 = ir.node("Mul", [n1.outputs[0], b], name="n2")
    n3 = ir.node("Relu", [n2.outputs[0]], name="n3")
    n4 = ir.node("Neg", [n1.outputs[0]], name="n4")  # dead branch
    n5 = ir.node("Concat", [n4.outputs[0], None, n4.outputs[0]], name="n5")  # duplicate + None
    g = ir.Graph(
        [x],
        [n3.outputs[0], n3.outputs[0]],  # duplicated graph output
        nodes=[n1, n2, n3, n4, n5],
        initializers=[w, b],
        name="main",
        opset_imports={"": 20},
    )
    return g, (x, w, b), (n1, n2, n3, n4, n5)


def build_other():
    y = ir.val("y")
    m1 = ir.node("Abs", [y], name="m1")
    m2 = ir.node("Exp", [m1.outputs[0]], name="m2")
    other = ir.Graph([y], [m2.outputs[0]], nodes=[m1, m2], name="other")
    return other, (m1, m2)


checks = 0


def expect_rejected(exc_type, call, snap_fn, label):
    global checks
    before = snap_fn()
    try:
        call()
    except exc_type:
        pass
    else:
        raise AssertionError(f"{label}: the call was expected to raise {exc_type.__name__}")
    after = snap_fn()
    assert before == after, f"{label}: a rejected call changed the IR"
    # A rejected call can be retried: it is rejected in exactly the same way
    try:
        call()
    except exc_type:
        pass
    else:
        raise AssertionError(f"{label}: the retry was expected to raise")
    assert snap_fn() == before, f"{label}: the retried rejected call changed the IR"
    checks += 1


def gen(items):
    yield from items


def main() -> int:
    # ------------------------------------------------------------------
    # 1. Graph.remove / Function.remove
    # ------------------------------------------------------------------
    for via_function in (False, True):
        g, (x, w, b), (n1, n2, n3, n4, n5) = build()
        other, (m1, m2) = build_other()
        free = ir.node("Identity", [x], name="free")  # belongs to no graph, uses x
        target = ir.Function("dom", "fn", graph=g, attributes=()) if via_function else g

        def snap():
            return snapshot(g, other, extra_nodes=[free])

        # nodes of another graph / of no graph, safe or not, single or in a collection
        for safe in (False, True):
            expect_rejected(ValueError, lambda: target.remove(m1, safe=safe), snap, "foreign")
            expect_rejected(ValueError, lambda: target.remove(free, safe=safe), snap, "free")
            expect_rejected(ValueError, lambda: target.remove([free], safe=safe), snap, "[free]")
            # the offending node at every position of a multi-element argument
            good = [n5, n4]
            for pos in range(len(good) + 1):
                for bad in (m2, free):
                    arg = good[:pos] + [bad] + good[pos:]
                    expect_rejected(
                        ValueError, lambda: target.remove(arg, safe=safe), snap, f"pos{pos}"
                    )
                    expect_rejected(
                        ValueError,
                        lambda: target.remove(gen(arg), safe=safe),
                        snap,
                        f"gen pos{pos}",
                    )
                    expect_rejected(
                        ValueError,
                        lambda: target.remove(arg + arg, safe=safe),
                        snap,
                        f"dup pos{pos}",
                    )

        # unsafe removals
        expect_rejected(ValueError, lambda: target.remove(n3, safe=True), snap, "graph output")
        expect_rejected(ValueError, lambda: target.remove(n2, safe=True), snap, "used by n3")
        expect_rejected(ValueError, lambda: target.remove(n1, safe=True), snap, "used by n2, n4")
        expect_rejected(ValueError, lambda: target.remove(n4, safe=True), snap, "used twice by n5")
        expect_rejected(
            ValueError, lambda: target.remove([n1, n4, n5], safe=True), snap, "n1 used by n2"
        )
        expect_rejected(
            ValueError, lambda: target.remove((n5, n4, n2), safe=True), snap, "n2 used by n3"
        )
        expect_rejected(
            ValueError, lambda: target.remove({n5, n4, n3}, safe=True), snap, "n3 is output"
        )
        for perm in itertools.permutations([n1, n2, n3, n4, n5]):
            expect_rejected(
                ValueError, lambda: target.remove(list(perm), safe=True), snap, "all, n3 output"
            )

        # an empty argument is accepted and changes nothing
        before = snap()
        target.remove([], safe=True)
        target.remove(gen([]), safe=False)
        assert snap() == before

        # accepted calls still work after all the rejected ones
        target.remove([n4, n5, n5], safe=True)
        assert list(g) == [n1, n2, n3]
        assert n4.graph is None and n5.graph is None
        assert n5.inputs == (None, None, None) and n4.inputs == (None,)
        assert [u.node for u in n1.outputs[0].uses()] == [n2]
        assert not n4.outputs[0].uses()
        target.remove(n2)  # unsafe removal of a used node is allowed when safe=False
        assert list(g) == [n1, n3] and n2.graph is None
        assert n2.inputs == (n1.outputs[0], b)  # not detached when safe=False
        # removed nodes can be added again
        target.extend([n2, n4])
        assert list(g) == [n1, n3, n2, n4]

    # ------------------------------------------------------------------
    # 2. Renaming initializers through Value.name
    # ------------------------------------------------------------------
    g, (x, w, b), (n1, n2, n3, n4, n5) = build()
    other, _ = build_other()
    loose = ir.val("loose", const_value=tensor("loose"))

    def snap2():
        return snapshot(g, other, extra_values=[loose])

    def rename(v, new):
        v.name = new

    expect_rejected(ValueError, lambda: rename(w, None), snap2, "initializer name None")
    expect_rejected(ValueError, lambda: rename(w, ""), snap2, "initializer name ''")
    expect_rejected(ValueError, lambda: rename(w, "b"), snap2, "initializer name collision")
    expect_rejected(ValueError, lambda: rename(b, "w"), snap2, "initializer name collision 2")

    before = snap2()
    w.name = "w"  # same name: nothing happens
    assert snap2() == before
    w.name = "x"  # an input of the same name is not an initializer collision
    assert list(g.initializers) == ["b", "x"] and g.initializers["x"] is w
    assert w.const_value.name == "x" and w.is_initializer() and w.graph is g
    w.name = "w"
    assert list(g.initializers) == ["b", "w"]
    assert [(k, id(v)) for k, v in g.initializers.items()] == [("b", id(b)), ("w", id(w))]
    # values that are not initializers can take any name, also None, "" or a taken name
    for new in (None, "", "w", "loose"):
        loose.name = new
        assert loose.name == new and loose.const_value.name == new
        assert loose.graph is None and not loose.is_initializer()
    x.name = "w"
    assert x.name == "w" and g.initializers["w"] is w and x.is_graph_input()
    x.name = "x"
    no_tensor = ir.val("nt")
    no_tensor.name = None
    assert no_tensor.name is None

    # ------------------------------------------------------------------
    # 3. Graph.register_initializer
    # ------------------------------------------------------------------
    impostor = ir.val("w", const_value=tensor("w", 9.0))
    unnamed = ir.val(None, const_value=tensor(None))
    empty_name = ir.val("", const_value=tensor(""))
    no_const = ir.val("c")
    no_const_taken = ir.val("b")
    produced = n1.outputs[0]
    foreign = ir.val("f", const_value=tensor("f"))
    other.initializers.add(foreign)

    def snap3():
        return snapshot(
            g,
            other,
            extra_values=[impostor, unnamed, empty_name, no_const, no_const_taken, loose],
        )

    expect_rejected(ValueError, lambda: g.register_initializer(impostor), snap3, "same name")
    expect_rejected(ValueError, lambda: g.register_initializer(unnamed), snap3, "no name")
    expect_rejected(ValueError, lambda: g.register_initializer(empty_name), snap3, "empty name")
    expect_rejected(ValueError, lambda: g.register_initializer(no_const), snap3, "no const_value")
    expect_rejected(
        ValueError, lambda: g.register_initializer(no_const_taken), snap3, "taken + no const"
    )
    produced.const_value = tensor(produced.name)
    expect_rejected(ValueError, lambda: g.register_initializer(produced), snap3, "produced")
    expect_rejected(ValueError, lambda: g.register_initializer(foreign), snap3, "foreign graph")
    try:
        g.register_initializer(impostor)
    except ValueError as e:
        assert "already registered" in str(e) and "existing=" in str(e), e

    before = snap3()
    g.register_initializer(w)  # registering the same object again is accepted
    assert snap3() == before
    loose.name = "loose"
    g.register_initializer(loose)
    assert list(g.initializers) == ["b", "w", "loose"] and loose.graph is g
    assert loose.is_initializer()
    # now that it is an initializer its renaming is validated
    expect_rejected(ValueError, lambda: rename(loose, "w"), snap3, "registered, collision")
    expect_rejected(ValueError, lambda: rename(loose, None), snap3, "registered, None")
    loose.name = "loose2"
    assert list(g.initializers) == ["b", "w", "loose2"]

    print(f"OK: {checks} rejected calls left the IR unchanged")
    return 0


if __name__ == "__main__":
    sys.exit(main())
