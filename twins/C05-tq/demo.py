"""C05 demo: NameFixPass (alone and composed) preserves what the model computes.

Exercises the scope handling of NameFixPass: nested control-flow subgraphs with captured
values, duplicate / missing names, an unsorted graph whose subgraph meets an outer value
before its producer, model-local functions, an empty graph and a name generator that raises.
"""

from __future__ import annotations

import numpy as np
import onnx
import onnx.reference

import onnx_ir as ir
from onnx_ir.passes.common import (
    NameFixPass,
    RemoveUnusedNodesPass,
    TopologicalSortPass,
)

FLOAT = ir.DataType.FLOAT


def val(name, shape=(2,), dtype=FLOAT):
    return ir.Value(name=name, type=ir.TensorType(dtype), shape=ir.Shape(shape))


def const(name, array):
    v = val(name, np.asarray(array).shape)
    v.const_value = ir.tensor(np.asarray(array, dtype=np.float32), name=name)
    return v


def run(model: ir.Model, feeds_by_position):
    proto = ir.to_proto(model)
    onnx.checker.check_model(proto, full_check=True)
    session = onnx.reference.ReferenceEvaluator(proto)
    names = [i.name for i in proto.graph.input]
    init_names = {i.name for i in proto.graph.initializer}
    names = [n for n in names if n not in init_names]
    assert len(names) == len(feeds_by_position), (names, len(feeds_by_position))
    return session.run(None, dict(zip(names, feeds_by_position)))


def assert_unique_names(graph_like, inherited=frozenset()):
    """Every value of a graph has a name different from all others visible in it."""
    seen: dict[str, ir.Value] = {}

    def record(value):
        assert value.name, f"unnamed value {value!r}"
        other = seen.setdefault(value.name, value)
        assert other is value, f"duplicate value name {value.name!r}"

    for v in graph_like.inputs:
        record(v)
    if isinstance(graph_like, ir.Graph):
        for v in graph_like.initializers.values():
            record(v)
    node_names = set()
    for node in graph_like:
        assert node.name, "unnamed node"
        assert node.name not in node_names, f"duplicate node name {node.name!r}"
        node_names.add(node.name)
        for v in node.outputs:
            record(v)
    own = set(seen)
    for node in graph_like:
        for attr in node.attributes.values():
            if attr.type == ir.AttributeType.GRAPH:
                sub_names = assert_unique_names(attr.value, inherited | own)
                shadow = {
                    n
                    for n in sub_names
                    if n in (inherited | own)
                }
                assert not shadow, f"subgraph redefines outer names {shadow}"
    return own


def build_nested_model(unsorted: bool) -> ir.Model:
    """x, cond -> If(cond){ If(cond){ x+w } else { t*2 } } else { x-w }; second output aliases."""
    x = val("x")
    cond = val("cond", (), ir.DataType.BOOL)
    w = const("w", [1.0, 2.0])
    two = const("w", [2.0, 2.0])  # duplicate initializer name in the subgraph (different scope)

    # producer of t in the main graph; in the unsorted variant it comes after the If
    t_node = ir.Node("", "Mul", [x, w], outputs=[val("")], name="dup")
    t = t_node.outputs[0]

    # innermost graphs
    add = ir.Node("", "Add", [x, w], outputs=[val("")], name="dup")
    inner_then = ir.Graph([], add.outputs, nodes=[add], name="inner_then")
    mul = ir.Node("", "Mul", [t, two], outputs=[val("x")], name="")  # clashes with outer x
    inner_else = ir.Graph(
        [], mul.outputs, nodes=[mul], initializers=[two], name="inner_else"
    )
    inner_if = ir.Node(
        "",
        "If",
        [cond],
        attributes=[
            ir.AttrGraph("then_branch", inner_then),
            ir.AttrGraph("else_branch", inner_else),
        ],
        outputs=[val("")],
        name="dup",
    )
    outer_then = ir.Graph([], inner_if.outputs, nodes=[inner_if], name="outer_then")
    sub = ir.Node("", "Sub", [x, w], outputs=[val("")], name="")
    outer_else = ir.Graph([], sub.outputs, nodes=[sub], name="outer_else")
    outer_if = ir.Node(
        "",
        "If",
        [cond],
        attributes=[
            ir.AttrGraph("then_branch", outer_then),
            ir.AttrGraph("else_branch", outer_else),
        ],
        outputs=[val("y")],
        name="dup",
    )
    ident = ir.Node("", "Identity", [x], outputs=[val("y")], name="")  # duplicate of y
    nodes = [outer_if, t_node, ident] if unsorted else [t_node, outer_if, ident]
    graph = ir.Graph(
        [x, cond],
        [outer_if.outputs[0], ident.outputs[0]],
        nodes=nodes,
        initializers=[w],
        opset_imports={"": 20},
        name="main",
    )
    return ir.Model(graph, ir_version=10)


def build_function_model() -> ir.Model:
    a = val("a")
    b = val("a")  # duplicate input name inside the function
    fadd = ir.Node("", "Add", [a, b], outputs=[val("")], name="n")
    fneg = ir.Node("", "Neg", fadd.outputs, outputs=[val("")], name="n")
    func = ir.Function(
        "local", "AddNeg", "", graph=ir.Graph([a, b], fneg.outputs, nodes=[fadd, fneg],
                                              opset_imports={"": 20}),
        attributes=[],
    )
    x = val("x")
    y = val("y2")
    call1 = ir.Node("local", "AddNeg", [x, y], outputs=[val("")], name="call")
    call2 = ir.Node("local", "AddNeg", [call1.outputs[0], x], outputs=[val("")], name="call")
    graph = ir.Graph(
        [x, y],
        [call2.outputs[0], x],  # second output aliases an input
        nodes=[call1, call2],
        opset_imports={"": 20, "local": 1},
        name="main",
    )
    return ir.Model(graph, ir_version=10, functions=[func])


def dump_names(graph_like):
    return [
        (n.name, [i.name for i in n.inputs if i is not None], [o.name for o in n.outputs])
        for n in ir.traversal.RecursiveGraphIterator(graph_like)
    ]


# The exact names chosen by the pass (first holder keeps its name, counters per base name)
GOLDEN_SORTED = [
    ("dup", ["x", "w"], ["v"]),
    ("dup_1", ["cond"], ["y"]),
    ("dup", ["cond"], ["v_1"]),
    ("dup", ["x", "w"], ["v_2"]),
    ("node", ["v", "w_1"], ["x_1"]),
    ("node", ["x", "w"], ["v_3"]),
    ("node", ["x"], ["y_1"]),
]
GOLDEN_UNSORTED = [
    ("dup", ["cond"], ["y"]),
    ("dup", ["cond"], ["v"]),
    ("dup", ["x", "w"], ["v_1"]),
    ("node", ["v_2", "w_1"], ["x_1"]),
    ("node", ["x", "w"], ["v"]),
    ("dup_1", ["x", "w"], ["v_2"]),
    ("node", ["x"], ["y_1"]),
]


def check_nested(unsorted: bool):
    xs = np.array([3.0, 5.0], dtype=np.float32)
    w = np.array([1.0, 2.0], dtype=np.float32)
    for cond_value in (True, False):
        model = build_nested_model(unsorted)
        inputs_before = list(model.graph.inputs)
        outputs_before = list(model.graph.outputs)
        result = NameFixPass()(model)
        assert result.modified is True
        assert result.model is model
        assert [id(v) for v in model.graph.inputs] == [id(v) for v in inputs_before]
        assert [id(v) for v in model.graph.outputs] == [id(v) for v in outputs_before]
        # inputs keep their (unique) names, first holder of a name keeps it
        assert [v.name for v in model.graph.inputs] == ["x", "cond"]
        assert model.graph.outputs[0].name == "y"
        assert model.graph.outputs[1].name != "y"
        assert_unique_names(model.graph)
        assert dump_names(model.graph) == (GOLDEN_UNSORTED if unsorted else GOLDEN_SORTED)
        if unsorted:
            # composed with sorting so that the checker accepts the model
            assert TopologicalSortPass()(model).modified
        # main graph computes t first: cond -> x + w (inner then; inner cond is the same)
        got = run(model, [xs, np.array(cond_value)])
        want0 = xs + w if cond_value else xs - w
        np.testing.assert_array_equal(got[0], want0)
        np.testing.assert_array_equal(got[1], xs)
        # a second run changes nothing any more
        names = [n.name for n in ir.traversal.RecursiveGraphIterator(model.graph)]
        assert NameFixPass()(model).modified is False
        assert names == [n.name for n in ir.traversal.RecursiveGraphIterator(model.graph)]


def check_inner_else_branch():
    """Drive the innermost else branch (t*2) by giving the inner If its own condition."""
    model = build_nested_model(unsorted=False)
    NameFixPass()(model)
    # names of the two levels: the inner Mul output was called "x" and must have been renamed
    outer_if = next(n for n in model.graph if n.op_type == "If")
    inner_if = outer_if.attributes["then_branch"].as_graph()[0]
    inner_else = inner_if.attributes["else_branch"].as_graph()
    assert inner_else.outputs[0].name not in ("x", "", None)
    # initializer "w" of the inner graph clashed with the outer "w": renamed, and re-keyed
    (inner_init_name,) = inner_else.initializers.keys()
    assert inner_init_name != "w"
    assert inner_else.initializers[inner_init_name].name == inner_init_name
    assert list(model.graph.initializers) == ["w"]


def check_functions():
    model = build_function_model()
    x = np.array([1.0, 2.0], dtype=np.float32)
    y = np.array([10.0, 20.0], dtype=np.float32)
    want = [-((-(x + y)) + x), x]
    result = ir.passes.Sequential(NameFixPass(), RemoveUnusedNodesPass(), NameFixPass())(model)
    assert result.modified
    func = next(iter(model.functions.values()))
    assert len({v.name for v in func.inputs}) == 2
    assert func.inputs[0].name == "a"
    assert_unique_names(func)
    assert_unique_names(model.graph)
    assert dump_names(func) == [("n", ["a", "a_1"], ["v_1"]), ("n_1", ["v_1"], ["v"])]
    assert dump_names(model.graph) == [
        ("call", ["x", "y2"], ["v_1"]),
        ("call_1", ["v_1", "x"], ["v"]),
    ]
    assert [v.name for v in model.graph.inputs] == ["x", "y2"]
    assert model.graph.outputs[1] is model.graph.inputs[0]
    got = run(model, [x, y])
    np.testing.assert_array_equal(got[0], want[0])
    np.testing.assert_array_equal(got[1], want[1])


def check_empty_graph():
    x = val("x")
    model = ir.Model(ir.Graph([x], [x], nodes=[], opset_imports={"": 20}, name="g"), ir_version=10)
    result = NameFixPass()(model)
    assert result.modified is False
    got = run(model, [np.array([4.0, 5.0], dtype=np.float32)])
    np.testing.assert_array_equal(got[0], [4.0, 5.0])


class Boom(RuntimeError):
    pass


class RaisingGenerator:
    def generate_node_name(self, node):
        return node.name or "node"

    def generate_value_name(self, value):
        raise Boom(value.name)


class PrefixGenerator:
    def generate_node_name(self, node):
        return f"N_{node.op_type}"

    def generate_value_name(self, value):
        return "V"


def check_generators():
    # Rejected call: the generator's exception comes out unchanged (wrapped by the pass infra)
    model = build_nested_model(unsorted=True)
    try:
        NameFixPass(name_generator=RaisingGenerator())(model)
    except ir.passes.PassError as e:
        assert isinstance(e.__cause__, Boom), repr(e.__cause__)
    except Boom:
        pass
    else:
        raise AssertionError("expected the generator's exception")
    # the model is still repairable and still computes the same thing
    NameFixPass(name_generator=PrefixGenerator())(model)
    TopologicalSortPass()(model)
    assert_unique_names(model.graph)
    xs = np.array([3.0, 5.0], dtype=np.float32)
    got = run(model, [xs, np.array(True)])
    np.testing.assert_array_equal(got[0], xs + np.array([1.0, 2.0], dtype=np.float32))
    np.testing.assert_array_equal(got[1], xs)
    all_nodes = list(ir.traversal.RecursiveGraphIterator(model.graph))
    assert all(n.name == "dup" or n.name.startswith("N_") for n in all_nodes), [
        n.name for n in all_nodes
    ]


def main():
    check_nested(unsorted=False)
    check_nested(unsorted=True)
    check_inner_else_branch()
    check_functions()
    check_empty_graph()
    check_generators()
    print("C05 demo OK")


if __name__ == "__main__":
    main()
