"""Round trip of types, shapes and dimensions: proto -> IR -> proto must be lossless."""

import sys

import onnx

import onnx_ir as ir
from onnx_ir import serde

failures = []


def check(cond, msg):
    if not cond:
        failures.append(msg)
        print("FAIL:", msg)


def tensor_type(elem, dims=None, denotation=None, sparse=False):
    """dims: None (no shape), or a list of (kind, value, denotation)."""
    tp = onnx.TypeProto()
    if denotation:
        tp.denotation = denotation
    leaf = tp.sparse_tensor_type if sparse else tp.tensor_type
    leaf.elem_type = elem
    if dims is not None:
        leaf.shape.ClearField("dim")  # touch: an empty shape is still a shape
        for kind, value, den in dims:
            d = leaf.shape.dim.add()
            if kind == "v":
                d.dim_value = value
            elif kind == "p":
                d.dim_param = value
            if den:
                d.denotation = den
    return tp


def wrap(kind, inner, denotation=None):
    tp = onnx.TypeProto()
    if denotation:
        tp.denotation = denotation
    if kind == "seq":
        tp.sequence_type.elem_type.CopyFrom(inner)
    else:
        tp.optional_type.elem_type.CopyFrom(inner)
    return tp


def round_trip_type(tp):
    ts = serde.from_proto(tp)
    out = onnx.TypeProto()
    if ts.type is not None:
        serde.serialize_type_into(out, ts.type)
    if ts.shape is not None:
        serde.serialize_shape_into(out, ts.shape)
    return ts, out


DIMS = [
    ("v", 3, None),
    ("p", "N", "DATA_BATCH"),
    ("u", None, None),  # unknown dim, neither value nor param
    ("u", None, "DATA_CHANNEL"),  # unknown dim with a denotation
    ("v", 0, "ZERO"),  # explicitly set zero (default valued but present)
    ("p", "N", None),  # duplicate symbol
    ("p", "", None),  # explicitly set empty dim_param
    ("v", -1, None),
]

cases = {
    "tensor": tensor_type(onnx.TensorProto.FLOAT, DIMS, "TENSOR"),
    "tensor_noshape": tensor_type(onnx.TensorProto.INT64, None),
    "tensor_scalar": tensor_type(onnx.TensorProto.BFLOAT16, []),
    "sparse": tensor_type(onnx.TensorProto.DOUBLE, DIMS[:4], "SP", sparse=True),
    "sparse_noshape": tensor_type(onnx.TensorProto.INT8, None, sparse=True),
    "seq": wrap("seq", tensor_type(onnx.TensorProto.FLOAT16, DIMS[:3]), "SEQ"),
    "opt": wrap("opt", tensor_type(onnx.TensorProto.UINT8, DIMS[1:5]), "OPT"),
    "opt_seq_sparse": wrap(
        "opt",
        wrap("seq", tensor_type(onnx.TensorProto.INT32, DIMS, "LEAF", sparse=True), "MID"),
        "TOP",
    ),
    "seq_seq_opt_noshape": wrap(
        "seq", wrap("seq", wrap("opt", tensor_type(onnx.TensorProto.BOOL, None)))
    ),
    "seq_opt_scalar": wrap("seq", wrap("opt", tensor_type(onnx.TensorProto.STRING, []))),
}

for name, tp in cases.items():
    ts, out = round_trip_type(tp)
    check(out == tp, f"{name}: type proto changed\n--- in\n{tp}\n--- out\n{out}")
    check(
        out.SerializeToString(deterministic=True) == tp.SerializeToString(deterministic=True),
        f"{name}: bytes differ",
    )

# Shapes and dimensions directly
shape_proto = cases["tensor"].tensor_type.shape
shape = serde.deserialize_tensor_shape(shape_proto)
check(isinstance(shape, ir.Shape) and len(shape) == len(DIMS), "shape rank")
check(shape.frozen, "deserialized shape must be frozen")
check(shape[0] == 3 and isinstance(shape[0], int), "dim 0 is int 3")
check(isinstance(shape[1], ir.SymbolicDim) and shape[1].value == "N", "dim 1 symbolic N")
check(isinstance(shape[2], ir.SymbolicDim) and shape[2].value is None, "dim 2 unknown")
check(shape[4] == 0 and isinstance(shape[4], int), "dim 4 is int 0")
check(isinstance(shape[6], ir.SymbolicDim) and shape[6].value == "", "dim 6 empty param")
check(
    [shape.get_denotation(i) for i in range(len(DIMS))]
    == [None, "DATA_BATCH", None, "DATA_CHANNEL", "ZERO", None, None, None],
    "denotations",
)
empty = serde.deserialize_tensor_shape(onnx.TensorShapeProto())
check(len(empty) == 0 and empty.frozen, "empty shape")
check(serde.from_proto(onnx.TensorShapeProto()) == ir.Shape([]), "from_proto empty shape")

for (kind, value, den), dim_proto in zip(DIMS, shape_proto.dim):
    dim, got_den = serde.deserialize_dimension(dim_proto)
    check(got_den == den, f"dimension denotation {dim_proto}")
    if kind == "v":
        check(type(dim) is int and dim == value, f"dim value {dim_proto}")
    else:
        check(isinstance(dim, ir.SymbolicDim) and dim.value == value, f"dim param {dim_proto}")
    back = onnx.TensorShapeProto.Dimension()
    serde.serialize_dimension_into(back, dim, got_den)
    # Explicit empty dim_param "" is the one value the IR keeps (as SymbolicDim("")); it must survive.
    check(back == dim_proto, f"dimension round trip {dim_proto!r} -> {back!r}")

# Shape extraction alone
check(serde.deserialize_type_proto_for_shape(onnx.TypeProto()) is None, "empty type: no shape")
check(
    serde.deserialize_type_proto_for_shape(cases["tensor_noshape"]) is None, "no shape -> None"
)
check(
    serde.deserialize_type_proto_for_shape(cases["seq_seq_opt_noshape"]) is None,
    "nested no shape -> None",
)
seq_no_elem = onnx.TypeProto()
seq_no_elem.sequence_type.SetInParent()
check(serde.deserialize_type_proto_for_shape(seq_no_elem) is None, "sequence w/o elem: None")
opt_no_elem = onnx.TypeProto()
opt_no_elem.optional_type.SetInParent()
check(serde.deserialize_type_proto_for_shape(opt_no_elem) is None, "optional w/o elem: None")
opaque = onnx.TypeProto()
opaque.opaque_type.domain = "d"
check(serde.deserialize_type_proto_for_shape(opaque) is None, "opaque: None")
check(
    serde.deserialize_type_proto_for_shape(cases["opt_seq_sparse"])
    == serde.deserialize_tensor_shape(
        cases["opt_seq_sparse"].optional_type.elem_type.sequence_type.elem_type.sparse_tensor_type.shape
    ),
    "nested shape is the leaf shape",
)

# Rejected inputs: map types, at top level and nested (error chain depth must be kept)
map_tp = onnx.TypeProto()
map_tp.map_type.key_type = onnx.TensorProto.INT64
map_tp.map_type.value_type.CopyFrom(cases["tensor"])


def chain(exc):
    names = []
    while exc is not None:
        names.append(type(exc).__name__)
        exc = exc.__cause__
    return names


try:
    serde.deserialize_type_proto_for_shape(map_tp)
    check(False, "map type accepted")
except serde.SerdeError as e:
    check(chain(e) == ["SerdeError", "NotImplementedError"], f"map chain {chain(e)}")
    check("deserialize_type_proto_for_shape" in str(e), "error names the function")

nested_map = wrap("seq", wrap("opt", map_tp))
try:
    serde.deserialize_type_proto_for_shape(nested_map)
    check(False, "nested map type accepted")
except serde.SerdeError as e:
    check(
        chain(e) == ["SerdeError"] * 3 + ["NotImplementedError"], f"nested map chain {chain(e)}"
    )

try:
    serde.deserialize_tensor_shape(None)
    check(False, "None shape accepted")
except serde.SerdeError as e:
    check(chain(e) == ["SerdeError", "AttributeError"], f"None shape chain {chain(e)}")

# Whole model: value infos, a type_proto(s) attribute, nested types on graph inputs
vi = [
    onnx.helper.make_value_info(n, tp)
    for n, tp in [
        ("x", cases["tensor"]),
        ("s", cases["opt_seq_sparse"]),
        ("q", cases["seq_opt_scalar"]),
    ]
]
out_vi = onnx.helper.make_value_info("y", cases["tensor"])
node = onnx.helper.make_node("Identity", ["x"], ["y"], name="n0")
attr = onnx.AttributeProto(name="tp", type=onnx.AttributeProto.TYPE_PROTO)
attr.tp.CopyFrom(cases["opt_seq_sparse"])
attrs = onnx.AttributeProto(name="tps", type=onnx.AttributeProto.TYPE_PROTOS)
for tp in (cases["tensor"], cases["seq"], cases["tensor_noshape"], cases["tensor"]):
    attrs.type_protos.add().CopyFrom(tp)
node.attribute.extend([attr, attrs])
graph = onnx.helper.make_graph([node], "g", vi, [out_vi])
model = onnx.helper.make_model(graph, ir_version=10, opset_imports=[onnx.helper.make_opsetid("", 21)])
model.ClearField("producer_name")
back = serde.to_proto(serde.from_proto(model))
check(back == model, f"model changed:\n{back}\n----\n{model}")

if failures:
    print(f"{len(failures)} failure(s)")
    sys.exit(1)
print("OK")
