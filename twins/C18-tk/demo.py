"""Demo for C18: region extraction is exact, independent and rejects unbounded regions."""

from __future__ import annotations

import sys

import numpy as np

import onnx_ir as ir
import onnx_ir.analysis


def _val(name: str) -> ir.Value:
    return ir.Value(
        name=name, type=ir.TensorType(ir.DataType.FLOAT), shape=ir.Shape([2])
    )


def build():
    x, y, z = _val("x"), _val("y"), _val("z")
    w = _val("w")
    w.const_value = ir.tensor(np.array([1.0, 2.0], dtype=np.float32), name="w")
    w2 = _val("w2")
    w2.const_value = ir.tensor(np.array([3.0, 4.0], dtype=np.float32), name="w2")

    n_add = ir.Node("", "Add", [x, y], name="n_add", outputs=[_val("a")])
    n_mul = ir.Node("", "Mul", [n_add.outputs[0], w], name="n_mul", outputs=[_val("m")])
    n_dead = ir.Node("", "Neg", [z], name="n_dead", outputs=[_val("d")])

    # nested graph capturing outer values `a` (node output) and `w2` (initializer)
    inner_in = _val("inner_in")
    inner_node = ir.Node(
        "", "Add", [n_add.outputs[0], w2], name="inner_add", outputs=[_val("inner_out")]
    )
    then_g = ir.Graph([], [inner_node.outputs[0]], nodes=[inner_node], name="then_g")
    else_node = ir.Node("", "Identity", [z], name="else_id", outputs=[_val("else_out")])
    else_g = ir.Graph([], [else_node.outputs[0]], nodes=[else_node], name="else_g")
    del inner_in
    cond = _val("cond")
    n_if = ir.Node(
        "",
        "If",
        [cond],
        attributes=[
            ir.Attr("then_branch", ir.AttributeType.GRAPH, then_g),
            ir.Attr("else_branch", ir.AttributeType.GRAPH, else_g),
        ],
        name="n_if",
        outputs=[_val("r")],
    )
    # optional (None) input and duplicate input
    n_sum = ir.Node(
        "", "Sum3", [n_mul.outputs[0], None, n_mul.outputs[0]], name="n_sum", outputs=[_val("s")]
    )
    graph = ir.Graph(
        [x, y, z, cond],
        [n_sum.outputs[0], n_if.outputs[0], n_dead.outputs[0]],
        nodes=[n_add, n_mul, n_dead, n_if, n_sum],
        initializers=[w, w2],
        name="g",
        opset_imports={"": 20},
    )
    return graph


def names(nodes):
    return [n.name for n in nodes]


def source_objects(graph):
    objs = set()
    for node in ir.traversal.RecursiveGraphIterator(graph):
        objs.add(id(node))
        for v in list(node.inputs) + list(node.outputs):
            if v is not None:
                objs.add(id(v))
    for v in list(graph.inputs) + list(graph.initializers.values()):
        objs.add(id(v))
    return objs


def check_independent(src, ext):
    src_ids = source_objects(src)
    assert id(ext) != id(src)
    for node in ir.traversal.RecursiveGraphIterator(ext):
        assert id(node) not in src_ids, node.name
        for v in list(node.inputs) + list(node.outputs):
            assert v is None or id(v) not in src_ids, v
    for v in list(ext.inputs) + list(ext.outputs) + list(ext.initializers.values()):
        assert id(v) not in src_ids, v


def expect_value_error(fn, fragment):
    try:
        fn()
    except ValueError as e:
        assert type(e) is ValueError, type(e)
        assert fragment in str(e), str(e)
        return str(e)
    raise AssertionError("ValueError expected")


def main() -> int:
    g = build()
    before = names(g)

    # 1. by name, bounded in the middle: only n_mul, n_sum; initializer w needed
    ext = ir.convenience.extract(g, inputs=["a"], outputs=["s"])
    assert isinstance(ext, ir.Graph)
    assert names(ext) == ["n_mul", "n_sum"], names(ext)
    assert [v.name for v in ext.inputs] == ["a"]
    assert [v.name for v in ext.outputs] == ["s"]
    assert sorted(ext.initializers) == ["w"], sorted(ext.initializers)
    np.testing.assert_array_equal(ext.initializers["w"].const_value.numpy(), [1.0, 2.0])
    assert ext.name == "g" and ext.opset_imports == {"": 20}
    # None and duplicated inputs survive
    s_node = ext[1]
    assert s_node.inputs[1] is None and s_node.inputs[0] is s_node.inputs[2]
    check_independent(g, ext)

    # 2. by object, mixed with names, whole dependency cone with nested graph:
    #    else-branch captures z, then-branch captures a and w2
    vals = ir.convenience.create_value_mapping(g, include_subgraphs=False)
    ext2 = ir.convenience.extract(g, inputs=[vals["x"], "y", vals["z"], "cond"], outputs=["r", vals["s"]])
    assert names(ext2) == ["n_add", "n_mul", "n_if", "n_sum"], names(ext2)
    assert sorted(ext2.initializers) == ["w", "w2"], sorted(ext2.initializers)
    assert [v.name for v in ext2.inputs] == ["x", "y", "z", "cond"]
    assert [v.name for v in ext2.outputs] == ["r", "s"]
    check_independent(g, ext2)
    # the captured values inside the cloned branches are the clone's own values
    if_node = ext2[2]
    then_clone = if_node.attributes["then_branch"].as_graph()
    assert then_clone[0].inputs[0] is ext2[0].outputs[0]
    assert then_clone[0].inputs[1] is ext2.initializers["w2"]
    usage = ir.analysis.analyze_implicit_usage(ext2)
    assert {v.name for v in usage[then_clone]} == {"a", "w2"}
    else_clone = if_node.attributes["else_branch"].as_graph()
    assert {v.name for v in usage[else_clone]} == {"z"}
    assert set(usage) == {then_clone, else_clone}

    # 3. unbounded: z is needed by the else branch of the If only (captured), not given.
    #    The frontier check looks at direct node inputs only, so the request is rejected
    #    later, while cloning; in either case the call must raise and leave g untouched.
    try:
        ir.convenience.extract(g, inputs=["x", "y", "cond"], outputs=["r"])
    except (ValueError, RuntimeError) as e:
        print("captured-only missing input rejected with", type(e).__name__)
    else:
        raise AssertionError("an exception was expected")
    assert names(g) == before

    # 3b. two missing inputs are reported sorted by name
    msg = expect_value_error(
        lambda: ir.convenience.extract(g, inputs=[], outputs=["m"]),
        "required but not provided: x, y",
    )
    assert msg.endswith("required but not provided: x, y"), msg

    # 4. rejected calls: unknown name, foreign value, no outputs, name only in subgraph
    expect_value_error(
        lambda: ir.convenience.extract(g, inputs=["nope"], outputs=["s"]),
        "Value with name 'nope' not found in the graph.",
    )
    expect_value_error(
        lambda: ir.convenience.extract(g, inputs=["x"], outputs=["inner_out"]),
        "Value with name 'inner_out' not found in the graph.",
    )
    foreign = _val("foreign")
    expect_value_error(
        lambda: ir.convenience.extract(g, inputs=[foreign], outputs=["s"]),
        "does not belong to the given Graph (g).",
    )
    # the first offending reference (inputs before outputs) is the one reported
    expect_value_error(
        lambda: ir.convenience.extract(g, inputs=["nope"], outputs=[foreign]),
        "Value with name 'nope'",
    )
    expect_value_error(
        lambda: ir.convenience.extract(g, inputs=[foreign], outputs=["nope"]),
        "does not belong",
    )
    expect_value_error(
        lambda: ir.convenience.extract(g, inputs=["x"], outputs=[]),
        "At least one output must be provided",
    )
    # unhashable reference: TypeError from the name lookup, as before
    try:
        ir.convenience.extract(g, inputs=[["x"]], outputs=["s"])
    except TypeError:
        pass
    else:
        raise AssertionError("TypeError expected")

    # 5. duplicates in the boundary sets and an output that is also an input
    ext5 = ir.convenience.extract(g, inputs=["a", "a"], outputs=["m", "m"])
    assert names(ext5) == ["n_mul"]
    assert [v.name for v in ext5.outputs] == ["m", "m"]
    assert ext5.outputs[0] is ext5.outputs[1]
    ext5b = ir.convenience.extract(g, inputs=["a"], outputs=["a"])
    assert names(ext5b) == [] and len(ext5b.initializers) == 0

    # 6. an initializer used as boundary input is kept as initializer
    ext6 = ir.convenience.extract(g, inputs=["a", "w"], outputs=["m"])
    assert sorted(ext6.initializers) == ["w"]
    assert [v.name for v in ext6.inputs] == ["a", "w"]

    # 7. functions: no initializers recorded from the inputs
    fx, fy = _val("fx"), _val("fy")
    f_add = ir.Node("", "Add", [fx, fy], name="f_add", outputs=[_val("fa")])
    f_neg = ir.Node("", "Neg", [f_add.outputs[0]], name="f_neg", outputs=[_val("fo")])
    fgraph = ir.Graph([fx, fy], [f_neg.outputs[0]], nodes=[f_add, f_neg], name="fg")
    func = ir.Function("dom", "F", graph=fgraph, attributes=[])
    fext = ir.convenience.extract(func, inputs=["fa"], outputs=["fo"])
    assert names(fext) == ["f_neg"] and len(fext.initializers) == 0
    expect_value_error(
        lambda: ir.convenience.extract(func, inputs=["fx"], outputs=["fo"]),
        "required but not provided: fy",
    )
    expect_value_error(
        lambda: ir.convenience.extract(func, inputs=[foreign], outputs=["fo"]),
        "does not belong to the given Function (fg).",
    )

    # 8. graph views: membership check is skipped for value objects
    view = ir.GraphView([vals["a"]], [vals["s"]], nodes=[g[1], g[4]], initializers=[vals["w"]])
    vext = ir.convenience.extract(view, inputs=[vals["a"]], outputs=[vals["m"]])
    assert names(vext) == ["n_mul"]
    check_independent(g, vext)

    # the source is untouched
    assert names(g) == before
    assert sorted(g.initializers) == ["w", "w2"]
    assert ir.analysis.analyze_implicit_usage(g)[g[3].attributes["then_branch"].as_graph()] == {
        vals["a"],
        vals["w2"],
    }
    print("C18 demo OK")
    return 0


if __name__ == "__main__":
    sys.exit(main())
