"""Demo for C17: function / node-attribute deserialization terminates with an error or a consistent IR."""
import builtins
import io
import os

import onnx
from onnx import TensorProto, helper

import onnx_ir as ir
from onnx_ir import serde

# No file access is allowed while deserializing / serializing.
_real_open = builtins.open
_real_os_open = os.open


def _no_open(*args, **kwargs):
    raise AssertionError(f"file access: {args!r}")


def check_consistent(graph_like):
    """Use-def and ownership links agree in both directions."""
    for node in graph_like.all_nodes() if hasattr(graph_like, "all_nodes") else graph_like:
        for i, inp in enumerate(node.inputs):
            if inp is not None:
                assert (node, i) in inp.uses(), (node.name, i)
        for i, out in enumerate(node.outputs):
            assert out.producer() is node and out.index() == i
            for user, idx in out.uses():
                assert user.inputs[idx] is out
        for attr in node.attributes.values():
            if attr.type == ir.AttributeType.GRAPH:
                assert attr.value.parent_node is node if hasattr(attr.value, "parent_node") else True


def roundtrip_fixpoint(proto):
    model = serde.deserialize_model(proto)
    check_consistent(model.graph)
    for f in model.functions.values():
        check_consistent(f)
    p1 = serde.serialize_model(model)
    m2 = serde.deserialize_model(p1)
    p2 = serde.serialize_model(m2)
    assert p1.SerializeToString(deterministic=True) == p2.SerializeToString(deterministic=True)
    return model


def vi(name, shape):
    return helper.make_tensor_value_info(name, TensorProto.FLOAT, shape)


def then_branch(name, outer):
    n = helper.make_node("Identity", [outer], [name + "_o"], name=name + "_n")
    return helper.make_graph([n], name, [], [vi(name + "_o", [1])])


def build_model(ir_version):
    # Node with THREE attribute entries named "then_branch" (duplicates) plus an int attribute
    # given twice; only the last entry of every name may survive, in proto order.
    dup = helper.make_node("If", ["cond"], ["y"], name="if_node")
    dup.attribute.append(helper.make_attribute("then_branch", then_branch("dropped1", "x")))
    dup.attribute.append(helper.make_attribute("k", 1))
    dup.attribute.append(helper.make_attribute("then_branch", then_branch("dropped2", "x")))
    dup.attribute.append(helper.make_attribute("else_branch", then_branch("else_g", "x")))
    dup.attribute.append(helper.make_attribute("then_branch", then_branch("kept", "x")))
    dup.attribute.append(helper.make_attribute("k", 2))

    call = helper.make_node("F", ["x", "x"], ["z"], domain="my::dom", name="call")
    graph = helper.make_graph(
        [dup, call],
        "main",
        [vi("cond", []), vi("x", [1])],
        [vi("y", [1]), vi("z", [1])],
    )
    # IR-9 style value info for the function, stored in the main graph. The domain contains
    # "::" and the value name contains "/".
    graph.value_info.append(vi("my::dom::F/a", [7]))
    graph.value_info.append(vi("my::dom::F/t/1", [3, 5]))
    graph.value_info.append(vi("my::dom::F/nobody", [9]))
    graph.value_info.append(vi("unrelated", [2]))

    # Function with a DUPLICATED input name, an unsorted body and an empty output name.
    f_nodes = [
        helper.make_node("Add", ["t/1", "a"], ["out", ""], name="n2"),
        helper.make_node("Neg", ["a"], ["t/1"], name="n1"),
    ]
    func = helper.make_function(
        "my::dom", "F", ["a", "a"], ["out"], f_nodes,
        opset_imports=[helper.make_opsetid("", 18)],
        attributes=["alpha"],
    )
    if ir_version >= 10:
        func.value_info.append(vi("a", [11]))
        func.value_info.append(vi("t/1", [13]))
    model = helper.make_model(
        graph,
        functions=[func],
        opset_imports=[helper.make_opsetid("", 18), helper.make_opsetid("my::dom", 1)],
    )
    model.ir_version = ir_version
    return model


def main():
    builtins.open = _no_open
    io.open = _no_open
    os.open = _no_open
    try:
        for ir_version in (9, 10):
            proto = build_model(ir_version)
            model = roundtrip_fixpoint(proto)

            # --- duplicate attribute names: last one wins, order of survivors = proto order
            if_node = model.graph[0]
            assert list(if_node.attributes) == ["else_branch", "then_branch", "k"], list(
                if_node.attributes
            )
            assert if_node.attributes["k"].value == 2
            assert if_node.attributes["then_branch"].value.name == "kept"
            # The dropped subgraphs were never deserialized: x is used by exactly the two
            # surviving subgraph nodes and twice by the call.
            x = model.graph.inputs[1]
            users = sorted((u.name, i) for u, i in x.uses())
            assert users == [("call", 0), ("call", 1), ("else_g_n", 0), ("kept_n", 0)], users

            # --- function: duplicated inputs are two Values; the later one is in scope
            func = model.functions[("my::dom", "F", "")]
            a0, a1 = func.inputs
            assert a0 is not a1 and a0.name == a1.name == "a"
            assert [(u.name, i) for u, i in a0.uses()] == []
            assert sorted((u.name, i) for u, i in a1.uses()) == [("n1", 0), ("n2", 1)]
            n2, n1 = list(func)
            assert n2.inputs[0] is n1.outputs[0]
            assert func.outputs[0] is n2.outputs[0]
            assert n2.outputs[1].name == "" and n2.outputs[1].producer() is n2
            assert [a.name for a in func.attributes.values()] == ["alpha"]
            if ir_version == 9:
                # composite names "my::dom::F/<value>" from the main graph
                assert a0.shape == ir.Shape([7]) and a1.shape == ir.Shape([7])
                assert n1.outputs[0].shape == ir.Shape([3, 5])
            else:
                assert a0.shape == ir.Shape([11]) and a1.shape == ir.Shape([11])
                assert n1.outputs[0].shape == ir.Shape([13])
            assert n2.outputs[0].shape is None and n2.outputs[0].type is None

        # --- single node through the public entry point, duplicates + empty attribute list
        node_proto = helper.make_node("Op", ["", "p", "p"], ["", "q"], name="single")
        node_proto.attribute.append(helper.make_attribute("s", "first"))
        node_proto.attribute.append(helper.make_attribute("s", "second"))
        node = serde.deserialize_node(node_proto)
        assert list(node.attributes) == ["s"] and node.attributes["s"].value == "second"
        assert node.inputs[0] is None and node.inputs[1] is node.inputs[2]
        assert serde.deserialize_node(helper.make_node("Op", [], [])).attributes == {}
        reserialized = serde.serialize_node(node)
        assert serde.serialize_node(serde.deserialize_node(reserialized)) == reserialized

        # --- rejected inputs
        # a function output that nobody produces
        bad = helper.make_function(
            "d", "G", ["a"], ["missing"], [helper.make_node("Neg", ["a"], ["b"])],
            opset_imports=[helper.make_opsetid("", 18)],
        )
        try:
            serde.deserialize_function(bad)
        except Exception as e:  # noqa: BLE001
            assert isinstance(e, (KeyError, serde.SerdeError)), type(e)
        else:
            raise AssertionError("function with an unproduced output must be rejected")
        # a node output redeclaring a function input
        bad2 = helper.make_function(
            "d", "H", ["a"], ["a"], [helper.make_node("Neg", ["a"], ["a"])],
            opset_imports=[helper.make_opsetid("", 18)],
        )
        try:
            serde.deserialize_function(bad2)
        except Exception as e:  # noqa: BLE001
            assert isinstance(e, (ValueError, serde.SerdeError)), type(e)
        else:
            raise AssertionError("redeclared value must be rejected")
        # an empty function
        empty = serde.deserialize_function(onnx.FunctionProto())
        assert len(empty) == 0 and not empty.inputs and not empty.outputs
    finally:
        builtins.open = _real_open
        io.open = _real_open
        os.open = _real_os_open
    print("C17 demo OK")


if __name__ == "__main__":
    main()
