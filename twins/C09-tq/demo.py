"""C09 demo: concurrent external-data writing is schedule-independent, bounded and live.

Exercises the per-tensor step of the serial and of the parallel writer (progress report,
then budgeted write) and the preallocation of the parallel writer through the public API.
"""

import os
import sys
import tempfile
import threading
import time

import numpy as np

import onnx_ir as ir
from onnx_ir import external_data as ed


class Probe(ir.Tensor):
    """A tensor whose tofile() records concurrency and live materialised bytes."""

    stats_lock = threading.Lock()
    live_bytes = 0
    peak_bytes = 0

    def __init__(self, array, name, fail=False):
        super().__init__(array, name=name)
        self.active = 0
        self.max_active = 0
        self.uses = 0
        self.fail = fail

    def tofile(self, file):
        cls = Probe
        with cls.stats_lock:
            self.active += 1
            self.uses += 1
            self.max_active = max(self.max_active, self.active)
            cls.live_bytes += self.nbytes
            cls.peak_bytes = max(cls.peak_bytes, cls.live_bytes)
        try:
            time.sleep(0.002)
            if self.fail:
                raise RuntimeError(f"boom {self.name}")
            super().tofile(file)
        finally:
            with cls.stats_lock:
                self.active -= 1
                cls.live_bytes -= self.nbytes


def reset_probe():
    Probe.live_bytes = 0
    Probe.peak_bytes = 0


def make_tensors(fail_at=None):
    rng = np.random.default_rng(7)
    sizes = [3, 700, 0, 64, 900, 5, 800, 17, 1, 256, 1000, 33]  # several > budget of 512 bytes
    tensors = []
    for i, n in enumerate(sizes):
        arr = rng.integers(0, 255, size=(n,), dtype=np.uint8)
        tensors.append(Probe(arr, f"t{i}", fail=(i == fail_at)))
    # One tensor object used by several initializers (duplicates in the sequence)
    tensors.insert(4, tensors[1])
    tensors.append(tensors[1])
    tensors.append(tensors[3])
    return tensors


class Recorder:
    def __init__(self):
        self.calls = []
        self.active = 0
        self.overlap = False
        self.threads = set()

    def __call__(self, tensor, info):
        self.active += 1
        if self.active != 1:
            self.overlap = True
        time.sleep(0.0005)
        self.calls.append((info.index, info.total, info.offset, info.filename, tensor.name))
        self.threads.add(threading.get_ident())
        self.active -= 1


def read(path):
    with open(path, "rb") as f:
        return f.read()


def check(cond, msg):
    if not cond:
        print("FAIL:", msg)
        sys.exit(1)


def main():
    base_threads = threading.active_count()
    with tempfile.TemporaryDirectory() as root:
        # ---- reference: serial save
        tensors = make_tensors()
        rec0 = Recorder()
        ref_ext = ir.external_data.convert_tensors_to_external(
            tensors, root, "serial.data", callback=rec0
        )
        ref_bytes = read(os.path.join(root, "serial.data"))
        check([c[0] for c in rec0.calls] == list(range(len(tensors))), "serial callback order")
        check(len(rec0.threads) == 1, "serial callback on the calling thread")
        ref_layout = [(t.offset, t.length) for t in ref_ext]

        # ---- every worker count x budget (x alignment) gives the same bytes
        for alignment, thr in ((None, 0), (4096, 100)):
            tensors = make_tensors()
            ser = ir.external_data.convert_tensors_to_external(
                tensors, root, f"ser_{alignment}.data", alignment=alignment, align_threshold=thr
            )
            ser_bytes = read(os.path.join(root, f"ser_{alignment}.data"))
            if alignment is None:
                check(ser_bytes == ref_bytes, "serial twice identical")
            for workers in (1, 2, 3, 8):
                for budget in (1, 512, 1 << 20):
                    tensors = make_tensors()
                    largest = max(t.nbytes for t in tensors)
                    reset_probe()
                    rec = Recorder()
                    name = f"par_{alignment}_{workers}_{budget}.data"
                    ext = ir.external_data.convert_tensors_to_external(
                        tensors,
                        root,
                        name,
                        callback=rec,
                        max_workers=workers,
                        max_in_flight_bytes=budget,
                        alignment=alignment,
                        align_threshold=thr,
                    )
                    check(read(os.path.join(root, name)) == ser_bytes, f"bytes differ {name}")
                    check(
                        [(t.offset, t.length) for t in ext] == [(t.offset, t.length) for t in ser],
                        "layout differs",
                    )
                    check(
                        sorted(c[0] for c in rec.calls) == list(range(len(tensors))),
                        f"callback not exactly once per tensor {name}",
                    )
                    check(all(c[1] == len(tensors) and c[3] == name for c in rec.calls), "info")
                    check(
                        all(c[2] == ext[c[0]].offset and c[4] == tensors[c[0]].name for c in rec.calls),
                        "callback offset/tensor",
                    )
                    check(not rec.overlap, "callback overlapped")
                    check(all(t.max_active <= 1 for t in tensors), "shared tensor evaluated concurrently")
                    check(tensors[1].uses == 3 and tensors[3].uses == 2, "shared tensor uses")
                    if workers > 1:
                        check(
                            Probe.peak_bytes <= budget + largest,
                            f"budget exceeded {Probe.peak_bytes} > {budget}+{largest}",
                        )
                    check(Probe.live_bytes == 0, "live bytes left")
                    check(sorted(os.listdir(root)) == sorted(set(os.listdir(root))), "listing")
                    check(not [n for n in os.listdir(root) if n.startswith(".")], "temp left")
        check(ref_layout[0] == (0, 3), "dense layout starts at 0")

        # ---- unusual inputs: empty, single, rejected calls
        out = ir.external_data.convert_tensors_to_external([], root, "empty.data", max_workers=4)
        check(out == [] and read(os.path.join(root, "empty.data")) == b"", "empty save")
        one = make_tensors()[:1]
        rec = Recorder()
        ir.external_data.convert_tensors_to_external(one, root, "one.data", callback=rec, max_workers=4)
        check(read(os.path.join(root, "one.data")) == one[0].tobytes(), "single tensor")
        check(len(rec.calls) == 1 and rec.threads == {threading.get_ident()}, "single is serial")
        # only zero-sized tensors, in parallel: preallocation to size 0
        zeros = [Probe(np.zeros((0,), dtype=np.float32), f"z{i}") for i in range(3)]
        ir.external_data.convert_tensors_to_external(zeros, root, "zeros.data", max_workers=2)
        check(read(os.path.join(root, "zeros.data")) == b"", "zero-size tensors")
        for kwargs in ({"max_workers": 0}, {"max_in_flight_bytes": 0}, {"alignment": 0}, {"align_threshold": -1}):
            try:
                ir.external_data.convert_tensors_to_external(make_tensors(), root, "bad.data", **kwargs)
            except ValueError:
                pass
            else:
                check(False, f"{kwargs} accepted")
            check(not os.path.exists(os.path.join(root, "bad.data")), "rejected call wrote a file")

        # ---- failing tensors and failing callbacks
        for workers in (None, 2, 4):
            for fail_at in (0, 6, 11):
                tensors = make_tensors(fail_at=fail_at)
                reset_probe()
                before = set(os.listdir(root))
                try:
                    ir.external_data.convert_tensors_to_external(
                        tensors, root, "fail.data", max_workers=workers, max_in_flight_bytes=512
                    )
                except RuntimeError as e:
                    check(str(e).startswith("boom"), "wrong exception")
                else:
                    check(False, "failure swallowed")
                # all workers stopped, nothing is being evaluated, nothing left behind
                check(threading.active_count() == base_threads, "workers still alive")
                check(Probe.live_bytes == 0 and all(t.active == 0 for t in tensors), "still evaluating")
                check(set(os.listdir(root)) == before, "failed save left files")

            def bad_callback(tensor, info):
                if info.index == 5:
                    raise KeyError("cb")

            try:
                ir.external_data.convert_tensors_to_external(
                    make_tensors(), root, "failcb.data", callback=bad_callback, max_workers=workers
                )
            except KeyError:
                pass
            else:
                check(False, "callback failure swallowed")
            check(threading.active_count() == base_threads, "workers alive after callback failure")
            check(not os.path.exists(os.path.join(root, "failcb.data")), "file after cb failure")

        # ---- sharded model save: shard drivers + workers share one budget
        def build_model():
            ts = make_tensors()
            values = []
            for i, t in enumerate(ts):
                v = ir.Value(name=f"w{i}", const_value=t)
                values.append(v)
            graph = ir.Graph([], [], nodes=[], initializers=values, name="g")
            return ir.Model(graph, ir_version=10), ts

        shard_files = {}
        for workers in (None, 2, 5, 16):
            model, ts = build_model()
            largest = max(t.nbytes for t in ts)
            reset_probe()
            rec = Recorder()
            d = os.path.join(root, f"shard_{workers}")
            os.mkdir(d)
            ed.unload_from_model(
                model, d, "m.data", max_shard_size_bytes=1500, callback=rec,
                max_workers=workers, max_in_flight_bytes=600,
            )
            files = {n: read(os.path.join(d, n)) for n in sorted(os.listdir(d))}
            shard_files[workers] = files
            check(len(files) > 2, "expected several shards")
            n_ext = sum(1 for t in ts if t.nbytes > 0)  # the empty tensor stays in the model
            check(sorted(c[0] for c in rec.calls) == list(range(n_ext)), "sharded callbacks once each")
            check(all(c[1] == n_ext for c in rec.calls), "sharded total")
            check(not rec.overlap, "sharded callback overlapped")
            check(all(t.max_active <= 1 for t in ts), "sharded shared tensor concurrent")
            if workers:
                check(Probe.peak_bytes <= 600 + largest, "sharded budget exceeded")
            check(threading.active_count() == base_threads, "threads left")
            # round trip
            for v, t in zip(model.graph.initializers.values(), ts):
                check(v.const_value.tobytes() == t.tobytes(), "round trip")
            # second save over existing shards is refused, files untouched
            model2, _ = build_model()
            try:
                ed.unload_from_model(model2, d, "m.data", max_shard_size_bytes=1500, max_workers=workers)
            except FileExistsError:
                pass
            else:
                check(False, "shard collision accepted")
            check({n: read(os.path.join(d, n)) for n in sorted(os.listdir(d))} == files, "shards touched")
        check(all(f == shard_files[None] for f in shard_files.values()), "shard bytes depend on workers")

        # sharded save with a failing tensor
        model, ts = build_model()
        ts[8].fail = True
        d = os.path.join(root, "shard_fail")
        os.mkdir(d)
        try:
            ed.unload_from_model(model, d, "m.data", max_shard_size_bytes=1500, max_workers=6,
                                 max_in_flight_bytes=600)
        except RuntimeError:
            pass
        else:
            check(False, "sharded failure swallowed")
        check(threading.active_count() == base_threads, "threads left after sharded failure")
        check(Probe.live_bytes == 0, "live bytes after sharded failure")
        check(not [n for n in os.listdir(d) if n.startswith(".")], "temp dirs left")

    print("C09 demo OK")


if __name__ == "__main__":
    main()
