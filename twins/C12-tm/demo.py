"""Demo for C12: topological sort across scopes, stable, deterministic, atomic."""
import random

import onnx_ir as ir


def val(name):
    return ir.Value(name=name)


def mk(op, inputs, name, n_out=1, attrs=()):
    return ir.Node("", op, inputs=list(inputs), attributes=list(attrs), num_outputs=n_out, name=name)


def all_graphs(graph):
    return [graph, *graph.subgraphs()]


def snapshot(graph):
    return {id(g): [n.name for n in g] for g in all_graphs(graph)}


def check_sorted(graph):
    """Every node comes after the same-graph producers of all values used by it or nested in it."""
    for g in all_graphs(graph):
        pos = {n: i for i, n in enumerate(g)}
        for n in g:
            assert n.graph is g
            nested = [n]
            for attr in n.attributes.values():
                if attr.type == ir.AttributeType.GRAPH:
                    nested.extend(ir.traversal.RecursiveGraphIterator(attr.value))
                elif attr.type == ir.AttributeType.GRAPHS:
                    for sg in attr.value:
                        nested.extend(ir.traversal.RecursiveGraphIterator(sg))
            for m in nested:
                for v in m.inputs:
                    if v is None:
                        continue
                    p = v.producer()
                    if p is not None and p.graph is g and p is not n:
                        assert pos[p] < pos[n], (p.name, n.name)


def build(perm_seed=None):
    """Main graph with a multi-output node, optional and repeated inputs, 2-level nested subgraphs."""
    x = val("x")
    a = mk("A", [x], "a", n_out=2)
    b = mk("B", [a.outputs[0], None, a.outputs[0]], "b")
    c = mk("C", [a.outputs[1], b.outputs[0]], "c")
    # inner-inner graph captures c (main) and s1 (middle graph)
    s1 = mk("S1", [b.outputs[0]], "s1")
    ii2 = mk("II2", [], "ii2")
    ii1 = mk("II1", [c.outputs[0], s1.outputs[0], ii2.outputs[0]], "ii1")
    inner_inner = ir.Graph([], [ii1.outputs[0]], nodes=[ii1, ii2], name="inner_inner")
    s2 = mk("S2", [s1.outputs[0]], "s2", attrs=[ir.AttrGraph("body", inner_inner)])
    empty = ir.Graph([], [], nodes=[], name="empty")
    middle = ir.Graph([], [s2.outputs[0]], nodes=[s2, s1], name="middle")
    d = mk("If", [x], "d", attrs=[ir.AttrGraphs("branches", [middle, empty])])
    e = mk("E", [d.outputs[0], c.outputs[0]], "e")
    f = mk("F", [x], "f")  # independent
    nodes = [a, b, c, d, e, f]
    if perm_seed is not None:
        random.Random(perm_seed).shuffle(nodes)
    g = ir.Graph([x], [e.outputs[0], f.outputs[0]], nodes=nodes, name="main")
    return g


# 1. All permutations of a small graph: result is valid, sorted, deterministic, idempotent.
for seed in range(40):
    g1, g2 = build(seed), build(seed)
    before = {k: sorted(v) for k, v in snapshot(g1).items()}
    g1.sort()
    g2.sort()
    check_sorted(g1)
    after = snapshot(g1)
    assert {k: sorted(v) for k, v in after.items()} == before  # each graph keeps its own nodes
    assert list(after.values()) == list(snapshot(g2).values())  # deterministic
    g1.sort()
    assert snapshot(g1) == after  # already sorted -> unchanged

# 2. Already sorted graph is untouched (identity of order), independent node stays in place.
g = build()
names = [n.name for n in g]
g.sort()
assert [n.name for n in g] == names == ["a", "b", "c", "d", "e", "f"]
sub = {sg.name: [n.name for n in sg] for sg in g.subgraphs()}
assert sub == {"middle": ["s1", "s2"], "inner_inner": ["ii2", "ii1"], "empty": []}, sub

# 3. Stability: exact expected order for a specific permutation.
x = val("x")
n1 = mk("N", [x], "n1")
n2 = mk("N", [n1.outputs[0]], "n2")
n3 = mk("N", [x], "n3")
n4 = mk("N", [n3.outputs[0], n3.outputs[0]], "n4")
g = ir.Graph([x], [n2.outputs[0], n4.outputs[0]], nodes=[n4, n2, n3, n1])
g.sort()
assert [n.name for n in g] == ["n3", "n4", "n1", "n2"], [n.name for n in g]

# 4. Cycle (inside a nested subgraph, via an outer node): ValueError, nothing moves.
x = val("x")
p = mk("P", [x], "p")
inner_n2 = mk("I2", [], "i2")
inner_n1 = mk("I1", [inner_n2.outputs[0]], "i1")
body = ir.Graph([], [inner_n1.outputs[0]], nodes=[inner_n1, inner_n2], name="body")
loop = mk("Loop", [p.outputs[0]], "loop", attrs=[ir.AttrGraph("body", body)])
r = mk("R", [loop.outputs[0]], "r")
inner_n2.resize_inputs(1)
inner_n2.replace_input_with(0, r.outputs[0])  # body uses r, r uses loop -> cycle
g = ir.Graph([x], [r.outputs[0]], nodes=[r, loop, p])
snap = snapshot(g)
try:
    g.sort()
except ValueError as exc:
    assert "cycle" in str(exc)
else:
    raise AssertionError("cycle not detected")
assert snapshot(g) == snap
# self-loop
s = mk("S", [], "s")
s.resize_inputs(1)
s.replace_input_with(0, s.outputs[0])
g = ir.Graph([], [], nodes=[mk("T", [], "t"), s])
try:
    g.sort()
except ValueError:
    pass
else:
    raise AssertionError
assert [n.name for n in g] == ["t", "s"]

# 5. Empty graph and function sort.
ir.Graph([], [], nodes=[]).sort()
x = val("x")
f1 = mk("N", [x], "f1")
f2 = mk("N", [f1.outputs[0]], "f2")
func = ir.Function("d", "fn", "", graph=ir.Graph([x], [f2.outputs[0]], nodes=[f2, f1]), attributes=[])
func.sort()
assert [n.name for n in func] == ["f1", "f2"]

# 6. extend / insert_before / insert_after: validate everything before adopting anything.
ga = ir.Graph([], [], nodes=[mk("N", [], "ga0")], name="ga")
gb = ir.Graph([], [], nodes=[mk("N", [], "gb0")], name="gb")
fresh1, fresh2 = mk("N", [], None), mk("N", [], "fresh2")
foreign = gb[0]
for call in (
    lambda: ga.extend(iter([fresh1, foreign, fresh2])),
    lambda: ga.insert_after(ga[0], [fresh1, foreign]),
    lambda: ga.insert_before(ga[0], (fresh1, foreign)),
    lambda: ga.insert_after(foreign, [fresh1]),
):
    try:
        call()
    except ValueError:
        pass
    else:
        raise AssertionError
    assert fresh1.graph is None and fresh1.name is None and fresh2.graph is None
    assert [n.name for n in ga] == ["ga0"] and foreign.graph is gb
ga.extend(n for n in [fresh2, ga[0], fresh2])  # duplicates and an own node: moved to the end
assert [n.name for n in ga] == ["ga0", "fresh2"], [n.name for n in ga]
ga.insert_before(ga[0], fresh1)
assert fresh1.graph is ga and fresh1.name is not None and ga[0] is fresh1
ga.insert_after(ga[0], [ga[2]])
assert [n is m for n, m in zip(ga, [fresh1, fresh2, ga.node("ga0")])] == [True] * 3
ga.extend([])
assert len(ga) == 3
print("OK")
