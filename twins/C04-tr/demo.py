"""Demo for C04: element-type tables and tensor representations agree.

Exercises DataType.bitwidth / itemsize / numpy() / short_name() / from_short_name() /
from_numpy() (the element-type tables) and, through them, the array-backed, packed,
proto-backed and memory-mapped external tensor representations.
"""

import io
import math
import os
import tempfile

import ml_dtypes
import numpy as np
import onnx
import onnx.numpy_helper

import onnx_ir as ir
from onnx_ir import serde

DT = ir.DataType


def expect_type_error(func, message):
    try:
        func()
    except TypeError as e:
        assert str(e) == message, (str(e), message)
        assert type(e) is TypeError
        assert e.__cause__ is None and e.__context__ is None, (e.__cause__, e.__context__)
    else:
        raise AssertionError(f"expected TypeError({message!r})")


# ---------------------------------------------------------------- tables
EXPECTED = {
    # dtype: (bitwidth, numpy dtype, short name)
    DT.FLOAT: (32, np.float32, "f32"),
    DT.UINT8: (8, np.uint8, "u8"),
    DT.INT8: (8, np.int8, "i8"),
    DT.UINT16: (16, np.uint16, "u16"),
    DT.INT16: (16, np.int16, "i16"),
    DT.INT32: (32, np.int32, "i32"),
    DT.INT64: (64, np.int64, "i64"),
    DT.BOOL: (8, np.bool_, "b8"),
    DT.FLOAT16: (16, np.float16, "f16"),
    DT.DOUBLE: (64, np.float64, "f64"),
    DT.UINT32: (32, np.uint32, "u32"),
    DT.UINT64: (64, np.uint64, "u64"),
    DT.COMPLEX64: (64, np.complex64, "c64"),
    DT.COMPLEX128: (128, np.complex128, "c128"),
    DT.BFLOAT16: (16, ml_dtypes.bfloat16, "bf16"),
    DT.FLOAT8E4M3FN: (8, ml_dtypes.float8_e4m3fn, "f8e4m3fn"),
    DT.FLOAT8E4M3FNUZ: (8, ml_dtypes.float8_e4m3fnuz, "f8e4m3fnuz"),
    DT.FLOAT8E5M2: (8, ml_dtypes.float8_e5m2, "f8e5m2"),
    DT.FLOAT8E5M2FNUZ: (8, ml_dtypes.float8_e5m2fnuz, "f8e5m2fnuz"),
    DT.UINT4: (4, ml_dtypes.uint4, "u4"),
    DT.INT4: (4, ml_dtypes.int4, "i4"),
    DT.FLOAT4E2M1: (4, ml_dtypes.float4_e2m1fn, "f4e2m1"),
    DT.FLOAT8E8M0: (8, ml_dtypes.float8_e8m0fnu, "f8e8m0"),
    DT.UINT2: (2, ml_dtypes.uint2, "u2"),
    DT.INT2: (2, ml_dtypes.int2, "i2"),
}
assert set(EXPECTED) | {DT.UNDEFINED, DT.STRING} == set(DT)

for dtype, (bits, np_type, short) in EXPECTED.items():
    assert dtype.bitwidth == bits and type(dtype.bitwidth) is int, dtype
    assert dtype.itemsize == bits / 8, dtype
    assert dtype.numpy() == np.dtype(np_type) and isinstance(dtype.numpy(), np.dtype), dtype
    assert dtype.short_name() == short, dtype
    got = DT.from_short_name(short)
    assert got is dtype, dtype
    assert DT.from_numpy(dtype.numpy()) is dtype, dtype
    assert DT.from_numpy(np.dtype(np_type)) is dtype, dtype
    # consistency with the ONNX reference tables
    assert int(dtype) == getattr(onnx.TensorProto, dtype.name)
    if bits >= 8:
        assert dtype.numpy().itemsize * 8 == bits, dtype
    assert onnx.helper.tensor_dtype_to_np_dtype(int(dtype)) == dtype.numpy(), dtype

# rejected calls: types without an entry in one of the tables
expect_type_error(lambda: DT.UNDEFINED.bitwidth, "Bitwidth not available for ONNX data type: UNDEFINED")
expect_type_error(lambda: DT.STRING.bitwidth, "Bitwidth not available for ONNX data type: STRING")
expect_type_error(lambda: DT.STRING.itemsize, "Bitwidth not available for ONNX data type: STRING")
expect_type_error(lambda: DT.UNDEFINED.numpy(), "Numpy does not support ONNX data type: UNDEFINED")
assert DT.STRING.numpy() == np.dtype(object)
assert DT.UNDEFINED.short_name() == "undefined" and DT.STRING.short_name() == "s"
assert DT.from_short_name("undefined") is DT.UNDEFINED
expect_type_error(lambda: DT.from_short_name("f33"), "Unknown short name: f33")
expect_type_error(lambda: DT.from_short_name(""), "Unknown short name: ")
expect_type_error(lambda: DT.from_short_name(7), "Unknown short name: 7")
try:
    DT.from_short_name(["f32"])  # unhashable key
except TypeError as e:
    assert "unhashable" in str(e), e
else:
    raise AssertionError

# from_numpy: string kinds, the structured "custom element types" of onnx <= 1.18, rejects
assert DT.from_numpy(np.dtype("U3")) is DT.STRING
assert DT.from_numpy(np.dtype("S5")) is DT.STRING
assert DT.from_numpy(np.dtype(object)) is DT.STRING
CUSTOM = {
    "bfloat16": (np.uint16, DT.BFLOAT16),
    "e4m3fn": (np.uint8, DT.FLOAT8E4M3FN),
    "e4m3fnuz": (np.uint8, DT.FLOAT8E4M3FNUZ),
    "e5m2": (np.uint8, DT.FLOAT8E5M2),
    "e5m2fnuz": (np.uint8, DT.FLOAT8E5M2FNUZ),
    "uint4": (np.uint8, DT.UINT4),
    "int4": (np.int8, DT.INT4),
    "float4e2m1": (np.uint8, DT.FLOAT4E2M1),
    "int2": (np.int8, DT.INT2),
    "uint2": (np.uint8, DT.UINT2),
}
for field, (base, dtype) in CUSTOM.items():
    structured = np.dtype((base, {field: (base, 0)}))
    assert structured.names == (field,)
    assert DT.from_numpy(structured) is dtype, field
# two fields (one of them known), an unknown field, no fields: all rejected
for bad in (
    np.dtype([("bfloat16", np.uint16), ("e4m3fn", np.uint8)]),
    np.dtype([("int4", np.int8), ("int4_", np.int8)]),
    np.dtype([("float8e8m0", np.uint8)]),
    np.dtype([("BFLOAT16", np.uint16)]),
    np.dtype("V4"),
    np.dtype("datetime64[s]"),
):
    expect_type_error(lambda bad=bad: DT.from_numpy(bad), f"Unsupported numpy data type: {bad}")


class FakeDtype:
    """Not a numpy dtype at all; `names` is a list, which never equals a tuple."""

    names = ["bfloat16"]

    def __hash__(self):
        return 12345

    def __repr__(self):
        return "FakeDtype()"


try:
    DT.from_numpy(FakeDtype())
except TypeError as e:
    pass  # np.issubdtype rejects it; what matters is the exception type
else:
    raise AssertionError

# ---------------------------------------------------------------- representations
rng = np.random.default_rng(0)
SHAPES = [(), (0,), (1,), (3,), (5,), (7, 1), (2, 3, 1, 1, 3), (1, 1, 1, 1, 1, 1, 3)]


def bit_patterns(dtype, size):
    """Random bit patterns (as the unsigned byte-level storage) incl. extremes."""
    bits = dtype.bitwidth
    if dtype == DT.BOOL:
        return rng.integers(0, 2, size=size, dtype=np.uint8)
    if bits < 8:
        vals = rng.integers(0, 1 << bits, size=size, dtype=np.uint8)
        if size >= 2:
            vals[0], vals[-1] = 0, (1 << bits) - 1
        return vals
    raw = rng.integers(0, 256, size=size * bits // 8, dtype=np.uint8)
    return raw


def make_array(dtype, shape):
    size = math.prod(shape)
    np_dtype = dtype.numpy()
    if dtype.bitwidth < 8:
        vals = bit_patterns(dtype, size)
        if dtype in (DT.INT4, DT.INT2):
            half = 1 << (dtype.bitwidth - 1)
            vals = (vals.astype(np.int16) - half).astype(np.int8)
            return vals.astype(np_dtype).reshape(shape)
        return vals.view(np_dtype).reshape(shape)
    raw = bit_patterns(dtype, size)
    return raw.view(np_dtype).reshape(shape) if size else np.zeros(shape, np_dtype)


def same_values(a, b):
    assert a.dtype == b.dtype, (a.dtype, b.dtype)
    assert a.shape == b.shape, (a.shape, b.shape)
    if a.dtype.itemsize and a.size:
        assert a.tobytes() == b.tobytes()


def reference_bytes(dtype, array):
    """Bytes according to the ONNX reference encoder."""
    proto = onnx.numpy_helper.from_array(array)
    assert proto.data_type == int(dtype)
    return proto.raw_data


tmpdir = tempfile.mkdtemp()
checked = 0
for dtype in EXPECTED:
    for shape in SHAPES:
        array = make_array(dtype, shape)
        size = math.prod(shape)
        nbytes = math.ceil(size * dtype.bitwidth / 8)

        t = ir.Tensor(array, dtype=dtype)
        reps = {"array": t}
        data = t.tobytes()
        assert len(data) == nbytes == t.nbytes, (dtype, shape, len(data), nbytes)
        assert data == reference_bytes(dtype, array), (dtype, shape)

        if dtype.bitwidth < 8:
            packed = np.frombuffer(data, dtype=np.uint8)
            reps["packed"] = ir.PackedTensor(packed, dtype, shape=shape)

        proto = onnx.TensorProto(data_type=int(dtype), dims=list(shape), raw_data=data)
        reps["proto_raw"] = serde.TensorProtoTensor(proto)
        reps["proto_ref"] = serde.TensorProtoTensor(onnx.numpy_helper.from_array(array))
        reps["roundtrip"] = serde.deserialize_tensor(serde.serialize_tensor(t))

        offset = 7 * (checked % 5)
        path = os.path.join(tmpdir, f"w{checked}.bin")
        with open(path, "wb") as f:
            f.write(b"\xaa" * offset)
            t.tofile(f)
            f.write(b"\x55" * 3)
        with open(path, "rb") as f:
            content = f.read()
        assert content == b"\xaa" * offset + data + b"\x55" * 3, (dtype, shape)
        reps["external"] = ir.ExternalTensor(
            os.path.basename(path), offset, nbytes, dtype, shape=ir.Shape(shape), name="w", base_dir=tmpdir
        )
        reps["lazy"] = ir.LazyTensor(lambda t=t: t, dtype, ir.Shape(shape))

        for kind, rep in reps.items():
            assert rep.dtype == dtype, (kind, dtype)
            assert rep.shape.numpy() == tuple(shape), (kind, rep.shape)
            assert rep.size == size and rep.nbytes == nbytes, (kind, dtype, shape)
            same_values(rep.numpy(), array)
            assert rep.tobytes() == data, (kind, dtype, shape)
            buf = io.BytesIO()
            buf.write(b"xy")
            rep.tofile(buf)
            assert buf.getvalue() == b"xy" + data, (kind, dtype, shape)
            with open(os.path.join(tmpdir, "out.bin"), "wb") as f:
                f.write(b"z" * 3)
                rep.tofile(f)
            with open(os.path.join(tmpdir, "out.bin"), "rb") as f:
                assert f.read() == b"zzz" + data, (kind, dtype, shape)
            # ONNX reference decoder on what we serialize
            decoded = onnx.numpy_helper.to_array(serde.serialize_tensor(rep), base_dir=tmpdir)
            same_values(np.asarray(decoded), array)
        reps["external"].release()
        checked += 1

# Unsigned byte-level storage accepted for non-native types; wrong storage rejected.
u4 = ir.Tensor(np.array([1, 15, 7], dtype=np.uint8), dtype=DT.UINT4)
assert u4.numpy().dtype == ml_dtypes.uint4 and u4.tobytes() == bytes([0xF1, 0x07])
bf = ir.Tensor(np.array([0x7F80, 0xFF80, 0x7FC0], dtype=np.uint16), dtype=DT.BFLOAT16)
assert bf.numpy().dtype == ml_dtypes.bfloat16 and np.isinf(bf.numpy()[:2].astype(np.float32)).all()
assert np.isnan(bf.numpy()[2].astype(np.float32))
try:
    ir.Tensor(np.array([1.0], dtype=np.float32), dtype=DT.BFLOAT16)
except TypeError:
    pass
else:
    raise AssertionError
try:
    ir.PackedTensor(np.zeros(2, np.uint8), DT.INT8, shape=[2])
except TypeError:
    pass
else:
    raise AssertionError
expect_type_error(
    lambda: ir.PackedTensor(np.zeros(2, np.uint8), DT.STRING, shape=[2]),
    "Bitwidth not available for ONNX data type: STRING",
)

# string tensors
st = ir.StringTensor([b"a", b"", b"\xff\x00c"], shape=ir.Shape([3]))
assert st.dtype == DT.STRING and st.nbytes == 4 and st.numpy().tolist() == [b"a", b"", b"\xff\x00c"]
sp = serde.serialize_tensor(st)
assert list(sp.string_data) == [b"a", b"", b"\xff\x00c"]
assert serde.deserialize_tensor(sp).numpy().tolist() == [b"a", b"", b"\xff\x00c"]
assert ir.tensor(["x", "yz"]).dtype == DT.STRING

print(f"OK: {checked} dtype x shape combinations checked")
