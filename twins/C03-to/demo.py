"""Round trip IR -> proto -> IR around the connectivity resolution of deserialization.

Exercises: values captured from outer scopes at two nesting levels, shadowing of an outer
name by a subgraph input, unsorted node order, optional (empty) inputs, the same value used
twice by one node, an undeclared input (invalid model, repaired with a warning), a graph
output nobody produces, and a rejected model (output redeclared).
"""

import logging

import numpy as np
import onnx

import onnx_ir as ir
from onnx_ir import serde


def tensor_type(dtype=ir.DataType.FLOAT):
    return ir.TensorType(dtype)


def build_model() -> ir.Model:
    x = ir.Value(name="x", type=tensor_type(), shape=ir.Shape([2, "n"]))
    cond = ir.Value(name="cond", type=tensor_type(ir.DataType.BOOL), shape=ir.Shape([]))
    w = ir.Value(
        name="w",
        type=tensor_type(),
        shape=ir.Shape([2]),
        const_value=ir.tensor(np.array([1.0, 2.0], dtype=np.float32), name="w"),
    )

    # Innermost graph: captures "x" (two levels up), "w" (initializer two levels up) and
    # "mid" (one level up)
    inner_add = ir.Node("", "Add", [x, w], outputs=[ir.Value(name="inner_sum")])
    mid_holder = ir.Value(name="mid")
    inner_mul = ir.Node(
        "", "Mul", [inner_add.outputs[0], mid_holder], outputs=[ir.Value(name="inner_out")]
    )
    inner_graph = ir.Graph(
        [], [inner_mul.outputs[0]], nodes=[inner_add, inner_mul], name="inner"
    )

    # Middle graph: has its own input named "x_shadow", produces "mid", hosts the inner graph
    mid_node = ir.Node("", "Neg", [x], outputs=[mid_holder])
    inner_if = ir.Node(
        "",
        "If",
        [cond],
        [ir.AttrGraph("then_branch", inner_graph), ir.AttrInt64("flag", 1)],
        outputs=[ir.Value(name="mid_out")],
    )
    # Unsorted on purpose: the consumer is placed before the producer of "mid"
    mid_graph = ir.Graph([], [inner_if.outputs[0]], nodes=[inner_if, mid_node], name="middle")

    # Shadowing: a Loop-like body whose input is also called "x"
    body_x = ir.Value(name="x", type=tensor_type(), shape=ir.Shape([3]))
    body_node = ir.Node("", "Identity", [body_x], outputs=[ir.Value(name="body_out")])
    body_graph = ir.Graph([body_x], [body_node.outputs[0]], nodes=[body_node], name="body")

    outer_if = ir.Node(
        "",
        "If",
        [cond],
        [ir.AttrGraph("then_branch", mid_graph), ir.AttrGraphs("others", [body_graph])],
        outputs=[ir.Value(name="y")],
        name="outer_if",
    )
    # Optional input in the middle, same value used twice, empty-named optional output
    clip = ir.Node(
        "",
        "Custom",
        [outer_if.outputs[0], None, outer_if.outputs[0]],
        outputs=[ir.Value(name=""), ir.Value(name="z")],
        num_outputs=None,
        name="custom",
    )
    graph = ir.Graph(
        [x, cond],
        [clip.outputs[1]],
        nodes=[clip, outer_if],  # unsorted
        initializers=[w],
        opset_imports={"": 20},
        name="main",
    )
    return ir.Model(graph, ir_version=10, producer_name="demo")


def describe(graph, depth=0):
    """A structural fingerprint with identity of values resolved to (scope depth, name)."""
    out = [("graph", graph.name, [v.name for v in graph.inputs], [v.name for v in graph.outputs],
            sorted(graph.initializers))]
    for node in graph:
        ins = []
        for v in node.inputs:
            if v is None:
                ins.append(None)
            else:
                owner = v.graph.name if v.graph is not None else None
                producer = v.producer().op_type if v.producer() is not None else None
                ins.append((v.name, owner, producer, str(v.type), str(v.shape)))
        subs = []
        for attr in node.attributes.values():
            if attr.type == ir.AttributeType.GRAPH:
                subs.append((attr.name, describe(attr.value, depth + 1)))
            elif attr.type == ir.AttributeType.GRAPHS:
                subs.append((attr.name, [describe(g, depth + 1) for g in attr.value]))
            else:
                subs.append((attr.name, attr.value))
        out.append((node.name, node.op_type, ins, [o.name for o in node.outputs], subs))
    return out


def main() -> None:
    model = build_model()
    before = describe(model.graph)
    proto1 = serde.serialize_model(model)
    proto2 = serde.serialize_model(model)
    assert proto1 == proto2, "serializing twice must give equal protos"
    assert describe(model.graph) == before, "serialization must not change the IR"

    model2 = serde.deserialize_model(proto1)
    assert describe(model2.graph) == before, "round trip must preserve the model"
    proto3 = serde.serialize_model(model2)
    assert proto3 == proto1

    # Identity of the captured values: the innermost Add reads the *outer* x and w objects
    main_graph = model2.graph
    outer_if = next(n for n in main_graph if n.op_type == "If")
    middle = outer_if.attributes["then_branch"].value
    inner = next(n for n in middle if n.op_type == "If").attributes["then_branch"].value
    add = next(n for n in inner if n.op_type == "Add")
    assert add.inputs[0] is main_graph.inputs[0]
    assert add.inputs[1] is main_graph.initializers["w"]
    mul = next(n for n in inner if n.op_type == "Mul")
    neg = next(n for n in middle if n.op_type == "Neg")
    assert mul.inputs[1] is neg.outputs[0]
    # Shadowing: the body reads its own x, not the outer one
    body = outer_if.attributes["others"].value[0]
    assert body[0].inputs[0] is body.inputs[0] and body.inputs[0] is not main_graph.inputs[0]
    # Duplicate use and optional input
    custom = next(n for n in main_graph if n.op_type == "Custom")
    assert custom.inputs[1] is None and custom.inputs[0] is custom.inputs[2] is outer_if.outputs[0]
    assert [u[1] for u in sorted(outer_if.outputs[0].uses(), key=lambda u: u[1])] == [0, 2]

    # Unusual input 1: an undeclared input inside a subgraph, used twice, plus value info for it
    # and a graph output that no node produces. The model is invalid but is repaired.
    sub = onnx.helper.make_graph(
        [onnx.helper.make_node("Add", ["ghost", "ghost"], ["s"], name="add")],
        "sub",
        [],
        [onnx.helper.make_tensor_value_info("s", onnx.TensorProto.FLOAT, [1])],
        value_info=[onnx.helper.make_tensor_value_info("ghost", onnx.TensorProto.FLOAT, [1])],
    )
    top = onnx.helper.make_graph(
        [
            onnx.helper.make_node("If", ["c"], ["r"], name="if", then_branch=sub),
            onnx.helper.make_node("Relu", ["ghost"], ["q"], name="relu"),
        ],
        "top",
        [onnx.helper.make_tensor_value_info("c", onnx.TensorProto.BOOL, [])],
        [
            onnx.helper.make_tensor_value_info("r", onnx.TensorProto.FLOAT, [1]),
            onnx.helper.make_tensor_value_info("nobody", onnx.TensorProto.FLOAT, [1]),
        ],
    )
    records = []

    class Collect(logging.Handler):
        def emit(self, record):
            records.append((record.levelname, record.getMessage()))

    handler = Collect()
    serde_logger = logging.getLogger("onnx_ir.serde")
    serde_logger.addHandler(handler)
    try:
        g = serde.deserialize_graph(top)
    finally:
        serde_logger.removeHandler(handler)
    warnings = [m for level, m in records if level == "WARNING"]
    assert [m.split(".")[0] for m in warnings] == [
        "Input 'ghost' of node 'add' (::Add:) cannot be found in any scope",
        "Caveat: The value is created in the subgraph",
        "Input 'ghost' of node 'relu' (::Relu:) cannot be found in any scope",
        "Output 'nobody' is not produced by any node",
    ], warnings
    assert "(current depth: 2)" in warnings[0] and "(current depth: 1)" in warnings[2]
    sub_g = g[0].attributes["then_branch"].value
    add_node = sub_g[0]
    # Created once in the subgraph scope, reused for the second use; the outer Relu gets its own
    assert add_node.inputs[0] is add_node.inputs[1]
    assert add_node.inputs[0].type == ir.TensorType(ir.DataType.FLOAT)
    assert add_node.inputs[0].shape == ir.Shape([1])
    assert g[1].inputs[0] is not add_node.inputs[0] and g[1].inputs[0].type is None
    assert g.outputs[1].name == "nobody" and g.outputs[1].producer() is None
    assert g.outputs[0] is g[0].outputs[0]
    # And it round trips from there
    again = serde.deserialize_graph(serde.serialize_graph(g))
    assert serde.serialize_graph(again) == serde.serialize_graph(g)

    # Unusual input 2: a rejected model - an output declared twice in a scope
    bad = onnx.helper.make_graph(
        [
            onnx.helper.make_node("Relu", ["a"], ["b"], name="n1"),
            onnx.helper.make_node("Neg", ["a"], ["b"], name="n2"),
        ],
        "bad",
        [onnx.helper.make_tensor_value_info("a", onnx.TensorProto.FLOAT, [1])],
        [],
    )
    try:
        serde.deserialize_graph(bad)
    except serde.SerdeError as e:
        assert isinstance(e.__cause__, ValueError) and "redeclared" in str(e.__cause__)
        assert str(e).startswith("Error calling _deserialize_graph with: bad")
    else:
        raise AssertionError("expected SerdeError")

    # Unusual input 3: empty graph
    empty = serde.deserialize_graph(onnx.GraphProto())
    assert len(empty) == 0 and not empty.inputs and not empty.outputs
    assert serde.serialize_graph(empty) == onnx.GraphProto()

    # deserialize_node alone: an undeclared input at depth 1, no caveat
    n = serde.deserialize_node(onnx.helper.make_node("Add", ["p", "", "p"], ["o", ""]))
    assert n.inputs[0] is n.inputs[2] and n.inputs[1] is None and n.outputs[1].name == ""
    assert serde.serialize_node(n) == onnx.helper.make_node("Add", ["p", "", "p"], ["o"])
    print("OK")


if __name__ == "__main__":
    main()
