"""C19 demo: removing device configurations (by object / by name, with and
without cascade) never leaves annotations dangling when cascade is requested,
and rejected removals have no effect."""
import dataclasses

import onnx_ir as ir
from onnx_ir import _multi_device, serde


def build():
    x = ir.Value(name="x", shape=ir.Shape([4, 8]), type=ir.TensorType(ir.DataType.FLOAT))
    y = ir.Value(name="y", shape=ir.Shape([4, 8]), type=ir.TensorType(ir.DataType.FLOAT))
    inner_in = ir.Value(name="ci", shape=ir.Shape([2]), type=ir.TensorType(ir.DataType.FLOAT))
    inner = ir.Node("", "Relu", [inner_in], name="inner", num_outputs=1)
    inner.outputs[0].name = "co"
    sub = ir.Graph([inner_in], inner.outputs, nodes=[inner], name="then")
    add = ir.Node("", "Add", [x, y], name="add", num_outputs=1)
    add.outputs[0].name = "z"
    add.outputs[0].shape = ir.Shape([4, 8])
    add.outputs[0].type = ir.TensorType(ir.DataType.FLOAT)
    holder = ir.Node(
        "", "Holder", [add.outputs[0]], attributes=[ir.AttrGraph("body", sub)],
        name="holder", num_outputs=1,
    )
    holder.outputs[0].name = "w"
    graph = ir.Graph([x, y], holder.outputs, nodes=[add, holder], opset_imports={"": 21}, name="g")
    fx = ir.Value(name="fx", shape=ir.Shape([3]), type=ir.TensorType(ir.DataType.FLOAT))
    fnode = ir.Node("", "Neg", [fx], name="fneg", num_outputs=1)
    fnode.outputs[0].name = "fy"
    func = ir.Function(
        "dom", "F", graph=ir.Graph([fx], fnode.outputs, nodes=[fnode], opset_imports={"": 21}),
        attributes=[],
    )
    model = ir.Model(graph, ir_version=11, functions=[func])
    return model, add, holder, inner, fnode


def check_clean(model):
    errors = _multi_device._check_device_configurations(model)
    assert errors == [], errors
    nodes = list(model.graph.all_nodes())
    for f in model.functions.values():
        nodes.extend(f.all_nodes())
    for node in nodes:
        io = list(node.inputs) + list(node.outputs)
        for cfg in node.device_configurations:
            assert any(cfg.configuration is c for c in model.device_configurations)
            for spec in cfg.sharding_specs:
                assert any(spec.value is v for v in io)


def bound(node):
    return [c.configuration for c in node.device_configurations]


# --- 1. removal by object with cascade: only that exact object is matched -------------
model, add, holder, inner, fnode = build()
tp = model.add_device_configuration("tp", device_names=("a", "b"))
pp = model.add_device_configuration("pp", num_devices=4)
add.shard(add.inputs[0], configuration=tp, axis=-1, num_shards=2, device_indices=(0, 1))
add.shard(add.outputs[0], configuration=pp, axis=0, num_shards=4, pipeline_stage=1)
inner.shard(inner.inputs[0], configuration=tp, axis=0, num_shards=2)
fnode.set_pipeline_stage(tp, 0)
holder.set_pipeline_stage(pp, 2)
# an impostor with the same name, and an annotation without configuration
impostor = ir.ModelConfiguration(name="tp", num_devices=2)
holder.device_configurations = (
    *holder.device_configurations,
    ir.NodeDeviceConfiguration(configuration=impostor, pipeline_stage=0),
    ir.NodeDeviceConfiguration(configuration=None, pipeline_stage=5),
)
check_before = _multi_device._check_device_configurations(model)
assert len(check_before) == 2, check_before  # impostor + missing reference

removed = model.remove_device_configuration(tp, cascade=True)
assert removed is tp
assert model.device_configurations == (pp,) and model.device_configurations[0] is pp
assert bound(add) == [pp] and add.sharding_of(add.inputs[0]) == ()
assert inner.device_configurations == () and fnode.device_configurations == ()
# by-object removal keeps the same-named impostor and the None-bound annotation
assert [c is impostor for c in bound(holder)] == [False, True, False]
assert bound(holder)[0] is pp and bound(holder)[2] is None

# --- 2. rejected removals: no effect -------------------------------------------------
snapshot = (model.device_configurations, add.device_configurations, holder.device_configurations)
for bad in (tp, impostor, ir.ModelConfiguration(name="pp", num_devices=4), "tp", "", "PP"):
    try:
        model.remove_device_configuration(bad, cascade=True)
    except ValueError as e:
        msg = str(e)
        assert ("is not registered on the model" in msg) != isinstance(bad, str), msg
        assert ("No device configuration named" in msg) == isinstance(bad, str), msg
    else:
        raise AssertionError(f"removal of {bad!r} should be rejected")
assert snapshot[0] is model.device_configurations
assert snapshot[1] is add.device_configurations
assert snapshot[2] is holder.device_configurations

# --- 3. removal by name with cascade: same-named objects are dropped too -------------
model, add, holder, inner, fnode = build()
tp = model.add_device_configuration("tp", num_devices=2)
pp = model.add_device_configuration("pp", num_devices=4)
impostor = ir.ModelConfiguration(name="tp", num_devices=8)
add.shard(add.inputs[1], configuration=tp, axis=1, num_shards=2)
add.set_pipeline_stage(pp, 3)
inner.device_configurations = (
    ir.NodeDeviceConfiguration(configuration=impostor, pipeline_stage=1),
    ir.NodeDeviceConfiguration(configuration=None),
)
fnode.shard(fnode.outputs[0], configuration=tp, axis=-1, num_shards=2)
pp_only = holder.device_configurations
removed = model.remove_device_configuration("tp", cascade=True)
assert removed is tp and model.device_configurations == (pp,)
assert bound(add) == [pp] and add.device_configurations[0].pipeline_stage == 3
assert bound(inner) == [None]
assert fnode.device_configurations == ()
assert holder.device_configurations is pp_only
inner.device_configurations = ()
check_clean(model)

# --- 4. duplicate names registered by hand: the first one wins, twice in a row -------
model, add, holder, inner, fnode = build()
d1 = ir.ModelConfiguration(name="dup", num_devices=2)
d2 = ir.ModelConfiguration(name="dup", num_devices=3)
model.device_configurations = (d1, d2)
add.device_configurations = (ir.NodeDeviceConfiguration(configuration=d2, pipeline_stage=0),)
assert model.remove_device_configuration("dup") is d1          # no cascade: nodes untouched
assert model.device_configurations == (d2,) and bound(add) == [d2]
check_clean(model)
assert model.remove_device_configuration("dup", cascade=True) is d2
assert model.device_configurations == () and add.device_configurations == ()
try:
    model.remove_device_configuration("dup", cascade=True)
except ValueError:
    pass
else:
    raise AssertionError("empty registry must reject")

# --- 5. non-cascading removal leaves a dangling reference that the checker reports ---
model, add, holder, inner, fnode = build()
tp = model.add_device_configuration("tp", num_devices=2)
add.shard(add.inputs[0], configuration=tp, axis=0, num_shards=2)
before = add.device_configurations
model.remove_device_configuration(tp)
assert add.device_configurations is before
errs = _multi_device._check_device_configurations(model)
assert len(errs) == 1 and "not declared" in errs[0], errs
# re-registering under the same name gives a different object: by-object cascade ignores it
tp2 = model.add_device_configuration("tp", num_devices=2)
model.remove_device_configuration(tp2, cascade=True)
assert add.device_configurations is before
# ... but a by-name cascade cleans the stale reference up
tp3 = model.add_device_configuration("tp", num_devices=2)
assert model.remove_device_configuration("tp", cascade=True) is tp3
assert add.device_configurations == ()
check_clean(model)

# --- 6. interleaving with renames and a round trip at IR version 11 ------------------
model, add, holder, inner, fnode = build()
tp = model.add_device_configuration("tp", num_devices=2)
pp = model.add_device_configuration("pp", num_devices=4)
add.shard(add.inputs[0], configuration=tp, axis=-2, num_shards=2)
add.shard(add.inputs[0], configuration=pp, axis=1, num_shards=4)
inner.shard(inner.outputs[0], configuration=pp, axis=0, num_shards=2)
add.inputs[0].name = "x_renamed"
model.remove_device_configuration("tp", cascade=True)
check_clean(model)
proto = serde.serialize_model(model)
assert [c.name for c in proto.configuration] == ["pp"]
(node_cfg,) = proto.graph.node[0].device_configurations
assert node_cfg.configuration_id == "pp"
assert [s.tensor_name for s in node_cfg.sharding_spec] == ["x_renamed"]
back = serde.deserialize_model(proto)
check_clean(back)
(back_pp,) = back.device_configurations
back_nodes = list(back.graph.all_nodes())
assert sum(len(n.device_configurations) for n in back_nodes) == 2
for n in back_nodes:
    for c in n.device_configurations:
        assert c.configuration is back_pp
assert back.remove_device_configuration(back_pp, cascade=True) is back_pp
assert all(n.device_configurations == () for n in back.graph.all_nodes())
check_clean(back)

print("C19 demo OK")
