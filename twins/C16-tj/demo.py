"""Demo for C16: symbolic dims compute, print and re-parse with integer semantics."""
import itertools
import math
import sys
from fractions import Fraction

import onnx_ir as ir
from onnx_ir._symbolic_shapes import parse_symbolic_expression

failures = []


def check(cond, msg):
    if not cond:
        failures.append(msg)
        print("FAIL:", msg)


def ev(text, **b):
    return ir.SymbolicDim(text).evaluate(b)


# 1. Parser: standard meaning, precedence and associativity (Python int semantics).
CASES = [
    "a - b - c", "a - (b - c)", "a + b * c", "(a + b) * c", "a * b + c",
    "a // b // c", "a // (b // c)", "a // b * c", "a * b // c", "a % b % c",
    "a % b * c", "a * b % c", "a - b % c", "a + b // c - a % c",
    "-a + b", "-(a + b)", "- - a", "a - -b", "a * -b", "-a // b", "-a % b",
    "-a ** 2", "(-a) ** 2", "a ** 2 ** 2", "2 ** 3 ** 2", "a ** 2 * b", "a * b ** 2",
    "a // b % c + a * (b - c) // 2", "((a))", " a+b ", "a-b-c-a-b",
    "a // 2 * 2 + a % 2", "100 - a - b * 2 // c % 7",
]
for text in CASES:
    for a, b, c in itertools.product([1, 2, 3, 7, 12], [1, 2, 5], [1, 3, 4]):
        try:
            expected = eval(text.strip(), {"__builtins__": {}}, {"a": a, "b": b, "c": c})
        except ZeroDivisionError:
            continue  # outside the property: no integer value exists
        got = ev(text, a=a, b=b, c=c)
        check(got == expected and isinstance(got, int),
              f"{text!r} a={a} b={b} c={c}: got {got!r}, expected {expected!r}")

# 2. Functions in the grammar, nested, with several arguments.
for a, b in itertools.product([1, 4, 9], [2, 3, 10]):
    check(ev("max(a, b, 3) - min(a, b)", a=a, b=b) == max(a, b, 3) - min(a, b), "max/min")
    check(ev("floor(a / b) + ceiling(a / b)", a=a, b=b) == a // b + -(-a // b), "floor/ceiling")
    check(ev("mod(a, b) + Mod(a + b, b)", a=a, b=b) == a % b + (a + b) % b, "mod")
    check(ev("max(min(a, b), a - b) * 2", a=a, b=b) == max(min(a, b), a - b) * 2, "nested")
    check(ev("Abs(a - b) * sign(a - b)", a=a, b=b) == a - b, "abs/sign")

# 3. Exact division: / is rational, and an integer result comes back as int.
check(ev("a / 2 * 2", a=7) == 7, "a/2*2")
check(ev("a / b / c", a=24, b=2, c=3) == 4, "a/b/c left assoc")
r = ev("a / b", a=7, b=2)
check(isinstance(r, ir.SymbolicDim) and r.value == "7/2", f"non-integer stays symbolic: {r!r}")

# 4. Operator API vs print -> re-parse round trip, complete and partial bindings.
N, M = ir.SymbolicDim("N"), ir.SymbolicDim("M")
trees = [
    (N + 1) * M - 3, (N - M) // 2, 7 - N * 2, 10 // N, (N * M) % 5, 13 % N,
    -(N - M), math.floor(N / 2), math.ceil(N / 3), math.trunc((N - M) / 2),
    (N // 2) * 2 + N % 2, N / M * M, (N + M) // (M + 1) - N % (M + 2),
]
pyf = [
    lambda n, m: (n + 1) * m - 3, lambda n, m: (n - m) // 2, lambda n, m: 7 - n * 2,
    lambda n, m: 10 // n, lambda n, m: (n * m) % 5, lambda n, m: 13 % n,
    lambda n, m: -(n - m), lambda n, m: math.floor(Fraction(n, 2)),
    lambda n, m: math.ceil(Fraction(n, 3)), lambda n, m: math.trunc(Fraction(n - m, 2)),
    lambda n, m: n, lambda n, m: n, lambda n, m: (n + m) // (m + 1) - n % (m + 2),
]
for dim, f in zip(trees, pyf):
    reparsed = ir.SymbolicDim(dim.value)
    simplified = dim.simplify()
    for n, m in itertools.product([1, 2, 5, 8, 13], [1, 3, 4, 6]):
        want = f(n, m)
        full = {"N": n, "M": m}
        check(dim.evaluate(full) == want, f"{dim.value}: direct {full}")
        check(reparsed.evaluate(full) == want, f"{dim.value}: reparsed {full}")
        check(simplified.evaluate(full) == want, f"{dim.value}: simplified {full}")
        part = dim.evaluate({"N": n})
        later = part.evaluate({"M": m}) if isinstance(part, ir.SymbolicDim) else part
        check(later == want, f"{dim.value}: partial then rest {full}: {later!r} != {want!r}")
        if isinstance(part, ir.SymbolicDim):
            again = ir.SymbolicDim(part.value).evaluate({"M": m})
            check(again == want, f"{dim.value}: residual {part.value!r} re-parsed {full}")

# 5. Unusual inputs: rejected strings, empty input, dotted names, duplicates, unknown dim.
BAD = ["", "   ", "a +", "a + * b", "(a + b", "a + b)", "a b", "a $ b", "foo(a)",
       "max(a,", "max(a,,b)", "a ** ", "* a", "a // ", "2 3", "a,b", "()", "a - ", "%"]
for text in BAD:
    try:
        out = parse_symbolic_expression(text)
    except ValueError:
        pass
    except Exception as e:  # noqa: BLE001
        check(False, f"{text!r}: wrong exception type {type(e).__name__}: {e}")
    else:
        check(False, f"{text!r}: accepted as {out!r}")
try:
    ir.SymbolicDim("a + * b").evaluate({"a": 1})
    check(False, "bad string evaluated")
except ValueError:
    pass
try:
    ir.SymbolicDim(3)
    check(False, "int accepted")
except TypeError:
    pass
check(ev("x.1_dim_0 * 2 - x.1_dim_0", **{"x.1_dim_0": 5}) == 5, "dotted name, duplicate symbol")
check(ev("a - a + a // a", a=9) == 1, "duplicates")
check(ev("a + b", a=1, b=2, unused=99) == 3, "extra binding ignored")
empty = ir.SymbolicDim("a * 2 + b").evaluate({})
check(isinstance(empty, ir.SymbolicDim) and empty.evaluate({"a": 3, "b": 1}) == 7, "empty binding")
unk = ir.SymbolicDim(None)
check((unk + 1).value is None and (N * unk).value is None and unk.evaluate({"N": 1}).value is None,
      "unknown dim propagates")
check(ir.SymbolicDim("N").evaluate({"N": 4}) == 4, "plain identifier fast path")
shape = ir.Shape([N + 1, "N // 2", 3, None])
got = shape.evaluate({"N": 9})
check(list(got)[:3] == [10, 4, 3], f"Shape.evaluate: {got}")

if failures:
    print(f"{len(failures)} failure(s)")
    sys.exit(1)
print("OK")
