"""Demo for C05: AddDefaultAttributesPass preserves what the model computes."""
import numpy as np
import onnx
import onnx.reference
from onnx import TensorProto, helper

import onnx_ir as ir
from onnx_ir.passes.common import AddDefaultAttributesPass, CheckerPass


def build_model() -> onnx.ModelProto:
    # Subgraphs of an If node; both capture the outer value "g" and use default attributes
    then_g = helper.make_graph(
        [helper.make_node("LeakyRelu", ["g"], ["t_out"])],  # alpha default 0.01
        "then_g", [], [helper.make_tensor_value_info("t_out", TensorProto.FLOAT, [2, 3])],
    )
    else_g = helper.make_graph(
        [helper.make_node("Elu", ["g"], ["e_out"], alpha=2.0)],  # explicit, non-default
        "else_g", [], [helper.make_tensor_value_info("e_out", TensorProto.FLOAT, [2, 3])],
    )
    # A model-local function whose body node relies on a default (Selu alpha/gamma)
    fn = helper.make_function(
        "local", "F", ["x"], ["y"],
        [helper.make_node("Selu", ["x"], ["y"])],
        opset_imports=[helper.make_opsetid("", 18)],
    )
    nodes = [
        helper.make_node("Gemm", ["a", "b", "c"], ["g"]),  # alpha, beta, transA, transB defaults
        helper.make_node("If", ["cond"], ["r"], then_branch=then_g, else_branch=else_g),
        helper.make_node("F", ["r"], ["f"], domain="local"),
        # explicit non-default value that must be kept
        helper.make_node("Softmax", ["f"], ["s"], axis=0),
        helper.make_node("Softmax", ["f"], ["s2"]),  # axis default -1
        helper.make_node("Add", ["s", "s2"], ["out0"]),
        helper.make_node("Identity", ["a"], ["out1"]),
    ]
    graph = helper.make_graph(
        nodes, "main",
        [
            helper.make_tensor_value_info("a", TensorProto.FLOAT, [2, 4]),
            helper.make_tensor_value_info("cond", TensorProto.BOOL, []),
        ],
        [
            helper.make_tensor_value_info("out0", TensorProto.FLOAT, [2, 3]),
            helper.make_tensor_value_info("out1", TensorProto.FLOAT, [2, 4]),
        ],
        initializer=[
            helper.make_tensor("b", TensorProto.FLOAT, [4, 3], np.arange(12, dtype=np.float32) / 7 - 0.5),
            helper.make_tensor("c", TensorProto.FLOAT, [3], [0.5, -1.0, 0.25]),
        ],
    )
    model = helper.make_model(
        graph, functions=[fn],
        opset_imports=[helper.make_opsetid("", 18), helper.make_opsetid("local", 1)],
        ir_version=9,
    )
    onnx.checker.check_model(model, full_check=True)
    return model


def run(proto: onnx.ModelProto, feeds):
    return onnx.reference.ReferenceEvaluator(proto).run(None, feeds)


def main() -> None:
    proto = build_model()
    model = ir.serde.deserialize_model(proto)
    n_in, n_out = len(model.graph.inputs), len(model.graph.outputs)
    in_names = [v.name for v in model.graph.inputs]
    out_names = [v.name for v in model.graph.outputs]

    result = AddDefaultAttributesPass()(model)
    assert result.modified is True
    assert result.model is model  # in place
    CheckerPass(full_check=True)(model)

    assert [v.name for v in model.graph.inputs] == in_names and len(model.graph.inputs) == n_in
    assert [v.name for v in model.graph.outputs] == out_names and len(model.graph.outputs) == n_out

    by_out = {n.outputs[0].name: n for n in ir.traversal.RecursiveGraphIterator(model.graph)}
    gemm = by_out["g"]
    assert gemm.attributes["alpha"].value == 1.0 and gemm.attributes["beta"].value == 1.0
    assert gemm.attributes["transA"].value == 0 and gemm.attributes["transB"].value == 0
    assert abs(by_out["t_out"].attributes["alpha"].value - 0.01) < 1e-7  # node in a subgraph
    assert by_out["e_out"].attributes["alpha"].value == 2.0  # explicit value untouched
    assert by_out["s"].attributes["axis"].value == 0  # explicit value untouched
    assert by_out["s2"].attributes["axis"].value == -1
    assert set(by_out["r"].attributes) == {"then_branch", "else_branch"}
    assert not by_out["f"].attributes  # call of a model-local function: no schema, skipped
    (func,) = model.functions.values()
    selu = func[0]
    assert set(selu.attributes) == {"alpha", "gamma"}  # node inside a function body

    after = ir.serde.serialize_model(model)
    rng = np.random.default_rng(0)
    for cond in (True, False):
        for _ in range(3):
            feeds = {"a": rng.standard_normal((2, 4)).astype(np.float32), "cond": np.array(cond)}
            before_out, after_out = run(proto, feeds), run(after, feeds)
            assert len(before_out) == len(after_out) == 2
            for x, y in zip(before_out, after_out):
                np.testing.assert_array_equal(x, y)

    # Idempotent: a second run finds nothing to add
    assert AddDefaultAttributesPass()(model).modified is False

    # Unusual inputs -------------------------------------------------------
    # (1) empty graph, no functions
    empty = ir.Model(ir.Graph([], [], nodes=[], opset_imports={"": 18}), ir_version=9)
    assert AddDefaultAttributesPass()(empty).modified is False

    # (2) domain without opset import, unknown op type, explicit node version, and
    #     a node whose own version overrides the graph's opset import
    x = ir.Value(name="x", type=ir.TensorType(ir.DataType.FLOAT), shape=ir.Shape([2]))
    no_import = ir.Node("unknown.domain", "Foo", [x], num_outputs=1)
    unknown_op = ir.Node("", "NoSuchOperator", [x], num_outputs=1)
    versioned = ir.Node("", "Softmax", [x], num_outputs=1, version=11)  # axis default 1 in opset 11
    plain = ir.Node("", "Softmax", [x], num_outputs=1)  # axis default -1 in opset 18
    only_required = ir.Node("", "Cast", [x], num_outputs=1, attributes=[ir.AttrInt64("to", 1)])
    g = ir.Graph(
        [x], [plain.outputs[0]],
        nodes=[no_import, unknown_op, versioned, plain, only_required],
        opset_imports={"": 18},
    )
    m = ir.Model(g, ir_version=9)
    assert AddDefaultAttributesPass()(m).modified is True
    assert not no_import.attributes and not unknown_op.attributes
    assert versioned.attributes["axis"].value == 1
    assert plain.attributes["axis"].value == -1
    assert "to" in only_required.attributes and only_required.attributes["to"].value == 1
    assert len(m.graph.inputs) == 1 and len(m.graph.outputs) == 1

    # (3) a model where nothing has a schema: not modified, nodes skipped
    g2 = ir.Graph([x2 := ir.Value(name="x2")], [], nodes=[ir.Node("nowhere", "Bar", [x2])],
                  opset_imports={})
    assert AddDefaultAttributesPass()(ir.Model(g2, ir_version=9)).modified is False

    # (4) the pass composes with others in a sequence
    model2 = ir.serde.deserialize_model(proto)
    seq = ir.passes.Sequential(
        AddDefaultAttributesPass(),
        ir.passes.common.TopologicalSortPass(),
        AddDefaultAttributesPass(),
    )
    res = seq(model2)
    assert res.modified is True
    after2 = ir.serde.serialize_model(res.model)
    onnx.checker.check_model(after2, full_check=True)
    feeds = {"a": np.ones((2, 4), dtype=np.float32), "cond": np.array(True)}
    for u, v in zip(run(proto, feeds), run(after2, feeds)):
        np.testing.assert_array_equal(u, v)

    print("demo OK")


if __name__ == "__main__":
    main()
