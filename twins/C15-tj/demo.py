"""Demo for C15: generated names never collide; name fixing yields unique names only."""
import onnx_ir as ir
from onnx_ir.passes.common.naming import NameFixPass


def check(cond, msg):
    if not cond:
        raise SystemExit(f"FAIL: {msg}")


def all_graphs(graph):
    yield graph
    for node in graph:
        for attr in node.attributes.values():
            if attr.type == ir.AttributeType.GRAPH:
                yield from all_graphs(attr.value)
            elif attr.type == ir.AttributeType.GRAPHS:
                for g in attr.value:
                    yield from all_graphs(g)


def check_fixed(graph, outer=frozenset()):
    """Every name non-empty, unique per graph, distinct from the enclosing scopes."""
    values = []
    seen = set()

    def add(v):
        if v is not None and id(v) not in seen and (v.graph is graph or v.producer() is None):
            seen.add(id(v))
            values.append(v)

    own = []
    for v in list(graph.inputs) + list(graph.initializers.values()):
        add(v)
    for node in graph:
        for v in node.outputs:
            add(v)
    own = [v for v in values]
    names = [v.name for v in own]
    check(all(names), f"empty value name in {graph.name}: {names}")
    check(len(set(names)) == len(names), f"duplicate value names in {graph.name}: {names}")
    check(not (set(names) & outer), f"shadowing in {graph.name}: {set(names) & outer}")
    node_names = [n.name for n in graph]
    check(all(node_names), "empty node name")
    check(len(set(node_names)) == len(node_names), f"dup node names {node_names}")
    for key, v in graph.initializers.items():
        check(key == v.name, f"initializer keyed {key!r} but named {v.name!r}")
    for node in graph:
        for attr in node.attributes.values():
            if attr.type == ir.AttributeType.GRAPH:
                check_fixed(attr.value, outer | set(names))


# ---- 1. name authority: add / remove / re-add with generated-looking explicit names
x = ir.Value(name="val_0")  # shaped like a generated name
g = ir.Graph([x], [], nodes=[], name="g")
issued = {"val_0"}
issued_nodes = set()
n_explicit = ir.Node("", "Relu", [x], name="node_Relu_0", outputs=[ir.Value(name="val_1")])
g.append(n_explicit)
check(n_explicit.name == "node_Relu_0" and n_explicit.outputs[0].name == "val_1", "explicit altered")
issued.add("val_1")
issued_nodes.add("node_Relu_0")
history = []
for i in range(6):
    n = ir.Node("", "Relu", [x])
    g.append(n)
    check(n.name not in issued_nodes, f"node name {n.name} reissued")
    check(n.outputs[0].name not in issued, f"value name {n.outputs[0].name} reissued")
    issued_nodes.add(n.name)
    issued.add(n.outputs[0].name)
    history.append(n)
    if i % 2:
        g.remove(n)
        g.append(n)  # re-add: keeps its name
        check(n.name in issued_nodes, "re-added node renamed")
# a node that belongs to another graph is rejected, and nothing is named
other = ir.Graph([], [], nodes=[], name="other")
foreign = ir.Node("", "Relu", [x])
other.append(foreign)
before = (foreign.name, foreign.outputs[0].name)
try:
    g.append(foreign)
except ValueError:
    pass
else:
    check(False, "adding a node of another graph must raise ValueError")
check((foreign.name, foreign.outputs[0].name) == before, "rejected add changed names")

# ---- 2. name fixing: missing + duplicated names across nested scopes and a function
a = ir.Value(name="dup", shape=ir.Shape([1]), type=ir.TensorType(ir.DataType.FLOAT))
b = ir.Value(name="dup")  # duplicated input name
init = ir.Value(name="dup", const_value=ir.tensor([1.0], name="dup"))  # initializer with dup name
init2 = ir.Value(name="w", const_value=ir.tensor([2.0], name="w"))

inner_in = ir.Value(name="dup")  # shadows outer
inner_node = ir.Node("", "Add", [inner_in, a], name="n")
inner_node.outputs[0].name = None
inner_node2 = ir.Node("", "Add", [inner_node.outputs[0], init2], name="n")  # dup node name
inner_node2.outputs[0].name = "w"  # collides with outer initializer
inner = ir.Graph([inner_in], [inner_node2.outputs[0]], nodes=[inner_node, inner_node2], name="inner")
empty_sub = ir.Graph([], [], nodes=[], name="empty")  # empty nested graph

n1 = ir.Node("", "Add", [a, b], name="n")
n1.outputs[0].name = ""
n2 = ir.Node("", "If", [n1.outputs[0]], attributes=[ir.AttrGraph("then_branch", inner),
                                                     ir.AttrGraph("else_branch", empty_sub)])
n2.name = None
n2.outputs[0].name = "keep_me"
n3 = ir.Node("", "Mul", [n2.outputs[0], init], name="n")
n3.outputs[0].name = "dup"
main = ir.Graph([a, b], [n3.outputs[0]], nodes=[n1, n2, n3], initializers=[init, init2], name="main")

fa = ir.Value(name="dup")
fn = ir.Node("", "Relu", [fa])
fn.name = None
fn.outputs[0].name = None
func = ir.Function("dom", "F", "", graph=ir.Graph([fa], [fn.outputs[0]], nodes=[fn], name="fg"),
                   attributes=[])
model = ir.Model(main, ir_version=10, functions=[func])

structure_before = [(n.op_type, len(n.inputs), len(n.outputs)) for n in ir.traversal.RecursiveGraphIterator(main)]
init_ids_before = {id(v) for v in main.initializers.values()}
result = NameFixPass()(model)
check(result.modified, "pass should report modification")
check_fixed(main)
check(n2.outputs[0].name == "keep_me", "unique name not kept")
check(init2.name == "w", "unique initializer name not kept")
check(a.name == "dup", "first holder of a name keeps it")
check(func[0].name and func[0].outputs[0].name and func[0].outputs[0].name != fa.name, "function names")
check(fa.name == "dup", "function input name kept (function is its own scope)")
structure_after = [(n.op_type, len(n.inputs), len(n.outputs)) for n in ir.traversal.RecursiveGraphIterator(main)]
check(structure_before == structure_after, "structure changed")
check({id(v) for v in main.initializers.values()} == init_ids_before, "initializer set changed")
# idempotent: a second run changes nothing
names_after = [(n.name, [o.name for o in n.outputs]) for n in ir.traversal.RecursiveGraphIterator(main)]
result2 = NameFixPass()(model)
check(not result2.modified, "second run should be a no-op")
check(names_after == [(n.name, [o.name for o in n.outputs]) for n in ir.traversal.RecursiveGraphIterator(main)],
      "second run changed names")

# empty graph: no-op
empty_model = ir.Model(ir.Graph([], [], nodes=[], name="e"), ir_version=10)
check(not NameFixPass()(empty_model).modified, "empty model modified")

# ---- 3. bulk rename: swap with initializers; rejected call leaves everything alone
n_init, n_w = init.name, init2.name
ir.convenience.rename_values([init, init2], [n_w, n_init])
check(init.name == n_w and init2.name == n_init, "swap not applied")
check(main.initializers[n_w] is init and main.initializers[n_init] is init2, "swap keys wrong")
snapshot = {k: id(v) for k, v in main.initializers.items()}
try:
    ir.convenience.rename_values([a, init], ["fresh", init2.name])  # collides with outside initializer
except ValueError:
    pass
else:
    check(False, "colliding rename must raise")
check(a.name == "dup" and {k: id(v) for k, v in main.initializers.items()} == snapshot,
      "rejected rename was partially applied")
print("OK")
