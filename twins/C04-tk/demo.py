"""Demo for C04: proto-backed tensors agree with array-backed tensors and the ONNX reference.

Exercises onnx_ir.serde.TensorProtoTensor.numpy()/tobytes()/tofile() through the
raw_data and int32_data storage fields for sub-byte, 8-bit, 16-bit and 32-bit types.
"""
import io
import math
import os
import tempfile

import ml_dtypes
import numpy as np
import onnx
import onnx.numpy_helper

import onnx_ir as ir
from onnx_ir import serde



def same(a: np.ndarray, b: np.ndarray) -> bool:
    """Bit-exact comparison (NaN safe)."""
    if a.dtype != b.dtype or a.shape != b.shape:
        return False
    return a.tobytes() == b.tobytes()


def pack_ref(values_u8: np.ndarray, bits: int) -> bytes:
    """Independent little-endian packing of low `bits` bits of each element."""
    per = 8 // bits
    flat = [int(v) & ((1 << bits) - 1) for v in values_u8.ravel()]
    out = bytearray(math.ceil(len(flat) / per))
    for i, v in enumerate(flat):
        out[i // per] |= v << (bits * (i % per))
    return bytes(out)


SHAPES = [(), (0,), (1,), (3,), (5,), (7,), (2, 3), (3, 0, 2), (1, 1, 1, 1, 1, 3), (3, 3, 3)]
SUB_BYTE = {
    ir.DataType.INT4: (ml_dtypes.int4, 4),
    ir.DataType.UINT4: (ml_dtypes.uint4, 4),
    ir.DataType.FLOAT4E2M1: (ml_dtypes.float4_e2m1fn, 4),
    ir.DataType.INT2: (ml_dtypes.int2, 2),
    ir.DataType.UINT2: (ml_dtypes.uint2, 2),
}
BYTE_TYPES = {
    ir.DataType.FLOAT8E4M3FN: (ml_dtypes.float8_e4m3fn, np.uint8),
    ir.DataType.FLOAT8E4M3FNUZ: (ml_dtypes.float8_e4m3fnuz, np.uint8),
    ir.DataType.FLOAT8E5M2: (ml_dtypes.float8_e5m2, np.uint8),
    ir.DataType.FLOAT8E5M2FNUZ: (ml_dtypes.float8_e5m2fnuz, np.uint8),
    ir.DataType.FLOAT8E8M0: (ml_dtypes.float8_e8m0fnu, np.uint8),
    ir.DataType.INT8: (np.int8, np.uint8),
    ir.DataType.UINT8: (np.uint8, np.uint8),
    ir.DataType.BOOL: (np.bool_, np.uint8),
    ir.DataType.BFLOAT16: (ml_dtypes.bfloat16, np.uint16),
    ir.DataType.FLOAT16: (np.float16, np.uint16),
    ir.DataType.INT16: (np.int16, np.uint16),
    ir.DataType.UINT16: (np.uint16, np.uint16),
}

rng = np.random.default_rng(4)
checked = 0


def check_all_outputs(t: ir.TensorProtocol, dtype, shape, values: np.ndarray, data: bytes):
    """All observers of tensor `t` agree with the expected values and bytes."""
    global checked
    assert t.dtype == dtype, (t.dtype, dtype)
    assert tuple(t.shape.numpy()) == tuple(shape), (t.shape, shape)
    n = int(np.prod(shape, dtype=np.int64))
    assert t.size == n
    assert t.nbytes == math.ceil(n * dtype.bitwidth / 8) == len(data), (t.nbytes, len(data))
    got = t.numpy()
    assert same(np.asarray(got), values), (dtype, shape, got, values)
    assert same(np.asarray(t.__array__()), values)
    assert t.tobytes() == data, (dtype, shape, t.tobytes(), data)
    buf = io.BytesIO()
    buf.write(b"xy")
    t.tofile(buf)
    assert buf.getvalue() == b"xy" + data
    with tempfile.TemporaryFile() as f:
        f.write(b"abc")
        t.tofile(f)
        f.write(b"Z")
        f.seek(0)
        assert f.read() == b"abc" + data + b"Z"
    checked += 1


for dtype, (np_type, bits) in SUB_BYTE.items():
    per = 8 // bits
    for shape in SHAPES:
        n = int(np.prod(shape, dtype=np.int64))
        # every bit pattern, including extremes (-8/7, -2/1, +-6.0, -0.0)
        unpacked_u8 = (np.arange(n, dtype=np.uint8) * 7 + 5) % (1 << bits)
        unpacked_u8 = unpacked_u8.astype(np.uint8).reshape(shape)
        values = unpacked_u8.view(np_type) if n else np.zeros(shape, dtype=np_type)
        if dtype in (ir.DataType.INT4, ir.DataType.INT2) and n:
            # sign-extend so that the ml_dtypes view holds canonical values
            signed = unpacked_u8.astype(np.int16)
            signed = np.where(signed >= (1 << (bits - 1)), signed - (1 << bits), signed)
            values = signed.astype(np.int8).astype(np_type)
        data = pack_ref(values.view(np.uint8) if n else unpacked_u8, bits)

        # array-backed
        t_array = ir.Tensor(values, dtype=dtype)
        check_all_outputs(t_array, dtype, shape, values, data)

        # proto-backed through raw_data
        p_raw = onnx.TensorProto(data_type=int(dtype), dims=list(shape), raw_data=data)
        t_raw = serde.TensorProtoTensor(p_raw)
        check_all_outputs(t_raw, dtype, shape, values, data)

        # proto-backed through int32_data (one packed byte per int32 entry)
        p_i32 = onnx.TensorProto(data_type=int(dtype), dims=list(shape))
        p_i32.int32_data.extend(list(data))
        t_i32 = serde.TensorProtoTensor(p_i32)
        check_all_outputs(t_i32, dtype, shape, values, data)

        # packed representation
        t_packed = ir.PackedTensor(np.frombuffer(data, dtype=np.uint8), dtype, shape=shape)
        check_all_outputs(t_packed, dtype, shape, values, data)

        # lazy wrapper around the proto-backed tensor
        t_lazy = ir.LazyTensor(lambda t=t_i32: t, dtype=dtype, shape=ir.Shape(shape))
        check_all_outputs(t_lazy, dtype, shape, values, data)

        # serializing the array-backed tensor round-trips through raw_data
        p_ser = serde.serialize_tensor(t_array)
        assert p_ser.raw_data == data and list(p_ser.dims) == list(shape)
        # the ONNX reference decoder agrees
        ref = onnx.numpy_helper.to_array(p_raw)
        assert same(np.asarray(ref).view(np.uint8), np.asarray(values).view(np.uint8)), (
            dtype,
            shape,
        )
        ref_i32 = onnx.numpy_helper.to_array(p_i32)
        assert same(np.asarray(ref_i32).view(np.uint8), np.asarray(values).view(np.uint8))

for dtype, (np_type, bits_type) in BYTE_TYPES.items():
    for shape in SHAPES:
        n = int(np.prod(shape, dtype=np.int64))
        if dtype == ir.DataType.BOOL:
            bits_arr = (rng.integers(0, 2, size=n)).astype(np.uint8)
        else:
            hi = np.iinfo(bits_type).max
            bits_arr = rng.integers(0, hi + 1, size=n).astype(bits_type)
            # extreme and non-finite bit patterns
            specials = np.array([0, hi, hi // 2, hi // 2 + 1, hi - 1, 1], dtype=bits_type)
            bits_arr[: min(n, specials.size)] = specials[: min(n, specials.size)]
        values = bits_arr.reshape(shape).view(np_type)
        data = bits_arr.astype(np.dtype(bits_type).newbyteorder("<")).tobytes()

        check_all_outputs(ir.Tensor(values, dtype=dtype), dtype, shape, values, data)
        p_raw = onnx.TensorProto(data_type=int(dtype), dims=list(shape), raw_data=data)
        check_all_outputs(serde.TensorProtoTensor(p_raw), dtype, shape, values, data)
        p_i32 = onnx.TensorProto(data_type=int(dtype), dims=list(shape))
        p_i32.int32_data.extend(int(v) for v in bits_arr)
        check_all_outputs(serde.TensorProtoTensor(p_i32), dtype, shape, values, data)

# INT32 through int32_data, including extreme values
for shape in SHAPES:
    n = int(np.prod(shape, dtype=np.int64))
    vals = rng.integers(-(2**31), 2**31, size=n, dtype=np.int64).astype(np.int32)
    vals[: min(n, 2)] = np.array([-(2**31), 2**31 - 1], dtype=np.int32)[: min(n, 2)]
    vals = vals.reshape(shape)
    data = vals.astype("<i4").tobytes()
    p = onnx.TensorProto(data_type=int(ir.DataType.INT32), dims=list(shape))
    p.int32_data.extend(int(v) for v in vals.ravel())
    check_all_outputs(serde.TensorProtoTensor(p), ir.DataType.INT32, shape, vals, data)
    assert same(onnx.numpy_helper.to_array(p), vals)

# ---- unusual inputs -------------------------------------------------------

# (a) rejected: UNDEFINED / external / string tensors
p = onnx.TensorProto(data_type=0, dims=[1], raw_data=b"\x00")
for call in (serde.TensorProtoTensor(p).numpy, serde.TensorProtoTensor(p).tobytes):
    try:
        call()
    except ValueError:
        pass
    else:
        raise AssertionError("UNDEFINED must be rejected")

p = onnx.TensorProto(data_type=int(ir.DataType.INT4), dims=[3], raw_data=b"\x21\x03")
p.data_location = onnx.TensorProto.EXTERNAL
for call in (serde.TensorProtoTensor(p).numpy, serde.TensorProtoTensor(p).tobytes):
    try:
        call()
    except ValueError:
        pass
    else:
        raise AssertionError("EXTERNAL must be rejected")

p = onnx.TensorProto(data_type=int(ir.DataType.STRING), dims=[2])
p.string_data.extend([b"a", b"bc"])
ts = serde.TensorProtoTensor(p)
assert ts.numpy().tolist() == [b"a", b"bc"]
try:
    ts.tobytes()
except ValueError:
    pass
else:
    raise AssertionError("string tobytes must be rejected")
# STRING with raw_data set: bitwidth is unavailable -> TypeError from numpy()
p = onnx.TensorProto(data_type=int(ir.DataType.STRING), dims=[1], raw_data=b"a")
try:
    serde.TensorProtoTensor(p).numpy()
except TypeError as e:
    assert "Bitwidth not available" in str(e), e
else:
    raise AssertionError("string with raw_data must raise TypeError")

# (b) a packed buffer whose length does not match the declared dims: tobytes() returns
# exactly what is stored and nbytes is still computed from the declared dims
for field in ("raw_data", "int32_data"):
    for dtype, dims, payload in (
        (ir.DataType.INT4, [5], b"\x21"),
        (ir.DataType.UINT2, [9], b"\x1b"),
    ):
        p = onnx.TensorProto(data_type=int(dtype), dims=dims)
        if field == "raw_data":
            p.raw_data = payload
        else:
            p.int32_data.extend(list(payload))
        t = serde.TensorProtoTensor(p)
        assert t.tobytes() == payload
        assert t.nbytes == math.ceil(dims[0] * dtype.bitwidth / 8)
        assert t.dtype == dtype and tuple(t.shape.numpy()) == tuple(dims)

# (c) surplus padding nibble/crumbs are dropped; exactly one extra 4-bit element is tolerated
p = onnx.TensorProto(data_type=int(ir.DataType.UINT4), dims=[3], raw_data=b"\x21\xf3")
assert serde.TensorProtoTensor(p).numpy().astype(np.uint8).tolist() == [1, 2, 3]
p = onnx.TensorProto(data_type=int(ir.DataType.UINT2), dims=[5], raw_data=b"\xe4\xfd")
assert serde.TensorProtoTensor(p).numpy().astype(np.uint8).tolist() == [0, 1, 2, 3, 1]
p = onnx.TensorProto(data_type=int(ir.DataType.INT4), dims=[1])
p.int32_data.extend([0xF8])  # -8 in the low nibble, garbage high nibble
assert serde.TensorProtoTensor(p).numpy().astype(np.int8).tolist() == [-8]

# (d) duplicates: the same proto wrapped twice, repeated reads are stable
p = onnx.TensorProto(data_type=int(ir.DataType.FLOAT4E2M1), dims=[2, 2], raw_data=b"\x7f\x80")
a, b = serde.TensorProtoTensor(p), serde.TensorProtoTensor(p)
assert same(a.numpy(), b.numpy()) and same(a.numpy(), a.numpy())
assert a.numpy().astype(np.float32).tolist() == [[-6.0, 6.0], [0.0, -0.0]]
assert a.tobytes() == b.tobytes() == b"\x7f\x80"

# (e) empty proto (no field set) of a sub-byte type
p = onnx.TensorProto(data_type=int(ir.DataType.INT2), dims=[0, 4])
t = serde.TensorProtoTensor(p)
assert t.numpy().shape == (0, 4) and t.numpy().dtype == ml_dtypes.int2 and t.tobytes() == b""

# (f) element-type tables are mutually consistent
for dt in ir.DataType:
    if dt in (ir.DataType.UNDEFINED, ir.DataType.STRING):
        continue
    assert ir.DataType.from_short_name(dt.short_name()) == dt
    assert ir.DataType.from_numpy(dt.numpy()) == dt
    assert dt.itemsize == dt.bitwidth / 8 or dt.bitwidth < 8
    if dt.bitwidth >= 8:
        assert np.dtype(dt.numpy()).itemsize * 8 == dt.bitwidth

print(f"OK: {checked} tensor representations checked; imported from {ir.__file__}")
