"""Demo for C16: forward binary operators of SymbolicDim (+, -, *, //, %).

Exercises the operators with symbolic and int right operands, on either side,
checks evaluation against exact integer arithmetic, the round trip through the
textual form, partial bindings, unknown dimensions, rejected operand types and
a left operand whose text does not parse.
"""

from __future__ import annotations

import itertools
import math
import operator

import onnx_ir as ir

OPS = {
    "+": (operator.add, operator.add),
    "-": (operator.sub, operator.sub),
    "*": (operator.mul, operator.mul),
    "//": (operator.floordiv, operator.floordiv),
    "%": (operator.mod, operator.mod),
}


def reparse(dim: ir.SymbolicDim) -> ir.SymbolicDim:
    assert isinstance(dim.value, str)
    return ir.SymbolicDim(dim.value)


def check(dim, expected_fn, names=("a", "b")) -> None:
    for values in itertools.product((1, 2, 3, 7, 12), repeat=len(names)):
        env = dict(zip(names, values))
        want = expected_fn(**env)
        got = dim.evaluate(env)
        assert type(got) is int and got == want, (dim, env, got, want)
        got2 = reparse(dim).evaluate(env)
        assert type(got2) is int and got2 == want, (dim, env, got2, want)
        simp = dim.simplify().evaluate(env)
        assert simp == want, (dim, env, simp, want)
        # partial binding, then the rest
        first = names[0]
        partial = dim.evaluate({first: env[first]})
        if isinstance(partial, ir.SymbolicDim):
            assert partial.evaluate(env) == want, (dim, env, partial)
            assert reparse(partial).evaluate(env) == want, (dim, env, partial)
        else:
            assert partial == want


def main() -> None:
    a, b = ir.SymbolicDim("a"), ir.SymbolicDim("b")

    # symbolic (op) symbolic, symbolic (op) int, int (op) symbolic
    for sym, (fn, _) in OPS.items():
        check(fn(a, b), lambda a, b, fn=fn: fn(a, b))
        for k in (1, 2, 5, -3):
            check(fn(a, k), lambda a, b, fn=fn, k=k: fn(a, k))
            check(fn(k, a), lambda a, b, fn=fn, k=k: fn(k, a))
        # same operand twice (aliasing)
        check(fn(a, a), lambda a, b, fn=fn: fn(a, a))

    # nesting, mixed operators, precedence survives the textual form
    nested = ((a + 3) * b - a // 2) % (b + 5) + (a * b) // (a + 1) - (7 - b) % 4
    check(nested, lambda a, b: ((a + 3) * b - a // 2) % (b + 5) + (a * b) // (a + 1) - (7 - b) % 4)
    nested2 = (a - b) // 3 * 3 + (a - b) % 3
    check(nested2, lambda a, b: a - b)
    nested3 = math.floor((a * 5 - b) // 2) + (-(a % b)) * 2
    check(nested3, lambda a, b: (a * 5 - b) // 2 + (-(a % b)) * 2)

    # a left operand built from text (lazily parsed) behaves the same
    text_left = ir.SymbolicDim("a*2 + b") // 3
    check(text_left, lambda a, b: (a * 2 + b) // 3)
    text_right = a % ir.SymbolicDim("b + 1")
    check(text_right, lambda a, b: a % (b + 1))

    # bool passes the int check but sympy refuses it: TypeError for every operator
    for sym, (fn, _) in OPS.items():
        try:
            fn(a, True)
        except TypeError:
            pass
        else:
            raise AssertionError(f"{sym} accepted a bool")

    # unknown dimension on either side gives an unknown dimension
    unknown = ir.SymbolicDim(None)
    for sym, (fn, _) in OPS.items():
        for res in (fn(unknown, a), fn(a, unknown), fn(unknown, 3), fn(unknown, unknown)):
            assert isinstance(res, ir.SymbolicDim) and res.value is None, (sym, res)
        # unknown wins even over an operand type that is otherwise rejected
        res = fn(unknown, "text")
        assert isinstance(res, ir.SymbolicDim) and res.value is None

    # rejected operand types: NotImplemented from the dunder, TypeError from the operator
    for name in ("__add__", "__sub__", "__mul__", "__floordiv__", "__mod__"):
        for bad in ("b", 1.5, None, [1], object()):
            assert getattr(a, name)(bad) is NotImplemented, (name, bad)
    for sym, (fn, _) in OPS.items():
        for bad in (1.5, [1], object()):
            try:
                fn(a, bad)
            except TypeError:
                pass
            else:
                raise AssertionError(f"{sym} accepted {bad!r}")

    # A left operand whose text does not parse fails with ValueError before the
    # right operand's type is looked at; so does an unparsable right operand.
    broken = ir.SymbolicDim("a $ b")
    for name in ("__add__", "__sub__", "__mul__", "__floordiv__", "__mod__"):
        for other in (1, a, "text", ir.SymbolicDim(None)):
            try:
                getattr(broken, name)(other)
            except ValueError:
                pass
            else:
                raise AssertionError(f"{name} on unparsable text did not raise")
        try:
            getattr(a, name)(broken)
        except ValueError:
            pass
        else:
            raise AssertionError(f"{name} with unparsable right operand did not raise")

    # modulo by zero is still rejected the same way
    try:
        a % 0
    except ZeroDivisionError:
        pass
    else:
        raise AssertionError("a % 0 did not raise")

    # operands are not modified
    assert a.value == "a" and b.value == "b"
    print("OK")


if __name__ == "__main__":
    main()
