"""Round-trip demo for value-info / type+shape serialization (property C03)."""
import logging

import numpy as np
import onnx

import onnx_ir as ir
from onnx_ir import serde

# (the agent's worktree-path assertion was removed when the twin was stored)


def sig_value(v):
    if v is None:
        return None
    shape = None if v.shape is None else tuple(
        (d if isinstance(d, int) else ("sym", d.value)) for d in v.shape
    )
    den = None if v.shape is None else tuple(v.shape.get_denotation(i) for i in range(len(v.shape)))
    return (v.name, repr(v.type), shape, den, v.doc_string, dict(v.metadata_props))


def sig_graph(g):
    return (
        g.name,
        [sig_value(v) for v in g.inputs],
        [sig_value(v) for v in g.outputs],
        sorted((k, sig_value(v), v.const_value.tobytes()) for k, v in g.initializers.items()),
        [
            (
                n.name, n.domain, n.op_type, n.overload,
                [sig_value(i) for i in n.inputs],
                [sig_value(o) for o in n.outputs],
                [
                    (a.name, a.type.name,
                     sig_graph(a.value) if a.type == ir.AttributeType.GRAPH
                     else [(repr(t.type), None if t.shape is None else list(t.shape)) for t in a.value]
                     if a.type == ir.AttributeType.TYPE_PROTOS
                     else (repr(a.value.type), None if a.value.shape is None else list(a.value.shape))
                     if a.type == ir.AttributeType.TYPE_PROTO
                     else repr(a.value))
                    for a in n.attributes.values()
                ],
            )
            for n in g
        ],
    )


def build():
    f32 = ir.TensorType(ir.DataType.FLOAT)
    x = ir.Value(name="x", type=f32, shape=ir.Shape(["N", 3]))
    x.doc_string = "input x"
    x.metadata_props["k"] = "v"
    # nested type: optional(sequence(tensor)) with a shape on the leaf
    seq = ir.Value(
        name="seq",
        type=ir.OptionalType(ir.SequenceType(ir.TensorType(ir.DataType.INT64))),
        shape=ir.Shape([2, None], denotations=["DATA_BATCH", None]),
    )
    notype = ir.Value(name="notype")  # neither type nor shape
    shape_only = ir.Value(name="shape_only", shape=ir.Shape([4]))  # shape w/o type: warning, dropped
    w = ir.Value(name="w", type=f32, shape=ir.Shape([3]))
    w.const_value = ir.tensor(np.arange(3, dtype=np.float32), name="other_name")

    # subgraph capturing outer-scope value x
    inner_out = ir.Value(name="inner_out", type=f32, shape=ir.Shape([]))  # scalar: empty shape kept
    inner = ir.Node("", "Identity", [x], outputs=[inner_out], name="inner_id")
    sub = ir.Graph([], [inner_out], nodes=[inner], name="then")

    n0 = ir.Node(
        "", "Add", [x, w], num_outputs=1, name="add",
        attributes=[
            ir.Attr("tp", ir.AttributeType.TYPE_PROTO,
                    ir.TypeAndShape(ir.SequenceType(f32), ir.Shape([1, "M"]))),
            ir.Attr("tps", ir.AttributeType.TYPE_PROTOS, [
                ir.TypeAndShape(f32, None),
                ir.TypeAndShape(ir.SparseTensorType(ir.DataType.DOUBLE), ir.Shape([])),
                ir.TypeAndShape(None, None),
            ]),
            ir.Attr("empty_tps", ir.AttributeType.TYPE_PROTOS, []),
        ],
    )
    n0.outputs[0].name = "y"  # no type, no shape, but metadata -> value_info
    n0.outputs[0].metadata_props["note"] = "untyped"
    # optional input (None) and an empty-named trailing output
    n1 = ir.Node("custom", "Op", [n0.outputs[0], None, seq, notype, shape_only],
                 num_outputs=3, name="op",
                 attributes=[ir.Attr("body", ir.AttributeType.GRAPH, sub)])
    n1.outputs[0].name = "z"
    n1.outputs[0].type = f32
    n1.outputs[0].shape = ir.Shape([ir.SymbolicDim(None), 3])
    n1.outputs[1].name = ""
    n1.outputs[2].name = ""
    graph = ir.Graph(
        [x, seq, notype, shape_only], [n1.outputs[0]], nodes=[n1, n0],  # unsorted node order
        initializers=[w], name="main", opset_imports={"": 21, "custom": 1},
    )
    return ir.Model(graph, ir_version=10)


def main():
    records = []
    handler = logging.Handler()
    handler.emit = records.append
    logging.getLogger("onnx_ir.serde").addHandler(handler)

    model = build()
    before = sig_graph(model.graph)
    p1 = ir.to_proto(model)
    p2 = ir.to_proto(model)
    assert p1.SerializeToString(deterministic=True) == p2.SerializeToString(deterministic=True)
    # Only side effect: initializer tensor name aligned with its value name
    w = model.graph.initializers["w"]
    assert w.const_value.name == "w"
    assert sig_graph(model.graph) == before

    # Values without type leave the ValueInfoProto.type unset; shape-only gives one warning per write
    by_name = {vi.name: vi for vi in p1.graph.input}
    assert not by_name["notype"].HasField("type")
    assert not by_name["shape_only"].HasField("type")
    warns = [r for r in records if "is not known" in r.getMessage()]
    assert len(warns) == 2, len(warns)  # one per to_proto call
    leaf = by_name["seq"].type.optional_type.elem_type.sequence_type.elem_type.tensor_type
    assert [d.dim_value for d in leaf.shape.dim] == [2, 0]
    assert leaf.shape.dim[0].denotation == "DATA_BATCH"
    assert not leaf.shape.dim[1].HasField("dim_value") and not leaf.shape.dim[1].HasField("dim_param")
    vi = {v.name: v for v in p1.graph.value_info}
    assert set(vi) == {"w", "y"}, set(vi)
    assert not vi["y"].HasField("type") and vi["y"].metadata_props[0].value == "untyped"
    add = p1.graph.node[1]
    tp = {a.name: a for a in add.attribute}
    assert tp["tp"].tp.sequence_type.elem_type.tensor_type.shape.dim[1].dim_param == "M"
    assert len(tp["tps"].type_protos) == 3
    assert not tp["tps"].type_protos[0].tensor_type.HasField("shape")
    assert tp["tps"].type_protos[1].sparse_tensor_type.HasField("shape")
    assert tp["tps"].type_protos[2].WhichOneof("value") is None
    assert tp["empty_tps"].type == onnx.AttributeProto.TYPE_PROTOS and not tp["empty_tps"].type_protos
    assert list(p1.graph.node[0].output) == ["z"]
    assert list(p1.graph.node[0].input) == ["y", "", "seq", "notype", "shape_only"]

    # Round trip
    back = ir.from_proto(p1)
    expected = sig_graph(model.graph)
    got = sig_graph(back.graph)
    # shape_only's shape cannot be stored without a type; the trailing empty outputs are dropped
    exp_inputs = [v for v in expected[1]]
    assert got[0] == expected[0]
    for e, g in zip(exp_inputs, got[1]):
        if e[0] == "shape_only":
            assert g[2] is None and g[0] == "shape_only"
        else:
            assert e == g, (e, g)
    assert got[2] == expected[2]
    assert got[3] == expected[3]
    assert [n[0] for n in got[4]] == ["op", "add"]
    assert got[4][1][6] == expected[4][1][6], (got[4][1][6], expected[4][1][6])
    assert [o[0] for o in got[4][0][5]] == ["z"]
    assert got[4][0][5][0] == expected[4][0][5][0]
    # captured outer-scope value is the same object in both scopes
    body = back.graph.node("op").attributes["body"].value
    assert body.node(0).inputs[0] is back.graph.inputs[0]
    # second round trip is a fixed point
    p3 = ir.to_proto(back)
    assert p3.SerializeToString(deterministic=True) == p1.SerializeToString(deterministic=True)

    # custom name: used instead of the value's own name; own name used when empty
    v = ir.Value(name="own", type=ir.TensorType(ir.DataType.INT8), shape=ir.Shape([]))
    assert serde.serialize_value(v, name="f::g/own").name == "f::g/own"
    assert serde.serialize_value(v).name == "own"
    assert serde.serialize_value(v).type.tensor_type.HasField("shape")

    # rejected calls: value with name None, and an unsupported type
    try:
        serde.serialize_value(ir.Value())
    except serde.SerdeError as e:
        assert isinstance(e.__cause__, TypeError), repr(e.__cause__)
        assert "serialize_value_into" in str(e)
    else:
        raise AssertionError("expected SerdeError")

    class Weird:
        denotation = None
    bad = ir.Value(name="bad")
    bad._type = Weird()  # bypass: simulate unsupported type object
    target = onnx.ValueInfoProto()
    try:
        serde.serialize_value_into(target, bad)
    except serde.SerdeError as e:
        inner = e.__cause__
        assert isinstance(inner, serde.SerdeError) and "serialize_type_into" in str(inner)
        assert isinstance(inner.__cause__, TypeError)
    else:
        raise AssertionError("expected SerdeError")
    assert target.name == "bad" and not target.HasField("type")

    # serialize_shape_into on a type proto whose nested elem type is unset: warning, nothing written
    tp_proto = onnx.TypeProto()
    tp_proto.sequence_type.SetInParent()
    n_before = len([r for r in records if "is not known" in r.getMessage()])
    serde.serialize_shape_into(tp_proto, ir.Shape([1]))
    assert len([r for r in records if "is not known" in r.getMessage()]) == n_before + 1
    assert not tp_proto.sequence_type.HasField("elem_type")
    # map type has no elem_type: AttributeError wrapped in SerdeError
    mp = onnx.TypeProto()
    mp.map_type.key_type = 1
    try:
        serde.serialize_shape_into(mp, ir.Shape([1]))
    except serde.SerdeError as e:
        assert isinstance(e.__cause__, AttributeError)
    else:
        raise AssertionError("expected SerdeError")
    print("OK")


if __name__ == "__main__":
    main()
