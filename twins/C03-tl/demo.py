"""Demo for C03: IR -> proto -> IR round trip around node/function serialization.

Exercises serialize_node_into (optional inputs, trailing / interior unnamed
outputs, reference attributes, duplicates), serialize_function_into (value info
with and without create_value_info) and nested graphs. Exits 0 when all checks hold.
"""

import numpy as np
import onnx

import onnx_ir as ir
from onnx_ir import serde


def check(cond, msg):
    if not cond:
        raise SystemExit(f"FAIL: {msg}")


def val(name, dtype=ir.DataType.FLOAT, shape=(2, 3)):
    return ir.Value(
        name=name,
        type=ir.TensorType(dtype) if dtype is not None else None,
        shape=ir.Shape(shape) if shape is not None else None,
    )


def snapshot_node(node):
    return (
        node.op_type,
        node.domain,
        node.overload,
        node.name,
        tuple(None if i is None else i.name for i in node.inputs),
        tuple(o.name for o in node.outputs),
        tuple((a.name, a.type, a.is_ref()) for a in node.attributes.values()),
    )


def snapshot_graph(graph):
    return (
        tuple(v.name for v in graph.inputs),
        tuple(v.name for v in graph.outputs),
        tuple(graph.initializers),
        tuple(snapshot_node(n) for n in graph),
    )


# ---- 1. Single nodes -------------------------------------------------------
x, y = val("x"), val("y")

# optional input in the middle, the same value used twice, trailing unnamed outputs
n1 = ir.Node("", "Op", inputs=[x, None, x, y], num_outputs=4, name="n1")
n1.outputs[0].name = "a"
n1.outputs[1].name = ""  # interior unnamed output: must be kept
n1.outputs[2].name = "c"
n1.outputs[3].name = ""  # trailing unnamed output: dropped
before = snapshot_node(n1)
p1 = ir.to_proto(n1)
check(list(p1.input) == ["x", "", "x", "y"], f"inputs {list(p1.input)}")
check(list(p1.output) == ["a", "", "c"], f"outputs {list(p1.output)}")
check(snapshot_node(n1) == before, "serializing a node changed it")
check(ir.to_proto(n1) == p1, "second serialization differs")

# every output unnamed -> no outputs at all; no inputs at all
n2 = ir.Node("", "Sink", inputs=[], num_outputs=3, name="n2")
for o in n2.outputs:
    o.name = ""
p2 = ir.to_proto(n2)
check(list(p2.output) == [] and list(p2.input) == [], "all-unnamed outputs")
check(len(n2.outputs) == 3, "outputs of the IR node were modified")

# only trailing optional inputs
n3 = ir.Node("", "Opt", inputs=[x, None, None], num_outputs=1, name="n3")
n3.outputs[0].name = "o3"
check(list(ir.to_proto(n3).input) == ["x", "", ""], "trailing optional inputs kept")

# zero outputs
n4 = ir.Node("", "NoOut", inputs=[x], outputs=[], name="n4")
check(list(ir.to_proto(n4).output) == [], "zero outputs")

# a rejected call: an input whose name is None cannot be written
bad_in = ir.Value(name=None)
n5 = ir.Node("", "Bad", inputs=[x, bad_in], num_outputs=1, name="n5")
n5.outputs[0].name = "o5"
try:
    ir.to_proto(n5)
except serde.SerdeError as e:
    check(isinstance(e.__cause__, TypeError), f"cause {type(e.__cause__)}")
    check("serialize_node_into" in str(e), str(e))
else:
    raise SystemExit("FAIL: node with a None-named input was serialized")

# a rejected call: an interior output whose name is None (followed by a named one)
n6 = ir.Node("", "Bad2", inputs=[x], num_outputs=2, name="n6")
n6.outputs[0].name = None
n6.outputs[1].name = "o6"
try:
    ir.to_proto(n6)
except serde.SerdeError as e:
    check(isinstance(e.__cause__, TypeError), f"cause {type(e.__cause__)}")
else:
    raise SystemExit("FAIL: node with a None-named interior output was serialized")
# ... while a trailing None-named output is simply dropped
n6.outputs[0].name = "o6a"
n6.outputs[1].name = None
check(list(ir.to_proto(n6).output) == ["o6a"], "trailing None-named output")

# attributes: order kept, reference attributes mixed with plain ones
n7 = ir.Node(
    "",
    "Attrs",
    inputs=[x],
    attributes=[
        ir.AttrInt64("k", 3),
        ir.RefAttr("r", "outer_r", ir.AttributeType.FLOAT),
        ir.AttrString("s", "text"),
        ir.RefAttr("g", "outer_g", ir.AttributeType.GRAPH),
    ],
    num_outputs=1,
    name="n7",
)
n7.outputs[0].name = "o7"
p7 = ir.to_proto(n7)
check([a.name for a in p7.attribute] == ["k", "r", "s", "g"], "attribute order")
check([a.ref_attr_name for a in p7.attribute] == ["", "outer_r", "", "outer_g"], "ref names")
check(p7.attribute[0].i == 3 and p7.attribute[2].s == b"text", "attribute values")
check(p7.attribute[3].type == onnx.AttributeProto.GRAPH, "ref attribute type")
check(not p7.attribute[3].HasField("g"), "ref attribute must not carry a value")
back7 = ir.from_proto(p7)
check(snapshot_node(back7) == snapshot_node(n7), "node round trip")


# ---- 2. A model with nested graphs, a function and odd values --------------
def build_model(ir_version):
    gx = val("gx")
    cond = val("cond", ir.DataType.BOOL, ())
    w = val("w")
    w.const_value = ir.tensor(np.arange(6, dtype=np.float32).reshape(2, 3), name="other")

    # then-branch captures gx and w from the outer scope
    t_node = ir.Node("", "Add", inputs=[gx, w], num_outputs=1, name="t_add")
    t_node.outputs[0].name = "t_out"
    then_g = ir.Graph([], [t_node.outputs[0]], nodes=[t_node], name="then")
    e_node = ir.Node("", "Identity", inputs=[gx], num_outputs=1, name="e_id")
    e_node.outputs[0].name = "e_out"
    e_node.outputs[0].type = ir.TensorType(ir.DataType.FLOAT)
    else_g = ir.Graph([], [e_node.outputs[0]], nodes=[e_node], name="else")

    if_node = ir.Node(
        "",
        "If",
        inputs=[cond],
        attributes=[ir.AttrGraph("then_branch", then_g), ir.AttrGraph("else_branch", else_g)],
        num_outputs=1,
        name="if",
    )
    if_node.outputs[0].name = "if_out"  # no type, no shape

    # node with optional input, interior + trailing unnamed outputs; typed and untyped outputs
    multi = ir.Node("", "Multi", inputs=[if_node.outputs[0], None, gx], num_outputs=4, name="multi")
    multi.outputs[0].name = "m0"
    multi.outputs[0].type = ir.TensorType(ir.DataType.FLOAT)
    multi.outputs[0].shape = ir.Shape(["N", 3])
    multi.outputs[0].doc_string = "documented"
    multi.outputs[1].name = ""
    multi.outputs[2].name = "m2"
    multi.outputs[2].metadata_props["key"] = "value"
    multi.outputs[3].name = ""

    call = ir.Node("custom", "Fn", inputs=[multi.outputs[0], multi.outputs[2]], num_outputs=1, name="call")
    call.outputs[0].name = "result"
    call.outputs[0].type = ir.TensorType(ir.DataType.FLOAT)

    graph = ir.Graph(
        [gx, cond],
        [call.outputs[0], multi.outputs[2]],
        nodes=[if_node, multi, call],
        initializers=[w],
        name="main",
        opset_imports={"": 18, "custom": 1},
    )

    # function: typed and untyped inputs, a reference attribute, unnamed trailing output
    fa, fb = val("fa"), val("fb", None, None)
    f1 = ir.Node(
        "",
        "Scale",
        inputs=[fa, fb],
        attributes=[ir.RefAttr("alpha", "alpha", ir.AttributeType.FLOAT), ir.AttrInt64("axis", 1)],
        num_outputs=2,
        name="f_scale",
    )
    f1.outputs[0].name = "f_mid"
    f1.outputs[0].type = ir.TensorType(ir.DataType.FLOAT)
    f1.outputs[0].shape = ir.Shape([2, 3])
    f1.outputs[1].name = ""
    f2 = ir.Node("", "Relu", inputs=[f1.outputs[0]], num_outputs=1, name="f_relu")
    f2.outputs[0].name = "f_out"
    f_graph = ir.Graph([fa, fb], [f2.outputs[0]], nodes=[f1, f2], opset_imports={"": 18})
    func = ir.Function(
        "custom",
        "Fn",
        "",
        graph=f_graph,
        attributes=[ir.Attr("alpha", ir.AttributeType.FLOAT, None), ir.AttrFloat32("beta", 0.5)],
    )
    return ir.Model(graph, ir_version=ir_version, functions=[func], producer_name="demo")


def snapshot_model(model):
    funcs = tuple(
        (
            fid,
            tuple(v.name for v in f.inputs),
            tuple(v.name for v in f.outputs),
            tuple(snapshot_node(n) for n in f),
            tuple((a.name, a.type, a.value) for a in f.attributes.values()),
        )
        for fid, f in model.functions.items()
    )
    sub = []
    for node in model.graph:
        for attr in node.attributes.values():
            if not attr.is_ref() and attr.type == ir.AttributeType.GRAPH:
                sub.append((node.name, attr.name, snapshot_graph(attr.value)))
    values = []
    for node in model.graph:
        for o in node.outputs:
            values.append((o.name, str(o.type), str(o.shape), o.doc_string, dict(o.metadata_props)))
    return (snapshot_graph(model.graph), tuple(sub), funcs, tuple(values))


for version in (9, 10):
    model = build_model(version)
    snap = snapshot_model(model)
    w_tensor = model.graph.initializers["w"].const_value
    proto = ir.to_proto(model)
    proto_again = ir.to_proto(model)
    check(proto == proto_again, f"v{version}: serializing twice gives different protos")
    check(
        proto.SerializeToString(deterministic=True)
        == proto_again.SerializeToString(deterministic=True),
        "bytes differ",
    )
    check(snapshot_model(model) == snap, f"v{version}: serialization modified the model")
    check(model.graph.initializers["w"].const_value is w_tensor, "tensor object replaced")
    check(w_tensor.name == "w", "initializer tensor name not aligned with its value")

    multi_p = proto.graph.node[1]
    check(list(multi_p.input) == ["if_out", "", "gx"], "multi inputs")
    check(list(multi_p.output) == ["m0", "", "m2"], "multi outputs")
    main_vi = sorted(v.name for v in proto.graph.value_info)
    fproto = proto.functions[0]
    check(list(fproto.input) == ["fa", "fb"] and list(fproto.output) == ["f_out"], "function io")
    check(list(fproto.node[0].output) == ["f_mid"], "function node trailing output")
    check(list(fproto.attribute) == ["alpha"], "function attribute without default")
    check([a.name for a in fproto.attribute_proto] == ["beta"], "function attribute default")
    if version >= 10:
        check(sorted(v.name for v in fproto.value_info) == ["f_mid", "fa"], "function value_info")
        check(main_vi == ["m0", "w"], f"main value_info {main_vi}")
    else:
        check(len(fproto.value_info) == 0, "function value_info at IR 9")
        check(
            main_vi == ["custom::Fn/f_mid", "custom::Fn/fa", "m0", "w"],
            f"main value_info {main_vi}",
        )
    # m2 is a graph output: its metadata is on the output entry
    check(proto.graph.output[1].name == "m2", "graph outputs")
    check(
        {e.key: e.value for e in proto.graph.output[1].metadata_props} == {"key": "value"},
        "output metadata",
    )

    back = ir.from_proto(proto)
    back_snap = snapshot_model(back)
    # Trailing unnamed outputs are not materialised again: compare modulo those.
    def strip(node_snap):
        outs = list(node_snap[5])
        while outs and not outs[-1]:
            outs.pop()
        return node_snap[:5] + (tuple(outs),) + node_snap[6:]

    def strip_graph(gs):
        return gs[:3] + (tuple(strip(n) for n in gs[3]),)

    check(strip_graph(back_snap[0]) == strip_graph(snap[0]), f"v{version}: main graph differs")
    check(
        [(a, b, strip_graph(c)) for a, b, c in back_snap[1]]
        == [(a, b, strip_graph(c)) for a, b, c in snap[1]],
        "subgraphs differ",
    )
    for (fid_a, ins_a, outs_a, nodes_a, _), (fid_b, ins_b, outs_b, nodes_b, _) in zip(
        back_snap[2], snap[2]
    ):
        check((fid_a, ins_a, outs_a) == (fid_b, ins_b, outs_b), "function header differs")
        check(tuple(map(strip, nodes_a)) == tuple(map(strip, nodes_b)), "function nodes differ")
    vals_a = {v[0]: v for v in back_snap[3] if v[0]}
    vals_b = {v[0]: v for v in snap[3] if v[0]}
    check(vals_a == vals_b, f"v{version}: value types/shapes/docs/metadata differ")

    # captured outer-scope values are shared objects again
    back_if = back.graph.node(0)
    then_add = back_if.attributes["then_branch"].value.node(0)
    check(then_add.inputs[0] is back.graph.inputs[0], "captured gx not shared")
    check(then_add.inputs[1] is back.graph.initializers["w"], "captured w not shared")
    np.testing.assert_array_equal(
        back.graph.initializers["w"].const_value.numpy(), w_tensor.numpy()
    )
    # proto -> IR -> proto is stable
    check(ir.to_proto(back) == proto, f"v{version}: second round trip changed the proto")

    # function serialized on its own, with and without value info
    func = next(iter(model.functions.values()))
    with_vi = serde.serialize_function(func)
    without_vi = serde.serialize_function(func, create_value_info=False)
    check(sorted(v.name for v in with_vi.value_info) == ["f_mid", "fa"], "standalone with vi")
    check(len(without_vi.value_info) == 0, "standalone without vi")
    without_vi_copy = onnx.FunctionProto()
    without_vi_copy.CopyFrom(with_vi)
    without_vi_copy.ClearField("value_info")
    check(without_vi_copy == without_vi, "value info flag changed something else")

print("OK")
