"""Demo for C19: device annotations follow object identity and never dangle.

Exercises Node.shard / Node.set_pipeline_stage / Model.add_device_configuration
(the code that finds a node's entry for a configuration and merges into it),
together with renames, input replacement, output resizing, cloning, cascade
removal and a serde round trip at IR version 11.
"""

import onnx_ir as ir
from onnx_ir import _multi_device
from onnx_ir._multi_device import _check_device_configurations


def expect_value_error(fn, *args, **kwargs):
    try:
        fn(*args, **kwargs)
    except ValueError:
        return
    raise AssertionError(f"expected ValueError from {fn} {args} {kwargs}")


def sh(node, value, configuration, axis, num_shards, **kwargs):
    node.shard(value, configuration=configuration, axis=axis, num_shards=num_shards, **kwargs)


def check_model(model):
    errors = _check_device_configurations(model)
    assert errors == [], errors
    registered = model.device_configurations
    for node in model.graph.all_nodes():
        own = [v for v in (*node.inputs, *node.outputs) if v is not None]
        for ndc in node.device_configurations:
            assert any(ndc.configuration is c for c in registered), ndc
            for spec in ndc.sharding_specs:
                assert any(spec.value is v for v in own), spec


def build():
    x = ir.Value(name="x", shape=ir.Shape([4, 8]), type=ir.TensorType(ir.DataType.FLOAT))
    w = ir.Value(name="w", type=ir.TensorType(ir.DataType.FLOAT))  # unknown rank
    n1 = ir.Node("", "Add", [x, w], name="n1", num_outputs=2)
    n1.outputs[0].name = "y0"
    n1.outputs[1].name = "y1"
    n1.outputs[0].shape = ir.Shape([4, 8])
    n1.outputs[0].type = ir.TensorType(ir.DataType.FLOAT)
    n2 = ir.Node("", "Relu", [n1.outputs[0]], name="n2", num_outputs=1)
    n2.outputs[0].name = "z"
    n2.outputs[0].shape = ir.Shape([4, 8])
    n2.outputs[0].type = ir.TensorType(ir.DataType.FLOAT)
    graph = ir.Graph(
        [x, w], [n2.outputs[0]], nodes=[n1, n2], name="g", opset_imports={"": 21}
    )
    model = ir.Model(graph, ir_version=11)
    return model, x, w, n1, n2


def main():
    model, x, w, n1, n2 = build()

    # --- Model.add_device_configuration: validation without effect -------------
    expect_value_error(model.add_device_configuration, "", num_devices=2)
    assert model.device_configurations == ()
    tp = model.add_device_configuration("tp", num_devices=4)
    pp = model.add_device_configuration("pp", device_names=("a", "b"))
    before = model.device_configurations
    expect_value_error(model.add_device_configuration, "tp", num_devices=9)  # duplicate name
    expect_value_error(model.add_device_configuration, "pp", num_devices=0)  # dup wins first
    expect_value_error(model.add_device_configuration, "q", num_devices=0)
    expect_value_error(model.add_device_configuration, "q", num_devices=3, device_names=("a",))
    assert model.device_configurations is before
    assert [c.name for c in before] == ["tp", "pp"] and pp.num_devices == 2

    # --- Node.shard: new entry, merge into existing entry, second configuration -
    sh(n1, x, tp, 0, 2, device_indices=[0, 1])
    n1.set_pipeline_stage(pp, 1)  # placement-only entry for a second configuration
    sh(n1, x, tp, -1, 2, device_indices=[1, 2], pipeline_stage=3)  # merge: 2nd axis
    sh(n1, w, tp, 5, 2)  # unknown rank: any axis accepted
    sh(n1, n1.outputs[1], pp, 0, 1)  # merges into the placement-only entry
    assert [c.configuration for c in n1.device_configurations] == [tp, pp]
    tp_entry, pp_entry = n1.device_configurations
    assert tp_entry.configuration is tp and pp_entry.configuration is pp
    assert tp_entry.pipeline_stage == 3 and pp_entry.pipeline_stage == 1
    assert [s.value for s in tp_entry.sharding_specs] == [x, w]
    assert tp_entry.sharding_specs[0].device == (0, 1, 2)
    assert [d.axis for d in tp_entry.sharding_specs[0].sharded_dims] == [0, -1]
    assert [s.value for s in pp_entry.sharding_specs] == [n1.outputs[1]]

    # --- rejected requests leave the annotations untouched ---------------------
    snapshot = n1.device_configurations
    expect_value_error(sh, n1, x, tp, 1, 2)  # same axis as -1 (rank 2)
    expect_value_error(sh, n1, x, tp, 2, 2)  # out of range
    expect_value_error(sh, n1, x, tp, -3, 2)  # out of range
    expect_value_error(sh, n1, w, tp, 5, 2)  # repeated axis on unknown rank
    expect_value_error(sh, n1, x, tp, 0, 0)  # fewer than one shard
    expect_value_error(sh, n1, w, tp, 0, 2, pipeline_stage=2)  # conflicting stage
    expect_value_error(sh, n1, w, pp, 0, 2, pipeline_stage=0)  # conflicting stage (pp)
    expect_value_error(sh, n1, w, tp, 0, 2, device_indices=[4])  # device out of range
    expect_value_error(sh, n1, n2.outputs[0], tp, 0, 2)  # not own value
    expect_value_error(sh, n1, None, tp, 0, 2)
    expect_value_error(n1.set_pipeline_stage, tp, -1)
    assert n1.device_configurations is snapshot
    # a conflicting stage on a *new* configuration entry of another node is fine
    sh(n2, n2.inputs[0], tp, 0, 2, pipeline_stage=0)
    n2.set_pipeline_stage(tp, 7)  # replaces the stage, keeps the spec
    assert len(n2.device_configurations) == 1
    assert n2.device_configurations[0].pipeline_stage == 7
    assert n2.sharding_of(n2.inputs[0])[0].sharded_dims[0].axis == 0
    check_model(model)

    # --- unusual: duplicate entries for the same configuration (constructor) ----
    dup = ir.Node(
        "",
        "Identity",
        [x],
        name="dup",
        device_configurations=(
            _multi_device.NodeDeviceConfiguration(configuration=pp, pipeline_stage=0),
            _multi_device.NodeDeviceConfiguration(configuration=tp, pipeline_stage=1),
            _multi_device.NodeDeviceConfiguration(configuration=tp, pipeline_stage=2),
        ),
    )
    dup.set_pipeline_stage(tp, 5)  # only the FIRST matching entry is updated
    assert [c.pipeline_stage for c in dup.device_configurations] == [0, 5, 2]
    expect_value_error(sh, dup, x, tp, 0, 2, pipeline_stage=2)  # conflicts with first
    assert [c.pipeline_stage for c in dup.device_configurations] == [0, 5, 2]
    sh(dup, x, tp, 0, 2)  # merged into the first matching entry only
    assert [len(c.sharding_specs) for c in dup.device_configurations] == [0, 1, 0]
    # a same-named imposter is a different configuration: gets its own entry
    imposter = _multi_device.ModelConfiguration(name="tp", num_devices=4)
    dup.set_pipeline_stage(imposter, 9)
    assert len(dup.device_configurations) == 4
    assert dup.device_configurations[3].configuration is imposter
    assert [c.pipeline_stage for c in dup.device_configurations] == [0, 5, 2, 9]
    dup.replace_input_with(0, None)  # detach again; x keeps its other use
    assert dup.sharding_of(x) == ()

    # --- rename, replace input, resize outputs ---------------------------------
    x.name = "x_renamed"
    tp_new = model.remove_device_configuration(tp)  # no cascade ...
    assert tp_new is tp
    assert _check_device_configurations(model) != []  # ... dangling, reported
    model.device_configurations = (*model.device_configurations, tp)
    check_model(model)

    w2 = ir.Value(name="w2", type=ir.TensorType(ir.DataType.FLOAT))
    model.graph.inputs.append(w2)
    n1.replace_input_with(1, w2)
    assert n1.sharding_of(w) == ()
    assert [s.value for s in n1.device_configurations[0].sharding_specs] == [x]
    n1.resize_outputs(1)
    assert n1.device_configurations[1].sharding_specs == ()
    assert n1.device_configurations[1].pipeline_stage == 1
    check_model(model)

    # --- round trip at IR version 11: current names, registered objects --------
    proto = ir.serde.serialize_model(model)
    node_proto = proto.graph.node[0]
    names = [s.tensor_name for c in node_proto.device_configurations for s in c.sharding_spec]
    assert names == ["x_renamed"], names
    assert sorted(c.configuration_id for c in node_proto.device_configurations) == ["pp", "tp"]
    model2 = ir.serde.deserialize_model(proto)
    check_model(model2)
    r1 = model2.graph[0]
    assert [s.value for c in r1.device_configurations for s in c.sharding_specs] == [
        r1.inputs[0]
    ]
    # annotating after the round trip still merges into the deserialized entry
    tp2 = next(c for c in model2.device_configurations if c.name == "tp")
    expect_value_error(sh, r1, r1.inputs[0], tp2, 1, 2)  # -1 already taken
    expect_value_error(sh, r1, r1.inputs[1], tp2, 0, 2, pipeline_stage=0)  # stage is 3
    sh(r1, r1.inputs[1], tp2, 0, 2)
    assert len(r1.device_configurations) == 2
    check_model(model2)

    # --- clone, then cascade removal -------------------------------------------
    model3 = model.clone()
    check_model(model3)
    c1 = model3.graph[0]
    assert c1.sharding_of(c1.inputs[0]) and c1.inputs[0] is not x
    c1.set_pipeline_stage(tp, 4)
    assert n1.device_configurations[0].pipeline_stage == 3  # original untouched
    model3.remove_device_configuration("tp", cascade=True)
    check_model(model3)
    assert [c.configuration for c in c1.device_configurations] == [pp]
    assert model3.graph[1].device_configurations == ()
    check_model(model)  # the original still has tp annotations
    assert n2.device_configurations[0].configuration is tp

    print("OK")


if __name__ == "__main__":
    main()
