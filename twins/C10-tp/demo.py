"""Demo for C10: ExternalTensor.tofile() never escapes the base directory and copies the right bytes.

Run as: PYTHONPATH=<tree>/src /venv/bin/python demo.py
"""

import errno
import io
import os
import sys
import tempfile
import unittest.mock

import numpy as np
import onnx

import onnx_ir as ir


def make(location, base_dir, *, offset=None, length=None, n=6, dtype=ir.DataType.FLOAT):
    return ir.ExternalTensor(
        location, offset, length, dtype, shape=ir.Shape([n]), name="t", base_dir=base_dir
    )


def expect_rejected(tensor, what):
    """Every read entry point raises ValueError and tofile() writes nothing."""
    sink = io.BytesIO(b"keep")
    sink.seek(4)
    for label, call in (
        ("tofile", lambda: tensor.tofile(sink)),
        ("tobytes", tensor.tobytes),
        ("numpy", tensor.numpy),
        ("__array__", lambda: np.asarray(tensor)),
        ("serialize", lambda: ir.serde.serialize_tensor(ir.Tensor(tensor.numpy()))),
    ):
        try:
            call()
        except ValueError as e:
            assert "attack" in str(e), (what, label, e)
        else:
            raise AssertionError(f"{what}: {label} was not rejected")
    assert sink.getvalue() == b"keep" and sink.tell() == 4, what
    assert tensor.raw is None, what


def main():
    with tempfile.TemporaryDirectory() as root:
        root = os.path.realpath(root)
        base = os.path.join(root, "model")
        sibling = os.path.join(root, "model_evil")  # shares the base's name as a prefix
        sub = os.path.join(base, "sub")
        for d in (base, sibling, sub):
            os.mkdir(d)
        data = np.arange(6, dtype=np.float32)
        padded = b"\xaa" * 8 + data.tobytes() + b"\xbb" * 8
        with open(os.path.join(base, "w.bin"), "wb") as f:
            f.write(padded)
        with open(os.path.join(sub, "w.bin"), "wb") as f:
            f.write(data.tobytes())
        secret = np.full(6, 7.0, dtype=np.float32).tobytes()
        for p in (os.path.join(sibling, "s.bin"), os.path.join(root, "top.bin")):
            with open(p, "wb") as f:
                f.write(secret)
        os.symlink(os.path.join(sub, "w.bin"), os.path.join(base, "inner_link.bin"))
        os.symlink(os.path.join(sibling, "s.bin"), os.path.join(base, "outer_link.bin"))
        os.symlink(sibling, os.path.join(base, "outer_dir"))
        os.link(os.path.join(root, "top.bin"), os.path.join(base, "hard.bin"))

        # --- accepted reads, every spelling of the base directory -----------------
        os.symlink(base, os.path.join(root, "base_link"))
        old_cwd = os.getcwd()
        os.chdir(root)
        try:
            spellings = [
                base,
                base + os.sep,
                "model",
                os.path.join(".", "model") + os.sep,
                os.path.join("model", "sub", ".."),
                os.path.join(root, "base_link"),
            ]
            for spelling in spellings:
                t = make("w.bin", spelling, offset=8, length=24)
                # 1. regular file destination (kernel copy when available), twice in a row
                out_path = os.path.join(root, "out.bin")
                with open(out_path, "wb") as out:
                    out.write(b"HEAD")
                    t.tofile(out)
                    assert out.tell() == 4 + 24, (spelling, out.tell())
                    t.tofile(out)
                    out.write(b"TAIL")
                with open(out_path, "rb") as f:
                    assert f.read() == b"HEAD" + data.tobytes() * 2 + b"TAIL", spelling
                # 2. in-memory destination (portable chunked path)
                buf = io.BytesIO()
                t.tofile(buf)
                assert buf.getvalue() == data.tobytes() == t.tobytes(), spelling
                np.testing.assert_array_equal(t.numpy(), data)
                # 3. a pipe is not a regular file
                r, w = os.pipe()
                with os.fdopen(w, "wb") as wf:
                    t.tofile(wf)
                with os.fdopen(r, "rb") as rf:
                    assert rf.read() == data.tobytes()
                t.release()
                # symlink staying inside and non-normalised location are fine
                for loc in ("inner_link.bin", os.path.join("sub", "..", "sub", ".", "w.bin")):
                    buf = io.BytesIO()
                    make(loc, spelling).tofile(buf)
                    assert buf.getvalue() == data.tobytes(), (spelling, loc)

                # --- rejected locations -------------------------------------------
                for loc in (
                    os.path.join("..", "top.bin"),
                    os.path.join("sub", "..", "..", "top.bin"),
                    os.path.join(root, "top.bin"),
                    os.path.join("..", "model_evil", "s.bin"),
                    "outer_link.bin",
                    os.path.join("outer_dir", "s.bin"),
                    "hard.bin",
                ):
                    expect_rejected(make(loc, spelling), (spelling, loc))
                # unusual: empty tensor with an escaping location is rejected as well
                empty = make(os.path.join("..", "top.bin"), spelling, n=0)
                for call in (lambda: empty.tofile(io.BytesIO()), empty.tobytes, empty.numpy):
                    try:
                        call()
                    except ValueError:
                        pass
                    else:
                        raise AssertionError("empty escaping tensor accepted")
        finally:
            os.chdir(old_cwd)

        # --- kernel copy failing half-way -------------------------------------------
        t = make("w.bin", base, offset=8, length=24)
        calls = []

        def flaky(code):
            def copy_file_range(src_fd, dst_fd, count, *, offset_src=None, offset_dst=None):
                calls.append((count, offset_src, offset_dst))
                if len(calls) > 1:
                    raise OSError(code, os.strerror(code))
                os.pwrite(dst_fd, os.pread(src_fd, 10, offset_src), offset_dst)
                return 10

            return copy_file_range

        out_path = os.path.join(root, "out2.bin")
        with unittest.mock.patch.object(os, "copy_file_range", flaky(errno.EXDEV), create=True):
            with open(out_path, "wb") as out:
                out.write(b"xy")
                t.tofile(out)
                assert out.tell() == 26
        with open(out_path, "rb") as f:
            assert f.read() == b"xy" + data.tobytes()
        assert calls == [(24, 8, 2), (14, 18, 12)], calls
        # an unexpected errno propagates, with the destination advanced past the copied part
        calls.clear()
        with unittest.mock.patch.object(os, "copy_file_range", flaky(errno.EIO), create=True):
            with open(out_path, "wb") as out:
                try:
                    t.tofile(out)
                except OSError as e:
                    assert e.errno == errno.EIO
                else:
                    raise AssertionError("EIO swallowed")
                assert out.tell() == 10
        # a rejected tensor never reaches copy_file_range
        calls.clear()
        with unittest.mock.patch.object(os, "copy_file_range", flaky(errno.EIO), create=True):
            with open(out_path, "wb") as out:
                try:
                    make("hard.bin", base).tofile(out)
                except ValueError:
                    pass
                else:
                    raise AssertionError("hard link accepted")
                assert out.tell() == 0 and calls == []
        # data file shorter than declared: OSError from the chunked path
        short = make("w.bin", sub, n=8)
        try:
            short.tofile(io.BytesIO())
        except OSError as e:
            assert "shorter than expected" in str(e), e
        else:
            raise AssertionError("short file accepted")
        # an invalidated tensor refuses before anything else
        t.invalidate()
        try:
            t.tofile(io.BytesIO())
        except ValueError as e:
            assert "invalidated" in str(e)
        else:
            raise AssertionError("invalidated tensor read")

        # --- a model loaded through a bare file name gets a non-empty base directory ---
        for loc, ok in (("w.bin", True), (os.path.join("..", "top.bin"), False)):
            tp = onnx.TensorProto(name="w", data_type=onnx.TensorProto.FLOAT, dims=[6])
            tp.data_location = onnx.TensorProto.EXTERNAL
            for k, v in (("location", loc), ("offset", "8" if ok else "0"), ("length", "24")):
                e = tp.external_data.add()
                e.key, e.value = k, v
            graph = onnx.helper.make_graph([], "g", [], [], initializer=[tp])
            onnx.save(onnx.helper.make_model(graph), os.path.join(base, "m.onnx"))
            os.chdir(base)
            try:
                model = ir.load("m.onnx")
            finally:
                os.chdir(old_cwd)
            tensor = model.graph.initializers["w"].const_value
            assert isinstance(tensor, ir.ExternalTensor) and tensor.base_dir
            tensor.base_dir = base  # same directory, spelled absolutely (cwd was restored)
            if ok:
                buf = io.BytesIO()
                tensor.tofile(buf)
                assert buf.getvalue() == data.tobytes()
            else:
                expect_rejected(tensor, "loaded model")
    print("C10 demo OK")
    return 0


if __name__ == "__main__":
    sys.exit(main())
