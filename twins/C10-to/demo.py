"""Demo for C10: external tensor reads never escape the model directory.

Exercises ExternalTensor reads (numpy / tobytes / tofile / __array__ / serialization)
around the load path and the base_dir setter.
"""
import io
import os
import sys
import tempfile

import numpy as np

import onnx_ir as ir
from onnx_ir import serde


def make(location, base_dir, dtype=ir.DataType.FLOAT, shape=(4,), offset=0, length=16):
    return ir.ExternalTensor(
        location, offset, length, dtype, shape=ir.Shape(shape), name="t", base_dir=base_dir
    )


def entry_points(t):
    def via_tofile():
        buf = io.BytesIO()
        t.tofile(buf)
        return buf.getvalue()

    return {
        "numpy": lambda: t.numpy().tobytes(),
        "array": lambda: np.asarray(t).tobytes(),
        "tobytes": lambda: bytes(t.tobytes()),
        "tofile": via_tofile,
        "serde": lambda: serde.serialize_tensor(ir.Tensor(t.numpy(), name="x")).raw_data,
    }


def expect_rejected(t, what):
    for name, fn in entry_points(t).items():
        try:
            fn()
        except ValueError as e:
            assert "outside the base directory" in str(e) or "hard link" in str(e), (what, name, e)
        else:
            raise AssertionError(f"{what}: {name} was not rejected")
        assert t.raw is None and t._array is None, (what, name)


def main():
    with tempfile.TemporaryDirectory() as root:
        root = os.path.realpath(root)
        model = os.path.join(root, "model")
        sibling = os.path.join(root, "model_evil")  # shares the base's name as a prefix
        os.makedirs(os.path.join(model, "sub"))
        os.makedirs(sibling)
        good = np.arange(4, dtype=np.float32)
        secret = np.full(4, 7.0, dtype=np.float32)
        good.tofile(os.path.join(model, "w.bin"))
        good.tofile(os.path.join(model, "sub", "w.bin"))
        secret.tofile(os.path.join(sibling, "w.bin"))
        secret.tofile(os.path.join(root, "secret.bin"))
        os.symlink(os.path.join(root, "secret.bin"), os.path.join(model, "link_out.bin"))
        os.symlink(os.path.join(model, "w.bin"), os.path.join(model, "link_in.bin"))
        os.symlink(sibling, os.path.join(model, "dir_out"))
        os.link(os.path.join(root, "secret.bin"), os.path.join(model, "hard.bin"))
        # packed 4-bit data: 4 elements in 2 bytes
        with open(os.path.join(model, "i4.bin"), "wb") as f:
            f.write(bytes([0x21, 0x43]))

        # accepted locations, several spellings of the base directory
        cwd = os.getcwd()
        os.chdir(root)
        try:
            for base in (model, model + os.sep, "model", "./model/", os.path.join(model, "sub", "..")):
                for loc in ("w.bin", "./w.bin", "sub/../w.bin", "sub//w.bin", "link_in.bin"):
                    for name in ("numpy", "array", "tobytes", "tofile", "serde"):
                        t = make(loc, base)
                        assert entry_points(t)[name]() == good.tobytes(), (base, loc, name)
                        t.release()
        finally:
            os.chdir(cwd)

        # packed sub-byte dtype goes through the uint8 layout
        t4 = make("i4.bin", model, dtype=ir.DataType.INT4, shape=(4,), length=2)
        assert t4.numpy().astype(np.int32).tolist() == [1, 2, 3, 4]
        assert bytes(t4.tobytes()) == bytes([0x21, 0x43])
        t4.release()
        tu2 = make("i4.bin", model, dtype=ir.DataType.UINT2, shape=(8,), length=2)
        assert tu2.numpy().astype(np.int32).tolist() == [1, 0, 2, 0, 3, 0, 0, 1]
        tu2.release()

        # rejected locations
        for loc in (
            "../secret.bin",
            "../model_evil/w.bin",
            os.path.join(root, "secret.bin"),
            "sub/../../secret.bin",
            "link_out.bin",
            "dir_out/w.bin",
            "hard.bin",
        ):
            expect_rejected(make(loc, model), loc)
            expect_rejected(make(loc, model + os.sep), loc + " (trailing sep)")

        # empty tensor (unusual input): nothing mapped, yet the location is still checked
        empty_ok = make("w.bin", model, shape=(0,), length=0)
        assert empty_ok.numpy().shape == (0,) and empty_ok.tobytes() == b"" and empty_ok.raw is None
        empty_bad = make("../secret.bin", model, shape=(0,), length=0)
        for fn in (empty_bad.numpy, empty_bad.tobytes):
            try:
                fn()
            except ValueError:
                pass
            else:
                raise AssertionError("empty tensor outside base was not rejected")

        # base_dir setter: moving a loaded tensor drops the mapping and re-checks
        t = make("w.bin", model)
        first = t.numpy()
        old_raw = t.raw
        assert old_raw is not None
        t.base_dir = model  # same spelling: mapping kept
        assert t.raw is old_raw and t.numpy() is first
        t.base_dir = sibling  # file exists there; base is now the sibling, so it is inside
        assert t.raw is None and t._array is None
        assert not old_raw.closed  # dropped, not closed: `first` stays usable
        assert first.tobytes() == good.tobytes()
        assert t.numpy().tobytes() == secret.tobytes()
        t.base_dir = os.path.join(model, "sub")
        t2 = make("../w.bin", os.path.join(model, "sub"))
        expect_rejected(t2, "../w.bin from sub")
        assert bytes(t.tobytes()) == good.tobytes()
        # a rejected setter value (not path-like) leaves everything untouched
        kept = t.raw
        try:
            t.base_dir = 3
        except TypeError:
            pass
        else:
            raise AssertionError("int base_dir accepted")
        assert t.raw is kept and t.base_dir == os.path.join(model, "sub")
        t.release()
        assert t.raw is None and kept.closed

        # invalidated tensor: rejected before anything is read
        t = make("w.bin", model)
        t.invalidate()
        for name, fn in entry_points(t).items():
            try:
                fn()
            except ValueError as e:
                assert "invalidated" in str(e)
            else:
                raise AssertionError(name)

        # load from a bare file name: the base directory is the model's directory
        tensor = ir.ExternalTensor(
            "w.bin", 0, 16, ir.DataType.FLOAT, shape=ir.Shape((4,)), name="w", base_dir=model
        )
        tensor_bad = ir.ExternalTensor(
            "../secret.bin", 0, 16, ir.DataType.FLOAT, shape=ir.Shape((4,)), name="b", base_dir=model
        )
        values = [ir.Value(name=x.name, const_value=x, shape=x.shape, type=ir.TensorType(x.dtype)) for x in (tensor, tensor_bad)]
        graph = ir.Graph([], [], nodes=[], initializers=values, opset_imports={"": 20}, name="g")
        proto = serde.serialize_model(ir.Model(graph, ir_version=10))
        with open(os.path.join(model, "m.onnx"), "wb") as f:
            f.write(proto.SerializeToString())
        os.chdir(model)
        try:
            for spelling in ("m.onnx", "./m.onnx", os.path.join(model, "m.onnx"), "../model/m.onnx"):
                m = ir.load(spelling)
                w = m.graph.initializers["w"].const_value
                b = m.graph.initializers["b"].const_value
                assert w.base_dir, spelling
                assert w.numpy().tobytes() == good.tobytes(), spelling
                expect_rejected(b, "loaded " + spelling)
                w.release()
        finally:
            os.chdir(cwd)
    print("C10 demo OK")
    return 0


if __name__ == "__main__":
    sys.exit(main())
