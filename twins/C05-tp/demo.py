"""Demo for C05 (passes preserve what the model computes), area: IdentityEliminationPass.

Runs identity elimination, alone and composed with other built-in passes, on several
models (including unusual ones) and checks with the ONNX reference evaluator that the
outputs are the same position by position, that the number/order of inputs and outputs is
kept and that the ONNX checker still accepts the model.
"""

from __future__ import annotations

import sys

import numpy as np
import onnx
import onnx.checker
import onnx.parser
from onnx.reference import ReferenceEvaluator

import onnx_ir as ir
from onnx_ir.passes import common as passes

HEADER = '<ir_version: 10, opset_import: ["" : 20, "local" : 1]>\n'

MODELS = {
    # chain of identities in the middle, identity feeding the output (case 2, rename)
    "chain": HEADER
    + """
agraph (float[2,3] x) => (float[2,3] y) {
    a = Identity(x)
    b = Identity(a)
    c = Add(b, a)
    d = Identity(c)
    y = Identity(d)
}
""",
    # input -> output (case 3, kept) and initializer -> output (kept)
    "kept": HEADER
    + """
agraph (float[2,3] x) => (float[2,3] y, float[3] z) <float[3] w = {1.0, 2.0, 3.0}> {
    y = Identity(x)
    z = Identity(w)
}
""",
    # duplicates: two outputs are identities of the same value, plus the value itself
    "duplicates": HEADER
    + """
agraph (float[2,3] x) => (float[2,3] y1, float[2,3] y2, float[2,3] y3) {
    t = Neg(x)
    y1 = Identity(t)
    y2 = Identity(t)
    u = Identity(t)
    y3 = Abs(u)
}
""",
    # nesting: If with identities in the branches, one of them from an outer value
    "nested": HEADER
    + """
agraph (float[2,3] x, bool c) => (float[2,3] y) {
    t = Identity(x)
    s = Neg(t)
    y = If (c) <
        then_branch = then_g () => (float[2,3] r) {
            r = Identity(s)
        },
        else_branch = else_g () => (float[2,3] r2) {
            q = Identity(t)
            p = Abs(q)
            r2 = Identity(p)
        }
    >
}
""",
    # a model-local function with identities
    "function": HEADER
    + """
agraph (float[2,3] x) => (float[2,3] y) {
    m = local.twice(x)
    y = Identity(m)
}
<domain: "local", opset_import: ["" : 20]>
twice (a) => (b) {
    a1 = Identity(a)
    s = Add(a1, a)
    b = Identity(s)
}
""",
    # empty graph body (input directly as output is not allowed by the parser: use no nodes
    # with a constant-free passthrough via a kept identity only)
    "single_kept": HEADER
    + """
agraph (float[2,3] x) => (float[2,3] y) {
    y = Identity(x)
}
""",
}


def make_inputs(model: onnx.ModelProto, seed: int) -> dict[str, np.ndarray]:
    rng = np.random.default_rng(seed)
    feeds = {}
    for inp in model.graph.input:
        if inp.type.tensor_type.elem_type == onnx.TensorProto.BOOL:
            feeds[inp.name] = np.array(bool(seed % 2))
        else:
            dims = [d.dim_value for d in inp.type.tensor_type.shape.dim]
            feeds[inp.name] = rng.standard_normal(dims).astype(np.float32)
    return feeds


def run(proto: onnx.ModelProto, feeds) -> list[np.ndarray]:
    return ReferenceEvaluator(proto).run(None, feeds)


PASS_SEQUENCES = {
    "identity": lambda: [passes.IdentityEliminationPass()],
    "identity_twice": lambda: [
        passes.IdentityEliminationPass(),
        passes.IdentityEliminationPass(),
    ],
    "identity_unused_cse": lambda: [
        passes.IdentityEliminationPass(),
        passes.RemoveUnusedNodesPass(),
        passes.CommonSubexpressionEliminationPass(),
        passes.IdentityEliminationPass(),
        passes.TopologicalSortPass(),
        passes.NameFixPass(),
    ],
    "outputfix_identity": lambda: [
        passes.OutputFixPass(),
        passes.IdentityEliminationPass(),
        passes.RemoveUnusedNodesPass(),
    ],
    "inline_identity": lambda: [
        passes.InlinePass(),
        passes.IdentityEliminationPass(),
        passes.RemoveUnusedFunctionsPass(),
    ],
}


def check_model(name: str, text: str) -> None:
    original = onnx.parser.parse_model(text)
    onnx.checker.check_model(original, full_check=True)
    for seq_name, make_seq in PASS_SEQUENCES.items():
        model = ir.serde.deserialize_model(original)
        n_inputs = [v.name for v in model.graph.inputs]
        n_outputs = len(model.graph.outputs)
        result = ir.passes.Sequential(*make_seq())(model)
        after = ir.serde.serialize_model(result.model)
        onnx.checker.check_model(after, full_check=True)
        assert [v.name for v in result.model.graph.inputs] == n_inputs, (name, seq_name)
        assert len(result.model.graph.outputs) == n_outputs, (name, seq_name)
        assert [o.name for o in after.graph.output] == [
            o.name for o in original.graph.output
        ], (name, seq_name)
        for seed in range(4):
            feeds = make_inputs(original, seed)
            expected = run(original, feeds)
            actual = run(after, feeds)
            assert len(expected) == len(actual), (name, seq_name)
            for e, a in zip(expected, actual):
                np.testing.assert_array_equal(e, a, err_msg=f"{name}/{seq_name}")
    print(f"ok: {name}")


def check_expected_structure() -> None:
    """A few structural facts that hold before and after the refactoring."""
    model = ir.serde.deserialize_model(onnx.parser.parse_model(MODELS["chain"]))
    result = passes.IdentityEliminationPass()(model)
    assert result.modified
    assert [n.op_type for n in model.graph] == ["Add"]
    assert model.graph.outputs[0].name == "y"

    model = ir.serde.deserialize_model(onnx.parser.parse_model(MODELS["kept"]))
    result = passes.IdentityEliminationPass()(model)
    assert not result.modified
    assert [n.op_type for n in model.graph] == ["Identity", "Identity"]

    model = ir.serde.deserialize_model(onnx.parser.parse_model(MODELS["duplicates"]))
    result = passes.IdentityEliminationPass()(model)
    assert result.modified
    # t is renamed to y1; the second identity to an output must stay
    assert [n.op_type for n in model.graph] == ["Neg", "Identity", "Abs"]
    assert [v.name for v in model.graph.outputs] == ["y1", "y2", "y3"]

    model = ir.serde.deserialize_model(onnx.parser.parse_model(MODELS["nested"]))
    result = passes.IdentityEliminationPass()(model)
    assert result.modified
    if_node = next(n for n in model.graph if n.op_type == "If")
    then_g = if_node.attributes["then_branch"].as_graph()
    else_g = if_node.attributes["else_branch"].as_graph()
    # identity from an outer value to a subgraph output is kept
    assert [n.op_type for n in then_g] == ["Identity"]
    assert [n.op_type for n in else_g] == ["Abs"]

    # Function-only modification is reported
    model = ir.serde.deserialize_model(onnx.parser.parse_model(MODELS["function"]))
    result = passes.IdentityEliminationPass()(model)
    assert result.modified
    (func,) = model.functions.values()
    assert [n.op_type for n in func] == ["Add"]

    # Empty graph: nothing to do
    empty = ir.Model(ir.Graph([], [], nodes=[], opset_imports={"": 20}), ir_version=10)
    result = passes.IdentityEliminationPass()(empty)
    assert not result.modified
    print("ok: structure")


def check_shape_merge_and_rejection() -> None:
    # Shapes are merged: the int dim wins over the symbolic one, a named dim over an unnamed
    x = ir.Value(name="x", shape=ir.Shape(["N", 3]), type=ir.TensorType(ir.DataType.FLOAT))
    neg = ir.node("Neg", [x])
    neg.outputs[0].name = "t"
    neg.outputs[0].shape = ir.Shape([None, "M", None])
    neg.outputs[0].type = None
    ident = ir.node("Identity", [neg.outputs[0]])
    ident.outputs[0].name = "u"
    ident.outputs[0].shape = ir.Shape([2, "K", "Z"])
    ident.outputs[0].type = ir.TensorType(ir.DataType.FLOAT)
    absn = ir.node("Abs", [ident.outputs[0]])
    absn.outputs[0].name = "y"
    graph = ir.Graph([x], [absn.outputs[0]], nodes=[neg, ident, absn], opset_imports={"": 20})
    model = ir.Model(graph, ir_version=10)
    result = passes.IdentityEliminationPass()(model)
    assert result.modified
    t = neg.outputs[0]
    assert t.shape is not None
    assert t.shape[0] == 2
    assert isinstance(t.shape[1], ir.SymbolicDim) and t.shape[1].value == "M"
    assert isinstance(t.shape[2], ir.SymbolicDim) and t.shape[2].value == "Z"
    assert t.type == ir.TensorType(ir.DataType.FLOAT)
    assert absn.inputs[0] is t

    # Rejected call: rank mismatch between the identity input and output
    x = ir.Value(name="x", shape=ir.Shape([2]), type=ir.TensorType(ir.DataType.FLOAT))
    neg = ir.node("Neg", [x])
    neg.outputs[0].name = "t"
    neg.outputs[0].shape = ir.Shape([2])
    ident = ir.node("Identity", [neg.outputs[0]])
    ident.outputs[0].name = "u"
    ident.outputs[0].shape = ir.Shape([2, 3])
    absn = ir.node("Abs", [ident.outputs[0]])
    absn.outputs[0].name = "y"
    graph = ir.Graph([x], [absn.outputs[0]], nodes=[neg, ident, absn], opset_imports={"": 20})
    model = ir.Model(graph, ir_version=10)
    try:
        passes.IdentityEliminationPass()(model)
    except ValueError as e:
        assert type(e) is ValueError
        assert str(e) == "Shapes must have the same rank, got 1 and 2."
    else:
        raise AssertionError("rank mismatch was not rejected")
    # nothing was changed before the rejection
    assert [n.op_type for n in graph] == ["Neg", "Identity", "Abs"]
    assert absn.inputs[0] is ident.outputs[0]
    assert neg.outputs[0].shape == ir.Shape([2])

    # But a kept identity (input -> output) with mismatching ranks is not even looked at
    x = ir.Value(name="x", shape=ir.Shape([2]), type=ir.TensorType(ir.DataType.FLOAT))
    ident = ir.node("Identity", [x])
    ident.outputs[0].name = "y"
    ident.outputs[0].shape = ir.Shape([2, 3])
    graph = ir.Graph([x], [ident.outputs[0]], nodes=[ident], opset_imports={"": 20})
    result = passes.IdentityEliminationPass()(ir.Model(graph, ir_version=10))
    assert not result.modified

    # Malformed identities are skipped: missing input, custom domain
    x = ir.Value(name="x", shape=ir.Shape([2]), type=ir.TensorType(ir.DataType.FLOAT))
    no_input = ir.node("Identity", [None])
    custom = ir.node("Identity", [x], domain="custom")
    absn = ir.node("Abs", [custom.outputs[0]])
    absn.outputs[0].name = "y"
    graph = ir.Graph(
        [x],
        [absn.outputs[0]],
        nodes=[no_input, custom, absn],
        opset_imports={"": 20, "custom": 1},
    )
    result = passes.IdentityEliminationPass()(ir.Model(graph, ir_version=10))
    assert not result.modified
    assert len(graph) == 3
    print("ok: shapes and rejection")


def main() -> int:
    for name, text in MODELS.items():
        check_model(name, text)
    check_expected_structure()
    check_shape_merge_and_rejection()
    print("ALL OK")
    return 0


if __name__ == "__main__":
    sys.exit(main())
