"""Demo for C12: Graph.sort / Function.sort through the public API."""

import itertools
import random

import onnx_ir as ir


def v(name):
    return ir.Value(name=name)


def check_topological(graph, enclosing_ok=True):
    """Every node comes after the same-graph producers of all values used by it or nested in it."""
    position = {node: i for i, node in enumerate(graph)}

    def used_values(node):
        for inp in node.inputs:
            if inp is not None:
                yield inp
        for attr in node.attributes.values():
            if attr.type == ir.AttributeType.GRAPH:
                subs = [attr.value]
            elif attr.type == ir.AttributeType.GRAPHS:
                subs = list(attr.value)
            else:
                continue
            for sub in subs:
                for inner in sub:
                    yield from used_values(inner)

    for node in graph:
        for value in used_values(node):
            producer = value.producer()
            if producer is not None and producer.graph is graph and producer is not node:
                assert position[producer] < position[node], (producer.name, node.name)
        for attr in node.attributes.values():
            if attr.type == ir.AttributeType.GRAPH:
                check_topological(attr.value)
            elif attr.type == ir.AttributeType.GRAPHS:
                for sub in attr.value:
                    check_topological(sub)


def names(graph):
    return [n.name for n in graph]


def build_random(seed, perm_seed):
    """A DAG with optional/repeated inputs, multi-output nodes and a two-level nested subgraph."""
    rng = random.Random(seed)
    x = v("x")
    values = [x]
    nodes = []
    for i in range(rng.randint(3, 9)):
        k = rng.randint(0, 3)
        ins = [rng.choice(values + [None]) for _ in range(k)]
        if ins and rng.random() < 0.4:
            ins.append(ins[0])  # repeated input
        node = ir.Node("", "Op", ins, num_outputs=rng.randint(1, 2), name=f"n{i}")
        nodes.append(node)
        values.extend(node.outputs)
    # innermost subgraph captures values from the outermost graph
    inner_nodes = []
    for i in range(rng.randint(1, 3)):
        pool = values + [o for n in inner_nodes for o in n.outputs]
        inner_nodes.append(
            ir.Node("", "In", [rng.choice(pool), rng.choice(pool)], name=f"i{i}")
        )
    rng2 = random.Random(perm_seed)
    rng2.shuffle(inner_nodes)
    inner = ir.Graph([], [inner_nodes[-1].outputs[0]], nodes=inner_nodes, name="inner")
    mid_a = ir.Node("", "Mid", [rng.choice(values)], name="m0")
    mid_if = ir.Node(
        "", "If", [mid_a.outputs[0]],
        attributes=[ir.AttrGraph("body", inner)], name="m1",
    )
    mid_nodes = [mid_if, mid_a]
    rng2.shuffle(mid_nodes)
    mid = ir.Graph([], [mid_if.outputs[0]], nodes=mid_nodes, name="mid")
    other = ir.Graph([], [], nodes=[ir.Node("", "Z", [rng.choice(values)], name="z0")], name="other")
    outer_if = ir.Node(
        "", "Loop", [rng.choice(values)],
        attributes=[ir.AttrGraphs("branches", [mid, other]), ir.AttrInt64("k", 3)],
        name="loop",
    )
    nodes.append(outer_if)
    rng2.shuffle(nodes)
    graph = ir.Graph([x], [outer_if.outputs[0]], nodes=nodes, name="g")
    return graph, mid, inner, other


def all_orders(graph, mid, inner, other):
    return [names(graph), names(mid), names(inner), names(other)]


# 1. Random DAGs: topological, each graph keeps its own nodes, idempotent, deterministic
for seed in range(40):
    for perm_seed in range(3):
        g, mid, inner, other = build_random(seed, perm_seed)
        before = [sorted(o) for o in all_orders(g, mid, inner, other)]
        g.sort()
        after = all_orders(g, mid, inner, other)
        assert [sorted(o) for o in after] == before
        for sub in (g, mid, inner, other):
            assert all(n.graph is sub for n in sub)
        check_topological(g)
        g.sort()  # already sorted: left exactly as it was
        assert all_orders(g, mid, inner, other) == after
        g2, mid2, inner2, other2 = build_random(seed, perm_seed)  # same structure and order
        g2.sort()
        assert all_orders(g2, mid2, inner2, other2) == after

# 2. Stability: independent nodes keep their relative order; exact expected order
x = v("x")
a = ir.Node("", "A", [x], name="a")
b = ir.Node("", "B", [a.outputs[0], a.outputs[0], None], name="b")
c = ir.Node("", "C", [x], name="c")
d = ir.Node("", "D", [b.outputs[0], c.outputs[0]], name="d")
e = ir.Node("", "E", [], name="e")
g = ir.Graph([x], [d.outputs[0]], nodes=[d, e, c, b, a], name="g")
g.sort()
assert names(g) == ["c", "a", "b", "d", "e"], names(g)
g.remove(list(g))
for perm in itertools.permutations([a, b, c, d, e]):
    gg = ir.Graph([], [], nodes=perm, name="p")
    gg.sort()
    check_topological(gg)
    assert sorted(names(gg)) == ["a", "b", "c", "d", "e"]
    kept = names(gg)
    gg.sort()
    assert names(gg) == kept
    gg.remove(list(gg))

# 3. Cycle: ValueError and no graph changes its order (also the nested one, also a self loop)
x = v("x")
p = ir.Node("", "P", [x, None], name="p")
q = ir.Node("", "Q", [p.outputs[0]], name="q")
p.replace_input_with(1, q.outputs[0])  # p <-> q cycle
s2 = ir.Node("", "S", [x], name="s2")
s1 = ir.Node("", "S", [s2.outputs[0]], name="s1")
sub = ir.Graph([], [s1.outputs[0]], nodes=[s1, s2], name="sub")  # unsorted, acyclic
holder = ir.Node("", "If", [x], attributes=[ir.AttrGraph("then_branch", sub)], name="holder")
r = ir.Node("", "R", [x], name="r")
cyc = ir.Graph([x], [], nodes=[q, holder, p, r], name="cyc")
try:
    cyc.sort()
except ValueError as exc:
    assert "cycle" in str(exc)
else:
    raise AssertionError("cycle not reported")
assert names(cyc) == ["q", "holder", "p", "r"] and names(sub) == ["s1", "s2"]
p.replace_input_with(1, None)  # break the cycle: now everything sorts
cyc.sort()
assert names(cyc) == ["p", "q", "holder", "r"], names(cyc)
assert names(sub) == ["s2", "s1"]
loop = ir.Node("", "L", [None], name="loop")
loop.replace_input_with(0, loop.outputs[0])
lg = ir.Graph([], [], nodes=[ir.Node("", "K", [], name="k"), loop], name="lg")
try:
    lg.sort()
except ValueError:
    pass
else:
    raise AssertionError("self loop not reported")
assert names(lg) == ["k", "loop"]

# 4. Cycle through a nested capture: the inner node uses a value produced after its holder's consumer
x = v("x")
late = ir.Node("", "Late", [None], name="late")
inner_n = ir.Node("", "UseLate", [late.outputs[0]], name="inner_n")
body = ir.Graph([], [inner_n.outputs[0]], nodes=[inner_n], name="body")
hold = ir.Node("", "If", [x], attributes=[ir.AttrGraph("b", body)], name="hold")
late.replace_input_with(0, hold.outputs[0])
gc = ir.Graph([x], [], nodes=[late, hold], name="gc")
try:
    gc.sort()
except ValueError:
    pass
else:
    raise AssertionError("cross-scope cycle not reported")
assert names(gc) == ["late", "hold"] and names(body) == ["inner_n"]

# 5. Empty graph and Function.sort
empty = ir.Graph([], [], nodes=[], name="empty")
empty.sort()
assert len(empty) == 0
x = v("x")
f1 = ir.Node("", "F", [x], name="f1")
f2 = ir.Node("", "F", [f1.outputs[0]], name="f2")
fn = ir.Function("dom", "fn", "", graph=ir.Graph([x], [f2.outputs[0]], nodes=[f2, f1], name="fg"), attributes=[])
fn.sort()
assert names(fn) == ["f1", "f2"]

# 6. Sorting a subgraph alone: producers in the enclosing graph are ignored, outer order untouched
x = v("x")
o2 = ir.Node("", "O", [x], name="o2")
o1 = ir.Node("", "O", [x], name="o1")
t2 = ir.Node("", "T", [o2.outputs[0]], name="t2")
t1 = ir.Node("", "T", [t2.outputs[0], o1.outputs[0]], name="t1")
tb = ir.Graph([], [t1.outputs[0]], nodes=[t1, t2], name="tb")
th = ir.Node("", "If", [x], attributes=[ir.AttrGraph("b", tb)], name="th")
og = ir.Graph([x], [], nodes=[th, o2, o1], name="og")
tb.sort()
assert names(tb) == ["t2", "t1"] and names(og) == ["th", "o2", "o1"]
og.sort()
assert names(og) == ["o2", "o1", "th"], names(og)

print("C12 demo OK")
