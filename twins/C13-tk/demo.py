"""Demo for property C13: clones are faithful and independent of their originals.

Exercises Model/Graph/GraphView/Function.clone and the inliner in the area of
Cloner.clone_attr (reference attributes, subgraph attributes) and
Cloner._remap_device_configurations (sharding annotations).
"""

from __future__ import annotations

import sys

import numpy as np

import onnx_ir as ir
from onnx_ir.passes.common import inliner

FLOAT = ir.TensorType(ir.DataType.FLOAT)


def val(name, dims=(4, 2)):
    return ir.Value(name=name, shape=ir.Shape(list(dims)), type=FLOAT)


def proto_bytes(model: ir.Model) -> bytes:
    return ir.serde.serialize_model(model).SerializeToString(deterministic=True)


def all_graphs(model: ir.Model):
    graphs = [model.graph, *model.graph.subgraphs()]
    for func in model.functions.values():
        graphs.append(func.graph)
        graphs.extend(func.subgraphs())
    return graphs


def objects_of(model: ir.Model):
    """Identity sets of graphs, nodes, values, shapes, types of a model."""
    graphs, nodes, values, shapes, types = set(), set(), set(), set(), set()
    for graph in all_graphs(model):
        graphs.add(id(graph))
        candidates = [*graph.inputs, *graph.initializers.values(), *graph.outputs]
        for node in graph:
            nodes.add(id(node))
            candidates.extend(node.outputs)
        for value in candidates:
            values.add(id(value))
            if value.shape is not None:
                shapes.add(id(value.shape))
            if value.type is not None:
                types.add(id(value.type))
    return graphs, nodes, values, shapes, types


def build_model():
    x = val("x")
    cond = ir.Value(name="cond", shape=ir.Shape([]), type=ir.TensorType(ir.DataType.BOOL))
    w = val("w")
    w.const_value = ir.tensor(np.ones((4, 2), dtype=np.float32), name="w")

    add = ir.Node("", "Add", [x, w], outputs=[val("s")], name="add")
    add.metadata_props["tag"] = "first"
    add.meta["scratch"] = {"k": [1, 2]}

    # Two branches, both capturing the outer value ``s``; the else branch holds a
    # nested If whose branch captures ``s`` two levels up.
    then_node = ir.Node("", "Relu", [add.outputs[0]], outputs=[val("t")], name="then_relu")
    then_graph = ir.Graph([], [then_node.outputs[0]], nodes=[then_node], name="then_g")

    inner_node = ir.Node("", "Neg", [add.outputs[0]], outputs=[val("i")], name="inner_neg")
    inner_graph = ir.Graph([], [inner_node.outputs[0]], nodes=[inner_node], name="inner_g")
    inner_node2 = ir.Node("", "Abs", [add.outputs[0]], outputs=[val("i2")], name="inner_abs")
    inner_graph2 = ir.Graph(
        [], [inner_node2.outputs[0]], nodes=[inner_node2], name="inner_g2"
    )
    nested_if = ir.Node(
        "",
        "If",
        [cond],
        [
            ir.Attr("then_branch", ir.AttributeType.GRAPH, inner_graph),
            ir.Attr("else_branch", ir.AttributeType.GRAPH, inner_graph2),
        ],
        outputs=[val("e")],
        name="nested_if",
    )
    else_graph = ir.Graph([], [nested_if.outputs[0]], nodes=[nested_if], name="else_g")

    if_node = ir.Node(
        "",
        "If",
        [cond],
        [
            ir.Attr("then_branch", ir.AttributeType.GRAPH, then_graph, doc_string="then doc"),
            ir.Attr("else_branch", ir.AttributeType.GRAPH, else_graph),
        ],
        outputs=[val("r")],
        name="if",
    )

    # A node with a GRAPHS attribute (custom domain), one of the graphs empty.
    g_a_in = val("ga_in")
    g_a_node = ir.Node("", "Identity", [g_a_in], outputs=[val("ga_out")], name="ga_id")
    g_a = ir.Graph([g_a_in], [g_a_node.outputs[0]], nodes=[g_a_node], name="ga")
    g_empty = ir.Graph([], [], nodes=[], name="g_empty")
    multi = ir.Node(
        "custom",
        "Multi",
        [if_node.outputs[0], None, if_node.outputs[0]],
        [
            ir.Attr("bodies", ir.AttributeType.GRAPHS, [g_a, g_empty]),
            ir.AttrInt64("k", 3),
            ir.AttrFloat32s("fs", [1.0, 2.0]),
        ],
        outputs=[val("m")],
        name="multi",
    )

    # A function with reference attributes; the call site gives only one of them.
    f_x = val("f_x")
    f_node = ir.Node(
        "",
        "LeakyRelu",
        [f_x],
        [
            ir.RefAttr("alpha", "slope", ir.AttributeType.FLOAT),
            ir.RefAttr("missing_one", "not_given", ir.AttributeType.INT),
        ],
        outputs=[val("f_y")],
        name="f_leaky",
    )
    func_graph = ir.Graph(
        [f_x], [f_node.outputs[0]], nodes=[f_node], name="fg", opset_imports={"": 18}
    )
    func = ir.Function(
        "local",
        "Leaky",
        graph=func_graph,
        attributes=[
            ir.Attr("slope", ir.AttributeType.FLOAT, None),
            ir.Attr("not_given", ir.AttributeType.INT, None),
        ],
    )
    call = ir.Node(
        "local",
        "Leaky",
        [multi.outputs[0]],
        [ir.AttrFloat32("slope", 0.25)],
        outputs=[val("out")],
        name="call",
    )
    call.metadata_props["site"] = "main"

    graph = ir.Graph(
        [x, cond],
        [call.outputs[0]],
        nodes=[add, if_node, multi, call],
        initializers=[w],
        name="main",
        opset_imports={"": 18, "custom": 1, "local": 1},
    )
    graph.metadata_props["gkey"] = "gval"
    model = ir.Model(graph, ir_version=11, functions=[func], producer_name="demo")
    model.metadata_props["mkey"] = "mval"

    # Device annotations: ``add`` is sharded in conf0 (input and output) and only
    # placed (no sharding specs) in conf1; the subgraph node shards a captured value.
    conf0 = model.add_device_configuration("conf0", num_devices=2)
    conf1 = model.add_device_configuration("conf1", num_devices=2)
    add.shard(x, configuration=conf0, axis=0, num_shards=2, device_indices=[0, 1])
    add.shard(add.outputs[0], configuration=conf0, axis=0, num_shards=2)
    add.set_pipeline_stage(conf1, 1)
    then_node.shard(add.outputs[0], configuration=conf0, axis=0, num_shards=2)
    then_node.shard(then_node.outputs[0], configuration=conf1, axis=1, num_shards=2)
    return model


def check(cond, message):
    if not cond:
        print("FAIL:", message)
        sys.exit(1)


def spec_values_point_into(model: ir.Model):
    """Every sharding spec of a node refers to one of that node's own inputs/outputs."""
    for graph in all_graphs(model):
        for node in graph:
            own = {id(v) for v in (*node.inputs, *node.outputs) if v is not None}
            for conf in node.device_configurations:
                for spec in conf.sharding_specs:
                    check(
                        spec.value is None or id(spec.value) in own,
                        f"spec of {node.name} points outside the node",
                    )


def main():
    model = build_model()
    before = proto_bytes(model)

    # ---- Model.clone is faithful and disjoint
    for deep in (False, True):
        clone = model.clone(deep_copy=deep)
        check(proto_bytes(clone) == before, "clone serializes differently")
        check(proto_bytes(model) == before, "cloning changed the original")
        for mine, theirs in zip(objects_of(model), objects_of(clone)):
            check(not (mine & theirs), "clone shares graph/node/value/shape/type objects")
        spec_values_point_into(clone)
        spec_values_point_into(model)
        # The pipeline-only configuration is carried over, the sharded one is re-bound.
        c_add, o_add = clone.graph.node("add"), model.graph.node("add")
        check(len(c_add.device_configurations) == 2, "lost a configuration")
        check(c_add.device_configurations[1] is o_add.device_configurations[1], "conf1")
        check(c_add.device_configurations[0] is not o_add.device_configurations[0], "conf0")
        check(
            [s.value for s in c_add.device_configurations[0].sharding_specs]
            == [c_add.inputs[0], c_add.outputs[0]],
            "sharding specs not re-bound in order",
        )
        # Captured values inside the cloned subgraphs are the clone's.
        c_s = c_add.outputs[0]
        c_if = clone.graph.node("if")
        c_then = c_if.attributes["then_branch"].as_graph()
        check(c_then.node(0).inputs[0] is c_s, "then branch capture")
        check(c_then.node(0).sharding_of(c_s) != (), "then branch sharding of capture")
        c_nested = c_if.attributes["else_branch"].as_graph().node(0)
        check(
            c_nested.attributes["then_branch"].as_graph().node(0).inputs[0] is c_s,
            "nested capture",
        )
        check(c_if.attributes["then_branch"].doc_string == "then doc", "attr doc_string")
        c_multi = clone.graph.node("multi")
        bodies = c_multi.attributes["bodies"].as_graphs()
        check(len(bodies) == 2 and len(bodies[1]) == 0, "GRAPHS attribute")
        check(c_multi.inputs[1] is None and c_multi.inputs[0] is c_multi.inputs[2], "inputs")
        # Meta: shared object when shallow, separate when deep.
        same = c_add.meta["scratch"] is o_add.meta["scratch"]
        check(same != deep, "meta deep_copy flag")
        # Tensors are shared.
        check(
            clone.graph.initializers["w"].const_value is model.graph.initializers["w"].const_value,
            "tensor not shared",
        )
        # Reference attributes in the function body are kept as references.
        c_func = clone.functions[("local", "Leaky", "")]
        c_leaky = c_func[0]
        check(c_leaky.attributes["alpha"].is_ref(), "ref attr became concrete")
        check(c_leaky.attributes["alpha"].ref_attr_name == "slope", "ref attr name")
        check("missing_one" in c_leaky.attributes, "ref attr dropped by plain clone")
        check(list(c_func.attributes) == ["slope", "not_given"], "function attributes")

        # ---- edits of the clone leave the original alone
        c_s.name = "renamed"
        c_s.shape = ir.Shape([8, 8])
        c_s.type = ir.TensorType(ir.DataType.INT64)
        c_add.metadata_props["tag"] = "changed"
        c_add.attributes["extra"] = ir.AttrInt64("extra", 1)
        c_multi.attributes.pop("k")
        c_multi.replace_input_with(0, clone.graph.inputs[0])
        c_then.node(0).replace_input_with(0, clone.graph.inputs[0])
        c_then.node(0).outputs[0].name = "t_renamed"
        bodies[0].node(0).name = "renamed_id"
        clone.graph.metadata_props["gkey"] = "other"
        clone.metadata_props["mkey"] = "other"
        clone.graph.inputs[0].metadata_props["a"] = "b"
        c_leaky.attributes.pop("alpha")
        clone.graph.opset_imports["extra"] = 3
        check(proto_bytes(model) == before, "editing the clone changed the original")
        check(proto_bytes(clone) != before, "edits of the clone had no effect")

    # ---- edits of the original leave an earlier clone alone
    snapshot = model.clone()
    o_add = model.graph.node("add")
    o_add.outputs[0].name = "s2"
    o_add.outputs[0].shape = None
    o_add.device_configurations = ()
    model.graph.node("if").attributes["then_branch"].as_graph().node(0).name = "zzz"
    model.functions[("local", "Leaky", "")][0].attributes.pop("missing_one")
    check(proto_bytes(snapshot) == before, "editing the original changed the clone")
    model = snapshot  # continue with the untouched copy

    # ---- cloning a subgraph on its own: rejected, unless explicitly allowed
    then_graph = model.graph.node("if").attributes["then_branch"].as_graph()
    outer_s = model.graph.node("add").outputs[0]
    try:
        then_graph.clone()
    except Exception as e:  # RuntimeError chain that ends in the ValueError
        chain, cur = [], e
        while cur is not None:
            chain.append(cur)
            cur = cur.__cause__
        check(isinstance(chain[-1], ValueError), f"unexpected root cause {chain[-1]!r}")
        check("outer-scope" in str(chain[-1]), "unclear error")
        check(all(isinstance(c, RuntimeError) for c in chain[:-1]), "wrapper types")
    else:
        check(False, "outer-scope capture was not rejected")
    check(proto_bytes(model) == before, "rejected clone changed the original")
    allowed = then_graph.clone(allow_outer_scope_values=True)
    a_node = allowed.node(0)
    check(a_node is not then_graph.node(0), "node shared")
    check(a_node.inputs[0] is outer_s, "outer value must be shared when allowed")
    specs0 = a_node.device_configurations[0].sharding_specs
    check(specs0[0].value is outer_s, "spec on outer-scope value must be kept as is")
    check(
        a_node.device_configurations[0] is then_graph.node(0).device_configurations[0],
        "configuration without any mapped value is carried over unchanged",
    )
    check(
        a_node.device_configurations[1].sharding_specs[0].value is a_node.outputs[0],
        "spec on own output re-bound",
    )
    a_node.replace_input_with(0, None)
    check(proto_bytes(model) == before, "editing the allowed clone changed the original")
    check(outer_s.uses() and all(u.node is not a_node for u in outer_s.uses()), "uses")

    # Nested rejected case: the capture sits two levels below the cloned graph.
    # (A view with ``cond`` as input, so that only the deep capture of ``s`` is foreign and
    # the error travels clone_graph > clone_node > clone_attr > clone_graph > clone_node.)
    else_graph = model.graph.node("if").attributes["else_branch"].as_graph()
    nested_if = else_graph.node(0)
    nested_view = ir.GraphView(
        [model.graph.inputs[1]], [nested_if.outputs[0]], nodes=[nested_if], name="nested_view"
    )
    try:
        nested_view.clone()
    except RuntimeError as e:
        check("In clone_graph with args" in str(e), "outermost context")
        cur = e
        depth = 0
        while cur.__cause__ is not None:
            cur = cur.__cause__
            depth += 1
        check(isinstance(cur, ValueError), "nested root cause")
        check("::Neg(" in str(cur) and "'main'" in str(cur), "error does not name the node")
        check(depth == 5, f"expected a nested error context, depth={depth}")
        check(
            "In clone_attr with args ('then_branch'," in str(e.__cause__.__cause__),
            "clone_attr context",
        )
        check("kwargs {'deep_copy': False}" in str(e.__cause__.__cause__), "attr kwargs")
    else:
        check(False, "nested capture was not rejected")
    deep_allowed = else_graph.clone(allow_outer_scope_values=True)
    check(
        deep_allowed.node(0).attributes["else_branch"].as_graph().node(0).inputs[0] is outer_s,
        "nested allowed capture",
    )

    # ---- GraphView and Function clones
    view = ir.GraphView(
        [outer_s],
        [then_graph.node(0).outputs[0]],
        nodes=[then_graph.node(0)],
        name="view",
    )
    v_clone = view.clone()
    check(isinstance(v_clone, ir.Graph), "view clone type")
    check(v_clone.inputs[0] is not outer_s, "view input cloned")
    check(v_clone.node(0).inputs[0] is v_clone.inputs[0], "view wiring")
    check(v_clone.node(0).sharding_of(v_clone.inputs[0]) != (), "view sharding re-bound")
    check(outer_s.producer() is model.graph.node("add"), "view clone detached producer")
    empty = ir.Graph([], [], nodes=[], name="nothing").clone()
    check(len(empty) == 0 and empty.name == "nothing", "empty graph clone")

    func = model.functions[("local", "Leaky", "")]
    f_clone = func.clone()
    check(f_clone.graph is not func.graph and f_clone[0] is not func[0], "function clone")
    check(f_clone.identifier() == func.identifier(), "function id")
    f_clone[0].attributes["alpha"] = ir.AttrFloat32("alpha", 9.0)
    check(func[0].attributes["alpha"].is_ref(), "function clone edit leaked")
    check(proto_bytes(model) == before, "function/view clones changed the original")

    # ---- inliner: reference attributes are substituted or dropped
    work = model.clone()
    inliner.InlinePass()(work)
    check(proto_bytes(model) == before, "inlining the clone changed the original")
    check(len(work.functions) == 0, "function not removed")
    leaky = [n for n in work.graph if n.op_type == "LeakyRelu"]
    check(len(leaky) == 1, "call not inlined")
    alpha = leaky[0].attributes["alpha"]
    check(not alpha.is_ref() and alpha.as_float() == 0.25, "ref attr not substituted")
    check(alpha.name == "alpha", "substituted attr name")
    check("missing_one" not in leaky[0].attributes, "optional ref attr not dropped")
    check(leaky[0].metadata_props.get("site") == "main", "call-site metadata")
    check(leaky[0].inputs[0] is work.graph.node("multi").outputs[0], "inlined wiring")

    print("OK")


if __name__ == "__main__":
    main()
