"""Round trip of model-local functions: ONNX proto -> IR -> proto (property C02).

Exercises deserialize_model / deserialize_function / serialize_function(_into) through
the public API, with overloads, reference attributes, attributes without defaults,
function value info (IR >= 10 and the IR 9 experimental format), nested subgraphs
capturing function inputs, an empty function, duplicates and a rejected proto.
"""

from __future__ import annotations

import sys

import onnx
from onnx import TensorProto, helper

import onnx_ir as ir
from onnx_ir import serde


def check(cond: bool, what: str) -> None:
    if not cond:
        print("FAIL:", what)
        sys.exit(1)


def sorted_entries(entries):
    return sorted(entries, key=lambda e: e.SerializeToString(deterministic=True))


def assert_function_equal(a: onnx.FunctionProto, b: onnx.FunctionProto, what: str) -> None:
    """Field-by-field equality up to the documented reordering of map-like fields."""
    a = onnx.FunctionProto.FromString(a.SerializeToString())
    b = onnx.FunctionProto.FromString(b.SerializeToString())
    for proto in (a, b):
        for field in ("opset_import", "value_info", "metadata_props"):
            entries = sorted_entries(getattr(proto, field))
            del getattr(proto, field)[:]
            getattr(proto, field).extend(entries)
    check(a == b, f"{what}: function protos differ:\n{a}\n-----\n{b}")


def tensor_vi(name, elem=TensorProto.FLOAT, shape=("N", 3)):
    return helper.make_tensor_value_info(name, elem, shape)


def make_function(overload: str, *, with_value_info: bool) -> onnx.FunctionProto:
    # Body: a node with a reference attribute, a node with a subgraph capturing a
    # function input, and a node whose trailing output is kept because it is named.
    then_graph = helper.make_graph(
        [helper.make_node("Add", ["x", "x"], ["then_out"], name="inner_add")],
        "then_branch",
        [],
        [tensor_vi("then_out")],
    )
    else_graph = helper.make_graph(
        [helper.make_node("Identity", ["scaled"], ["else_out"], name="inner_id")],
        "else_branch",
        [],
        [tensor_vi("else_out")],
    )
    scale = helper.make_node("Mul", ["x", "x"], ["scaled"], name="scale")
    leaky = helper.make_node("LeakyRelu", ["scaled"], ["act"], name="leaky")
    ref = leaky.attribute.add()
    ref.name = "alpha"
    ref.ref_attr_name = "alpha"
    ref.type = onnx.AttributeProto.FLOAT
    ref.doc_string = "reference to the function attribute"
    cond = helper.make_node(
        "If", ["flag"], ["y"], name="branch", then_branch=then_graph, else_branch=else_graph
    )
    cond.metadata_props.add(key="origin", value="demo")
    func = onnx.FunctionProto()
    func.name = "Fancy"
    func.domain = "demo.domain"
    if overload:
        func.overload = overload
    func.doc_string = "a function with an overload" if overload else "plain function"
    func.input.extend(["x", "flag"])
    func.output.extend(["y", "act"])
    func.attribute.extend(["alpha"])
    func.attribute_proto.append(helper.make_attribute("beta", [1, 2, 3], doc_string="ints"))
    func.attribute_proto.append(helper.make_attribute("gamma", "text"))
    func.node.extend([scale, leaky, cond])
    func.opset_import.add(domain="", version=20)
    func.opset_import.add(domain="demo.other", version=2)
    func.metadata_props.add(key="b", value="2")
    func.metadata_props.add(key="a", value="1")
    if with_value_info:
        func.value_info.append(tensor_vi("x"))
        func.value_info.append(tensor_vi("scaled"))
        vi = tensor_vi("act", TensorProto.FLOAT, ("N", None))
        vi.doc_string = "activation"
        vi.metadata_props.add(key="k", value="v")
        func.value_info.append(vi)
    return func


def make_model(ir_version: int, functions, graph_value_info=()) -> onnx.ModelProto:
    call = helper.make_node(
        "Fancy", ["a", "c"], ["b", "b2"], domain="demo.domain", name="call", alpha=0.5
    )
    if functions and functions[0].overload:
        call.overload = functions[0].overload
    graph = helper.make_graph(
        [call],
        "main",
        [tensor_vi("a"), helper.make_tensor_value_info("c", TensorProto.BOOL, [])],
        [tensor_vi("b"), tensor_vi("b2")],
        value_info=list(graph_value_info),
    )
    model = helper.make_model(
        graph,
        opset_imports=[helper.make_opsetid("", 20), helper.make_opsetid("demo.domain", 1)],
        ir_version=ir_version,
    )
    model.functions.extend(functions)
    return model


def main() -> None:
    # 1. Single functions, with and without overload, with value info (IR 10 format)
    for overload in ("", "v2"):
        func = make_function(overload, with_value_info=True)
        ir_func = serde.deserialize_function(func)
        check(isinstance(ir_func, ir.Function), "deserialize_function returns a Function")
        check(ir_func.overload == overload, "overload kept")
        expected_graph_name = f"Fancy_demo.domain__{overload}" if overload else ""
        check(
            (ir_func.graph.name or "") == expected_graph_name,
            f"function graph name {ir_func.graph.name!r} != {expected_graph_name!r}",
        )
        assert_function_equal(serde.serialize_function(ir_func), func, f"overload={overload!r}")
        assert_function_equal(ir.to_proto(ir.from_proto(func)), func, "from_proto/to_proto")
        # create_value_info=False drops exactly the value info
        stripped = onnx.FunctionProto()
        stripped.CopyFrom(func)
        del stripped.value_info[:]
        assert_function_equal(
            serde.serialize_function(ir_func, create_value_info=False),
            stripped,
            "create_value_info=False",
        )
        # Serializing twice gives the same result (no state is consumed)
        assert_function_equal(
            serde.serialize_function(ir_func), serde.serialize_function(ir_func), "repeat"
        )

    # 2. Unusual: an empty function (no inputs, outputs, nodes, attributes, opsets)
    empty = onnx.FunctionProto()
    empty.name = "Empty"
    empty.domain = "demo.domain"
    ir_empty = serde.deserialize_function(empty)
    check(len(ir_empty.inputs) == 0 and len(ir_empty.outputs) == 0, "empty function")
    assert_function_equal(serde.serialize_function(ir_empty), empty, "empty function")

    # 3. Unusual: unnamed trailing and middle outputs, value info for an unnamed output is skipped
    odd = onnx.FunctionProto()
    odd.name = "Odd"
    odd.domain = "demo.domain"
    odd.overload = "o"
    odd.input.extend(["x"])
    odd.output.extend(["v"])
    odd.node.append(helper.make_node("Split", ["x"], ["", "v", ""], name="split"))
    odd.opset_import.add(domain="", version=20)
    odd.value_info.append(tensor_vi("v"))
    expected_odd = onnx.FunctionProto()
    expected_odd.CopyFrom(odd)
    del expected_odd.node[0].output[2:]  # documented normalisation: trailing unnamed trimmed
    assert_function_equal(
        serde.serialize_function(serde.deserialize_function(odd)), expected_odd, "odd outputs"
    )

    # 4. Whole models: two overloads of the same function plus a different function, IR 10..13
    for ir_version in (10, 11, 13):
        functions = [
            make_function("v1", with_value_info=True),
            make_function("v2", with_value_info=True),
            make_function("", with_value_info=False),
        ]
        model = make_model(ir_version, functions)
        ir_model = ir.from_proto(model)
        check(
            list(ir_model.functions)
            == [
                ("demo.domain", "Fancy", "v1"),
                ("demo.domain", "Fancy", "v2"),
                ("demo.domain", "Fancy", ""),
            ],
            "function identifiers and order kept",
        )
        out = ir.to_proto(ir_model)
        check(out.ir_version == ir_version, "ir_version kept")
        check(len(out.functions) == 3, "no function lost or duplicated")
        for got, want in zip(out.functions, functions):
            assert_function_equal(got, want, f"model function ir_version={ir_version}")
        check(
            [n.SerializeToString() for n in out.graph.node]
            == [n.SerializeToString() for n in model.graph.node],
            "main graph nodes kept",
        )

    # 5. IR 9: value info of functions lives in the main graph under composite names
    func9 = make_function("", with_value_info=False)
    composite = []
    for name in ("x", "scaled", "act"):
        vi = tensor_vi(f"demo.domain::Fancy/{name}")
        composite.append(vi)
    model9 = make_model(9, [func9], graph_value_info=composite)
    ir_model9 = ir.from_proto(model9)
    ir_func9 = ir_model9.functions[("demo.domain", "Fancy", "")]
    check(ir_func9.inputs[0].type is not None, "IR9 composite value info reaches function input")
    out9 = ir.to_proto(ir_model9)
    check(len(out9.functions[0].value_info) == 0, "IR9 has no function value info")
    assert_function_equal(out9.functions[0], func9, "IR9 function")
    got_names = sorted(v.name for v in out9.graph.value_info)
    check(
        got_names == sorted(v.name for v in composite),
        f"IR9 composite value info round trips: {got_names}",
    )
    for got in out9.graph.value_info:
        want = next(v for v in composite if v.name == got.name)
        check(got == want, f"IR9 composite value info {got.name} altered")

    # 6. Unusual: duplicate function input names; the last Value wins in name lookup,
    # both names are still serialized
    dup = onnx.FunctionProto()
    dup.name = "Dup"
    dup.domain = "demo.domain"
    dup.input.extend(["x", "x"])
    dup.output.extend(["y"])
    dup.node.append(helper.make_node("Neg", ["x"], ["y"], name="neg"))
    dup.opset_import.add(domain="", version=20)
    ir_dup = serde.deserialize_function(dup)
    check(ir_dup[0].inputs[0] is ir_dup.inputs[1], "duplicate input: last declaration is used")
    assert_function_equal(serde.serialize_function(ir_dup), dup, "duplicate inputs")

    # 7. Rejected: a function output that nothing produces
    bad = onnx.FunctionProto()
    bad.name = "Bad"
    bad.domain = "demo.domain"
    bad.overload = "ov"
    bad.input.extend(["x"])
    bad.output.extend(["missing"])
    bad.node.append(helper.make_node("Neg", ["x"], ["y"]))
    try:
        serde.deserialize_function(bad)
    except serde.SerdeError as e:
        check(isinstance(e.__cause__, KeyError), f"cause is KeyError, got {e.__cause__!r}")
        check("deserialize_function" in str(e) and "Bad" in str(e), f"message: {e}")
    else:
        check(False, "function with a dangling output must be rejected")
    # ... and a model containing it is rejected the same way
    try:
        ir.from_proto(make_model(10, [bad]))
    except serde.SerdeError as e:
        check(isinstance(e.__cause__, KeyError), "model: cause is KeyError")
    else:
        check(False, "model with a bad function must be rejected")

    print("OK")


if __name__ == "__main__":
    main()
