"""Demo for C09: concurrent external-data writing is schedule-independent, bounded and live.

Exercises onnx_ir.external_data.convert_tensors_to_external and
onnx_ir.external_data.unload_from_model (sharded) with instrumented tensors.
Exits 0 when every check passes.
"""

from __future__ import annotations

import os
import random
import sys
import tempfile
import threading
import time

import numpy as np

import onnx_ir as ir
from onnx_ir import external_data

STATE_LOCK = threading.Lock()


class Monitor:
    def __init__(self) -> None:
        self.in_flight = 0
        self.peak = 0
        self.evaluations = 0
        self.active_total = 0
        self.violations: list[str] = []


class Probe:
    """A TensorProtocol-like tensor whose materialisation is observable."""

    def __init__(self, name, nbytes, monitor, seed, fail=False):
        rng = np.random.default_rng(seed)
        self._data = rng.integers(0, 256, size=nbytes, dtype=np.uint8)
        self.name = name
        self.dtype = ir.DataType.UINT8
        self.shape = ir.Shape([nbytes])
        self.size = nbytes
        self.nbytes = nbytes
        self.doc_string = None
        self.metadata_props = {}
        self.meta = {}
        self._monitor = monitor
        self._active = 0
        self._fail = fail
        self.uses = 0

    def numpy(self):
        return self._data

    def __array__(self, dtype=None, copy=None):
        return self._data

    def tobytes(self):
        return self._data.tobytes()

    def tofile(self, file):
        m = self._monitor
        with STATE_LOCK:
            self._active += 1
            self.uses += 1
            m.evaluations += 1
            m.active_total += 1
            if self._active != 1:
                m.violations.append(f"{self.name}: evaluated by {self._active} threads at once")
            m.in_flight += self.nbytes
            m.peak = max(m.peak, m.in_flight)
        try:
            time.sleep(random.random() * 0.002)
            if self._fail:
                raise RuntimeError(f"boom:{self.name}")
            file.write(self._data.tobytes())
        finally:
            with STATE_LOCK:
                self._active -= 1
                m.active_total -= 1
                m.in_flight -= self.nbytes


class CallbackRecorder:
    def __init__(self) -> None:
        self.calls: list[tuple[str, int, int]] = []
        self._inside = 0
        self.violations: list[str] = []

    def __call__(self, tensor, info) -> None:
        with STATE_LOCK:
            self._inside += 1
            if self._inside != 1:
                self.violations.append("callback entered by two threads")
        time.sleep(random.random() * 0.001)
        self.calls.append((tensor.name, info.index, info.offset))
        assert info.total >= 1 and 0 <= info.index < info.total
        with STATE_LOCK:
            self._inside -= 1


def make_tensors(monitor, sizes, fail_at=()):
    tensors = [
        Probe(f"t{i}", n, monitor, seed=i, fail=(i in fail_at)) for i, n in enumerate(sizes)
    ]
    # The same tensor object is used by several initializers (duplicates).
    tensors.insert(3, tensors[1])
    tensors.append(tensors[1])
    tensors.append(tensors[0])
    return tensors


SIZES = [700, 3000, 0, 64, 2500, 1, 999, 4100, 128, 2048, 17, 5000]


def read(path):
    with open(path, "rb") as f:
        return f.read()


def check(cond, message):
    if not cond:
        print("FAIL:", message)
        sys.exit(1)


def single_file_runs(root):
    monitor = Monitor()
    serial_dir = os.path.join(root, "serial")
    os.makedirs(serial_dir)
    serial_tensors = make_tensors(monitor, SIZES)
    serial_result = external_data.convert_tensors_to_external(
        serial_tensors, serial_dir, "w.data"
    )
    expected = read(os.path.join(serial_dir, "w.data"))
    check(len(expected) == sum(t.nbytes for t in serial_tensors), "dense serial layout")

    run = 0
    for workers in (1, 2, 3, 8):
        for budget in (1, 64, 1000, 2600, 1 << 30):
            for alignment in (None, 4096):
                run += 1
                random.seed(run)
                monitor = Monitor()
                tensors = make_tensors(monitor, SIZES)
                recorder = CallbackRecorder()
                out = os.path.join(root, f"run{run}")
                os.makedirs(out)
                kwargs = dict(alignment=alignment, align_threshold=2000)
                result = external_data.convert_tensors_to_external(
                    tensors,
                    out,
                    "w.data",
                    callback=recorder,
                    max_workers=workers,
                    max_in_flight_bytes=budget,
                    **kwargs,
                )
                if alignment is None:
                    reference = expected
                    ref_result = serial_result
                else:
                    ref_dir = os.path.join(root, f"ref{run}")
                    os.makedirs(ref_dir)
                    ref_result = external_data.convert_tensors_to_external(
                        make_tensors(Monitor(), SIZES), ref_dir, "w.data", **kwargs
                    )
                    reference = read(os.path.join(ref_dir, "w.data"))
                tag = f"workers={workers} budget={budget} alignment={alignment}"
                check(read(os.path.join(out, "w.data")) == reference, f"bytes differ: {tag}")
                check(os.listdir(out) == ["w.data"], f"stray files: {tag}")
                check(
                    [(t.name, t.offset, t.length) for t in result]
                    == [(t.name, t.offset, t.length) for t in ref_result],
                    f"layout differs: {tag}",
                )
                check(len(recorder.calls) == len(tensors), f"callback count: {tag}")
                check(
                    sorted(c[1] for c in recorder.calls) == list(range(len(tensors))),
                    f"callback indices: {tag}",
                )
                check(not recorder.violations, f"{recorder.violations}: {tag}")
                check(not monitor.violations, f"{monitor.violations}: {tag}")
                check(monitor.evaluations == len(tensors), f"evaluations: {tag}")
                check(tensors[1].uses == 3 and tensors[0].uses == 2, f"shared uses: {tag}")
                if workers > 1:
                    check(
                        monitor.peak <= budget + max(SIZES),
                        f"peak {monitor.peak} > {budget}+{max(SIZES)}: {tag}",
                    )
                check(monitor.in_flight == 0 and monitor.active_total == 0, f"leftover: {tag}")
    return run


def failing_runs(root):
    for n, (workers, budget) in enumerate([(2, 64), (4, 1000), (8, 1 << 30), (1, 64)]):
        random.seed(100 + n)
        monitor = Monitor()
        tensors = make_tensors(monitor, SIZES, fail_at=(4, 7))
        recorder = CallbackRecorder()
        out = os.path.join(root, f"fail{n}")
        os.makedirs(out)
        with open(os.path.join(out, "w.data"), "wb") as f:
            f.write(b"previous contents")
        try:
            external_data.convert_tensors_to_external(
                tensors,
                out,
                "w.data",
                callback=recorder,
                max_workers=workers,
                max_in_flight_bytes=budget,
            )
        except RuntimeError as e:
            check(str(e).startswith("boom:t"), f"unexpected message {e}")
            with STATE_LOCK:
                active_now = monitor.active_total
                evaluations_now = monitor.evaluations
        else:
            check(False, "failing tensor did not raise")
        check(active_now == 0, "a worker was still running when the exception arrived")
        time.sleep(0.05)
        check(monitor.evaluations == evaluations_now, "a worker started after the exception")
        check(monitor.in_flight == 0, "in-flight bytes left after failure")
        check(not monitor.violations and not recorder.violations, "violations under failure")
        check(len(recorder.calls) <= len(tensors), "callback called too often under failure")
        check(os.listdir(out) == ["w.data"], "temporary files left behind")
        check(read(os.path.join(out, "w.data")) == b"previous contents", "destination touched")


def rejected_and_empty(root):
    out = os.path.join(root, "rejected")
    os.makedirs(out)
    monitor = Monitor()
    tensors = make_tensors(monitor, SIZES)
    for bad in (dict(max_workers=0), dict(max_workers=-2), dict(max_in_flight_bytes=0)):
        try:
            external_data.convert_tensors_to_external(tensors, out, "w.data", **bad)
        except ValueError:
            pass
        else:
            check(False, f"{bad} accepted")
    check(os.listdir(out) == [] and monitor.evaluations == 0, "rejected call had effects")

    # Empty input and a single tensor with many workers: both take the serial writer.
    for workers in (None, 4):
        d = os.path.join(root, f"empty{workers}")
        os.makedirs(d)
        check(
            external_data.convert_tensors_to_external([], d, "e.data", max_workers=workers)
            == [],
            "empty result",
        )
        check(read(os.path.join(d, "e.data")) == b"", "empty file")
        one = Probe("only", 300, monitor, seed=5)
        external_data.convert_tensors_to_external(
            [one], d, "one.data", max_workers=workers, max_in_flight_bytes=1
        )
        check(read(os.path.join(d, "one.data")) == one.tobytes(), "single tensor bytes")

    # Only empty tensors, written concurrently: preallocated size is zero.
    d = os.path.join(root, "zeros")
    os.makedirs(d)
    zeros = [Probe(f"z{i}", 0, monitor, seed=i) for i in range(3)]
    external_data.convert_tensors_to_external(zeros, d, "z.data", max_workers=3)
    check(read(os.path.join(d, "z.data")) == b"", "zero-size tensors")


def build_model(monitor, fail_at=()):
    tensors = make_tensors(monitor, SIZES, fail_at=fail_at)
    values = []
    for i, tensor in enumerate(tensors):
        values.append(
            ir.Value(
                name=f"init{i}",
                shape=tensor.shape,
                type=ir.TensorType(tensor.dtype),
                const_value=tensor,
            )
        )
    graph = ir.Graph(inputs=[], outputs=[], nodes=[], initializers=values, name="g")
    return ir.Model(graph, ir_version=10), tensors


def sharded_runs(root):
    ref_dir = os.path.join(root, "shard_ref")
    os.makedirs(ref_dir)
    model, _ = build_model(Monitor())
    external_data.unload_from_model(model, ref_dir, "m.data", max_shard_size_bytes=6000)
    reference = {name: read(os.path.join(ref_dir, name)) for name in sorted(os.listdir(ref_dir))}
    check(len(reference) > 2, "expected several shards")

    for n, (workers, budget) in enumerate([(2, 1), (3, 1000), (8, 2600), (16, 1 << 30)]):
        random.seed(200 + n)
        monitor = Monitor()
        model, tensors = build_model(monitor)
        recorder = CallbackRecorder()
        out = os.path.join(root, f"shard{n}")
        os.makedirs(out)
        external_data.unload_from_model(
            model,
            out,
            "m.data",
            max_shard_size_bytes=6000,
            callback=recorder,
            max_workers=workers,
            max_in_flight_bytes=budget,
        )
        tag = f"sharded workers={workers} budget={budget}"
        got = {name: read(os.path.join(out, name)) for name in sorted(os.listdir(out))}
        check(got == reference, f"shard bytes differ: {tag}")
        nonempty = [t for t in tensors if t.nbytes > 0]
        check(len(recorder.calls) == len(nonempty), f"callback count: {tag}")
        check(
            sorted(c[1] for c in recorder.calls) == list(range(len(nonempty))),
            f"callback indices: {tag}",
        )
        check(not recorder.violations and not monitor.violations, f"violations: {tag}")
        check(monitor.peak <= budget + max(SIZES), f"peak {monitor.peak}: {tag}")
        check(monitor.in_flight == 0 and monitor.active_total == 0, f"leftover: {tag}")

    # A failing tensor in a sharded concurrent save.
    monitor = Monitor()
    model, tensors = build_model(monitor, fail_at=(7,))
    out = os.path.join(root, "shard_fail")
    os.makedirs(out)
    try:
        external_data.unload_from_model(
            model, out, "m.data", max_shard_size_bytes=6000, max_workers=6, max_in_flight_bytes=500
        )
    except RuntimeError as e:
        check(str(e) == "boom:t7", "sharded failure message")
        with STATE_LOCK:
            active_now = monitor.active_total
            evaluations_now = monitor.evaluations
    else:
        check(False, "sharded failure did not raise")
    check(active_now == 0, "sharded: worker alive when the exception arrived")
    time.sleep(0.05)
    check(monitor.evaluations == evaluations_now, "sharded: worker started after exception")
    check(monitor.in_flight == 0, "sharded: in-flight bytes left")
    check(not any(name.startswith(".") for name in os.listdir(out)), "sharded: temp left")

    # Sharded writes refuse to overwrite an existing shard (rejected call).
    monitor = Monitor()
    model, _ = build_model(monitor)
    try:
        external_data.unload_from_model(
            model, ref_dir, "m.data", max_shard_size_bytes=6000, max_workers=4
        )
    except FileExistsError:
        pass
    else:
        check(False, "existing shard overwritten")
    check(monitor.evaluations == 0, "rejected sharded call evaluated tensors")


def main() -> None:
    with tempfile.TemporaryDirectory() as root:
        runs = single_file_runs(root)
        failing_runs(root)
        rejected_and_empty(root)
        sharded_runs(root)
    print(f"OK ({runs} single-file configurations, failures, rejected/empty inputs, shards)")


if __name__ == "__main__":
    main()
