"""Demo for C17: graph-input and model-level deserialization terminates with an error or a consistent IR."""
import builtins
import os
import sys

import onnx
from onnx import TensorProto, helper

import onnx_ir as ir
from onnx_ir import serde

# --- no file access allowed during the whole demo --------------------------------------
_real_open = builtins.open
_real_os_open = os.open


def _no_open(path, *a, **k):
    if isinstance(path, (str, bytes, os.PathLike)) and str(os.fspath(path)).endswith((".bin", ".data", ".weights")):
        raise AssertionError(f"file access: {path}")
    return _real_open(path, *a, **k)


builtins.open = _no_open


def check_consistent(graph: ir.Graph) -> None:
    for value in graph.inputs:
        assert value.graph is graph and value.is_graph_input()
        assert value.producer() is None
    for node in graph:
        assert node.graph is graph
        for i, inp in enumerate(node.inputs):
            if inp is not None:
                assert (node, i) in [(u.node, u.idx) for u in inp.uses()]
        for i, out in enumerate(node.outputs):
            assert out.producer() is node and out.index() == i
        for attr in node.attributes.values():
            if attr.type == ir.AttributeType.GRAPH:
                check_consistent(attr.value)


def roundtrip_fixpoint(model: ir.Model) -> None:
    p1 = serde.serialize_model(model)
    p2 = serde.serialize_model(serde.deserialize_model(p1))
    assert p1.SerializeToString(deterministic=True) == p2.SerializeToString(deterministic=True)


def make_model(graph: onnx.GraphProto, ir_version: int = 10) -> onnx.ModelProto:
    m = helper.make_model(graph, opset_imports=[helper.make_opsetid("", 18)])
    m.ir_version = ir_version
    return m


# 1. Ordinary graph with typed inputs, a quantization annotation on an input and a subgraph
then_g = helper.make_graph(
    [helper.make_node("Add", ["x", "x"], ["t"])], "then", [],
    [helper.make_tensor_value_info("t", TensorProto.FLOAT, [2])],
)
else_g = helper.make_graph(
    [helper.make_node("Identity", ["y"], ["e"])], "else", [],
    [helper.make_tensor_value_info("e", TensorProto.FLOAT, [2])],
)
g = helper.make_graph(
    [helper.make_node("If", ["c"], ["r"], then_branch=then_g, else_branch=else_g)],
    "main",
    [
        helper.make_tensor_value_info("c", TensorProto.BOOL, []),
        helper.make_tensor_value_info("x", TensorProto.FLOAT, [2]),
        helper.make_tensor_value_info("y", TensorProto.FLOAT, ["N"]),
    ],
    [helper.make_tensor_value_info("r", TensorProto.FLOAT, [2])],
)
ann = g.quantization_annotation.add()
ann.tensor_name = "x"
kv = ann.quant_parameter_tensor_names.add()
kv.key, kv.value = "SCALE_TENSOR", "x_scale"
model = serde.deserialize_model(make_model(g))
check_consistent(model.graph)
assert [v.name for v in model.graph.inputs] == ["c", "x", "y"]
assert model.graph.inputs[1].meta["quant_parameter_tensor_names"] == {"SCALE_TENSOR": "x_scale"}
assert "quant_parameter_tensor_names" not in model.graph.inputs[0].meta
assert model.graph.inputs[2].shape is not None and model.graph.inputs[2].shape[0].value == "N"
assert model.device_configurations == ()
assert len(model.functions) == 0
roundtrip_fixpoint(model)

# 2. Unusual: duplicated and empty input names, an input without a type, annotation on the duplicate
g2 = helper.make_graph(
    [helper.make_node("Add", ["a", ""], ["s"]), helper.make_node("Neg", ["a"], ["n"])],
    "dups",
    [
        helper.make_tensor_value_info("a", TensorProto.FLOAT, [1]),
        helper.make_tensor_value_info("a", TensorProto.INT64, [3]),
        onnx.ValueInfoProto(name=""),
        onnx.ValueInfoProto(name="untyped"),
    ],
    [helper.make_tensor_value_info("s", TensorProto.FLOAT, [1])],
)
ann = g2.quantization_annotation.add()
ann.tensor_name = "a"
kv = ann.quant_parameter_tensor_names.add()
kv.key, kv.value = "ZERO_POINT_TENSOR", "zp"
try:
    m2 = serde.deserialize_model(make_model(g2))
except Exception as e:  # terminating with an error is allowed
    print("dups rejected:", type(e).__name__)
else:
    ins = m2.graph.inputs
    assert len(ins) == 4 and [v.name for v in ins] == ["a", "a", "", "untyped"]
    assert ins[0] is not ins[1]
    assert ins[0].dtype == ir.DataType.FLOAT and ins[1].dtype == ir.DataType.INT64
    # both duplicates receive the annotation; the name resolves to the last one
    assert all("quant_parameter_tensor_names" in v.meta for v in ins[:2])
    assert ins[3].type is None and ins[3].shape is None
    users = [u.node.op_type for u in ins[1].uses()]
    assert sorted(users) == ["Add", "Neg"] and not ins[0].uses()
    for node in m2.graph:
        for i, inp in enumerate(node.inputs):
            if inp is not None:
                assert (node, i) in [(u.node, u.idx) for u in inp.uses()]
    try:
        roundtrip_fixpoint(m2)
    except Exception as e:
        print("dups serialize rejected:", type(e).__name__)

# 3. Rejected: the second input has a map type -> SerdeError chained from SerdeError
g3 = helper.make_graph([], "bad", [helper.make_tensor_value_info("ok", TensorProto.FLOAT, [1])], [])
bad = g3.input.add()
bad.name = "m"
bad.type.map_type.key_type = TensorProto.INT64
bad.type.map_type.value_type.tensor_type.elem_type = TensorProto.FLOAT
try:
    serde.deserialize_graph(g3)
except serde.SerdeError as e:
    assert "_deserialize_graph" in str(e) and str(e).endswith("bad")
    assert isinstance(e.__cause__, serde.SerdeError)
    assert "deserialize_value_info_proto" in str(e.__cause__)
    chain = e
    while chain.__cause__ is not None:
        chain = chain.__cause__
    assert isinstance(chain, NotImplementedError)
else:
    raise AssertionError("map-typed input must be rejected")

# 4. Empty graph / empty model
empty = serde.deserialize_model(onnx.ModelProto())
assert len(empty.graph.inputs) == 0 and len(empty.graph) == 0 and empty.device_configurations == ()
assert empty.producer_name is None and len(empty.functions) == 0
roundtrip_fixpoint(empty)

# 5. Model-level: functions (incl. a duplicate id) and device configurations
f = helper.make_function("dom", "F", ["p"], ["q"], [helper.make_node("Relu", ["p"], ["q"])],
                         [helper.make_opsetid("", 18)])
g5 = helper.make_graph(
    [helper.make_node("F", ["i"], ["o"], domain="dom")], "withfunc",
    [helper.make_tensor_value_info("i", TensorProto.FLOAT, [1])],
    [helper.make_tensor_value_info("o", TensorProto.FLOAT, [1])],
)
m5p = make_model(g5, ir_version=11 if hasattr(onnx.ModelProto(), "configuration") else 10)
m5p.opset_import.append(helper.make_opsetid("dom", 1))
m5p.functions.extend([f, f])
if hasattr(m5p, "configuration"):
    for name in ("cfg", "cfg", ""):
        c = m5p.configuration.add()
        c.name = name
        c.num_devices = 2
m5 = serde.deserialize_model(m5p)
check_consistent(m5.graph)
assert list(m5.functions) == [("dom", "F", "")]
if hasattr(m5p, "configuration"):
    assert [c.name for c in m5.device_configurations] == ["cfg", "cfg", ""]
    assert isinstance(m5.device_configurations, tuple)
roundtrip_fixpoint(m5)

# a function with a dangling output is rejected at model level with SerdeError
fbad = helper.make_function("dom", "G", ["p"], ["nowhere"], [], [helper.make_opsetid("", 18)])
m6p = make_model(g5)
m6p.functions.extend([fbad])
try:
    serde.deserialize_model(m6p)
except serde.SerdeError as e:
    assert "deserialize_function" in str(e) and isinstance(e.__cause__, KeyError)
else:
    raise AssertionError("dangling function output must be rejected")

# 6. Input backed by an external initializer with an absurd location: no file access on inspection
g7 = helper.make_graph([], "ext", [helper.make_tensor_value_info("w", TensorProto.FLOAT, [2])], [])
t = g7.initializer.add()
t.name, t.data_type, t.data_location = "w", TensorProto.FLOAT, TensorProto.EXTERNAL
t.dims.append(2)
for k, v in (("location", "../../nonexistent/\x00weird.bin"), ("offset", "0"), ("length", "8")):
    e = t.external_data.add()
    e.key, e.value = k, v
g7m = serde.deserialize_graph(g7)
w = g7m.inputs[0]
assert w.const_value is not None and w.is_initializer() and w.is_graph_input()
assert (w.const_value.name, w.const_value.dtype, list(w.const_value.shape), w.const_value.size) == (
    "w", ir.DataType.FLOAT, [2], 2)

print("OK")
sys.exit(0)
