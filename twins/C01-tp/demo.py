"""Demo for C01: use-def and ownership links stay consistent under every edit history.

Exercises, through the public API only, the two places touched by the refactoring:
  * renaming values that are graph initializers (Value.name setter), including rejected renames;
  * the node sequence of a graph (append / insert_before / insert_after / remove / move),
    including rejected calls, duplicates, nodes of other graphs, nested subgraphs, empty inputs.
After every call (whether it returned or raised) both directions of every link are compared.
"""

from __future__ import annotations

import sys

import numpy as np

import onnx_ir as ir


class Universe:
    """Everything that was ever created, so that stale links would be noticed as well."""

    def __init__(self) -> None:
        self.graphs: list[ir.Graph] = []
        self.nodes: list[ir.Node] = []
        self.values: list[ir.Value] = []

    def value(self, name=None, const=False) -> ir.Value:
        v = ir.Value(name=name)
        if const:
            v.const_value = ir.tensor(np.array([1.0], dtype=np.float32), name=name)
        self.values.append(v)
        return v

    def node(self, op, inputs, **kwargs) -> ir.Node:
        n = ir.Node("", op, inputs, **kwargs)
        self.nodes.append(n)
        for o in n.outputs:
            if not any(o is v for v in self.values):
                self.values.append(o)
        return n

    def graph(self, inputs, outputs, nodes, initializers=(), name=None) -> ir.Graph:
        g = ir.Graph(inputs, outputs, nodes=nodes, initializers=initializers, name=name)
        self.graphs.append(g)
        return g


def count_identical(seq, item) -> int:
    return sum(1 for x in seq if x is item)


def check(u: Universe, where: str) -> None:
    def fail(msg: str) -> None:
        raise AssertionError(f"[{where}] {msg}")

    # all values reachable too
    values = list(u.values)
    for n in u.nodes:
        for v in list(n.inputs) + list(n.outputs):
            if v is not None and not any(v is w for w in values):
                values.append(v)
    for g in u.graphs:
        for v in list(g.inputs) + list(g.outputs) + list(g.initializers.values()):
            if not any(v is w for w in values):
                values.append(v)

    # 1. uses <-> inputs
    for n in u.nodes:
        for i, v in enumerate(n.inputs):
            if v is None:
                continue
            if sum(1 for (m, j) in v.uses() if m is n and j == i) != 1:
                fail(f"{n.name}.inputs[{i}] is {v.name} but the value does not list that use once")
    for v in values:
        uses = list(v.uses())
        for m, j in uses:
            if not (0 <= j < len(m.inputs)) or m.inputs[j] is not v:
                fail(f"value {v.name} lists use ({m.name}, {j}) that the node does not hold")
        if len({(id(m), j) for m, j in uses}) != len(uses):
            fail(f"value {v.name} lists a use twice")

    # 2. outputs <-> producer
    for n in u.nodes:
        for i, o in enumerate(n.outputs):
            if o.producer() is not n or o.index() != i:
                fail(f"output {i} of {n.name} names producer {o.producer()} / index {o.index()}")
    for v in values:
        p = v.producer()
        if p is not None:
            if v.index() is None or not (0 <= v.index() < len(p.outputs)) or p.outputs[v.index()] is not v:
                fail(f"value {v.name} names producer {p.name} that does not hold it")

    # 3. node.graph <-> node sequence
    for g in u.graphs:
        members = list(g)
        if len(members) != len(g):
            fail(f"len(graph {g.name}) disagrees with iteration")
        if list(reversed(g)) != members[::-1]:
            fail(f"reverse iteration of graph {g.name} disagrees")
        for n in members:
            if n.graph is not g:
                fail(f"graph {g.name} contains {n.name} whose graph is {n.graph}")
            if count_identical(members, n) != 1:
                fail(f"graph {g.name} contains {n.name} more than once")
    for n in u.nodes:
        if n.graph is not None:
            if not any(n.graph is g for g in u.graphs):
                fail(f"node {n.name} names an unknown graph")
            if count_identical(list(n.graph), n) != 1:
                fail(f"node {n.name} names graph {n.graph.name} which does not contain it once")

    # 4. value flags <-> graph collections
    for v in values:
        in_inputs = [g for g in u.graphs if count_identical(g.inputs, v)]
        in_outputs = [g for g in u.graphs if count_identical(g.outputs, v)]
        in_inits = [g for g in u.graphs if count_identical(g.initializers.values(), v)]
        if v.is_graph_input() != bool(in_inputs):
            fail(f"value {v.name}: is_graph_input={v.is_graph_input()} but in inputs of {len(in_inputs)} graphs")
        if v.is_graph_output() != bool(in_outputs):
            fail(f"value {v.name}: is_graph_output={v.is_graph_output()} but in outputs of {len(in_outputs)} graphs")
        if v.is_initializer() != bool(in_inits):
            fail(f"value {v.name}: is_initializer={v.is_initializer()} but in initializers of {len(in_inits)} graphs")
        owners = in_inputs + in_outputs + in_inits
        for g in owners:
            if v.graph is not g:
                fail(f"value {v.name} is in a collection of {g.name} but reports graph {v.graph}")
        if (in_inputs or in_inits) and v.producer() is not None:
            fail(f"value {v.name} is an input/initializer but has a producer")
    for g in u.graphs:
        for key, v in g.initializers.items():
            if v.name != key:
                fail(f"graph {g.name}: initializer stored under {key!r} is named {v.name!r}")
        for key in g.initializers:
            if g.initializers[key].const_value is not None and g.initializers[key].const_value.name != key:
                fail(f"graph {g.name}: tensor of initializer {key!r} is named {g.initializers[key].const_value.name!r}")


STEP = [0]


def attempt(u: Universe, label: str, fn, expect=None):
    """Run fn; it must raise `expect` (an exception type) or return when expect is None."""
    STEP[0] += 1
    where = f"{STEP[0]}:{label}"
    raised = None
    try:
        fn()
    except Exception as e:  # noqa: BLE001
        raised = e
    if expect is None and raised is not None:
        raise AssertionError(f"[{where}] unexpected {type(raised).__name__}: {raised}")
    if expect is not None and not isinstance(raised, expect):
        raise AssertionError(f"[{where}] expected {expect.__name__}, got {raised!r}")
    if expect is not None and type(raised) is not expect:
        raise AssertionError(f"[{where}] expected exactly {expect.__name__}, got {type(raised).__name__}")
    check(u, where)
    return raised


def setattr_name(v, name):
    def run():
        v.name = name

    return run


def main() -> int:
    u = Universe()

    # ---------------------------------------------------------------- graph A
    x = u.value("x")
    w = u.value("w", const=True)
    b = u.value("b", const=True)
    # `t` is at once graph input, graph output (twice) and initializer
    t = u.value("t", const=True)
    n1 = u.node("Add", [x, w], name="n1")
    n2 = u.node("Mul", [n1.outputs[0], n1.outputs[0]], name="n2")  # same value twice
    n3 = u.node("Opt", [None, b, None], name="n3", num_outputs=2)  # empty inputs
    n0 = u.node("Zero", [], name="n0")  # no inputs at all
    ga = u.graph(
        [x, t],
        [n2.outputs[0], t, t],
        nodes=[n1, n2, n3, n0],
        initializers=[w, b, t],
        name="A",
    )
    check(u, "built A")

    # ---------------------------------------------------------------- graph B with nested subgraph
    y = u.value("y")
    c = u.value("c", const=True)
    inner_in = u.value("inner_in")
    inner_c = u.value("c", const=True)  # same name as an initializer of the outer graph
    m1 = u.node("Relu", [inner_in], name="m1")
    m2 = u.node("Add", [m1.outputs[0], y], name="m2")  # uses an outer-scope value
    sub = u.graph([inner_in], [m2.outputs[0]], nodes=[m1, m2], initializers=[inner_c], name="sub")
    k1 = u.node("If", [y], name="k1", attributes=[ir.AttrGraph("then_branch", sub)])
    k2 = u.node("Add", [k1.outputs[0], c], name="k2")
    gb = u.graph([y], [k2.outputs[0]], nodes=[k1, k2], initializers=[c], name="B")
    check(u, "built B")

    # ================================================================ renaming initializers
    attempt(u, "rename w -> w2", setattr_name(w, "w2"))
    assert "w2" in ga.initializers and "w" not in ga.initializers
    assert ga.initializers["w2"] is w and w.const_value.name == "w2"
    attempt(u, "rename w2 -> w2 (no-op)", setattr_name(w, "w2"))
    attempt(u, "rename w2 -> b (taken)", setattr_name(w, "b"), ValueError)
    assert w.name == "w2" and w.const_value.name == "w2" and ga.initializers["b"] is b
    attempt(u, "rename w2 -> None", setattr_name(w, None), ValueError)
    attempt(u, "rename w2 -> ''", setattr_name(w, ""), ValueError)
    assert w.name == "w2" and list(ga.initializers) == ["b", "t", "w2"], list(ga.initializers)
    attempt(u, "rename w2 -> [] (unhashable)", setattr_name(w, []), TypeError)
    assert w.name == "w2" and w.const_value.name == "w2"
    # input + output (twice) + initializer at once
    attempt(u, "rename t -> t2", setattr_name(t, "t2"))
    assert ga.initializers["t2"] is t and t.is_graph_input() and t.is_graph_output()
    assert ga.inputs[1] is t and ga.outputs[1] is t and ga.outputs[2] is t
    attempt(u, "rename t2 -> x (an input name, not an initializer)", setattr_name(t, "x"))
    attempt(u, "rename t -> t", setattr_name(t, "t"))
    # initializer without a backing tensor
    b.const_value = None
    attempt(u, "rename b (no tensor) -> b2", setattr_name(b, "b2"))
    assert ga.initializers["b2"] is b and "b" not in ga.initializers
    attempt(u, "rename w2 -> b (now free)", setattr_name(w, "b"))
    assert ga.initializers["b"] is w
    # same name in outer graph and in subgraph: independent dictionaries
    attempt(u, "rename inner c -> d", setattr_name(inner_c, "d"))
    assert sub.initializers["d"] is inner_c and gb.initializers["c"] is c
    attempt(u, "rename outer c -> d", setattr_name(c, "d"))
    assert gb.initializers["d"] is c and sub.initializers["d"] is inner_c
    # values that are not initializers can take any name, even None / '' / a taken one
    attempt(u, "rename x -> None", setattr_name(x, None))
    attempt(u, "rename x -> ''", setattr_name(x, ""))
    attempt(u, "rename x -> b", setattr_name(x, "b"))
    attempt(u, "rename n1 output -> b", setattr_name(n1.outputs[0], "b"))
    assert ga.initializers["b"] is w
    # remove from the initializers, then a rename is free again, then put it back
    popped = []
    attempt(u, "pop b2", lambda: popped.append(ga.initializers.pop("b2")))
    assert popped == [b] and not b.is_initializer() and b.graph is None
    attempt(u, "rename popped b2 -> None", setattr_name(b, None))
    attempt(u, "add unnamed under key", lambda: ga.initializers.__setitem__("bb", b))
    assert b.name == "bb" and b.is_initializer()
    attempt(u, "key mismatch", lambda: ga.initializers.__setitem__("zz", b), ValueError)
    attempt(u, "initializer of other graph", lambda: gb.initializers.add(b), ValueError)
    attempt(u, "register_initializer other object same name",
            lambda: ga.register_initializer(u.value("bb", const=True)), ValueError)
    attempt(u, "rename after failures bb -> b3", setattr_name(b, "b3"))
    assert list(ga.initializers) == ["t", "b", "b3"], list(ga.initializers)

    # ================================================================ node sequence edits
    loose = u.node("Loose", [x], name="loose")
    attempt(u, "remove node not in graph", lambda: ga.remove(loose), ValueError)
    attempt(u, "insert_after with foreign anchor", lambda: ga.insert_after(k1, [loose]), ValueError)
    assert loose.graph is None
    attempt(u, "insert_before with loose anchor", lambda: ga.insert_before(loose, [n1]), ValueError)
    attempt(u, "insert_after: one of the new nodes is foreign",
            lambda: ga.insert_after(n1, [loose, k2]), ValueError)
    assert loose.graph is None and [n.name for n in ga] == ["n1", "n2", "n3", "n0"]
    attempt(u, "insert_after duplicates", lambda: ga.insert_after(n1, [loose, loose]))
    assert [n.name for n in ga] == ["n1", "loose", "n2", "n3", "n0"]
    attempt(u, "move n0 before n1", lambda: ga.insert_before(n1, n0))
    assert [n.name for n in ga] == ["n0", "n1", "loose", "n2", "n3"]
    attempt(u, "insert node after itself", lambda: ga.insert_after(n2, n2))
    attempt(u, "insert node before itself", lambda: ga.insert_before(n2, [n2]))
    assert [n.name for n in ga] == ["n0", "n1", "loose", "n2", "n3"]
    attempt(u, "insert the anchor and others after the anchor",
            lambda: ga.insert_after(n1, [n3, n1, n0]))
    assert len(ga) == 5 and sorted(n.name for n in ga) == ["loose", "n0", "n1", "n2", "n3"]
    attempt(u, "insert empty", lambda: ga.insert_before(n1, []))
    attempt(u, "append existing (moves to the end)", lambda: ga.append(n1))
    assert ga[-1] is n1
    attempt(u, "append foreign", lambda: ga.append(m1), ValueError)
    attempt(u, "extend with foreign in the middle", lambda: ga.extend([n0, m1, n2]), ValueError)
    attempt(u, "remove twice in one call", lambda: ga.remove([loose, loose]))
    assert loose.graph is None and len(ga) == 4
    attempt(u, "remove again", lambda: ga.remove(loose), ValueError)
    attempt(u, "remove set with a foreign node", lambda: ga.remove([n0, k1]), ValueError)
    assert n0.graph is ga and k1.graph is gb
    attempt(u, "safe remove of a used node", lambda: ga.remove(n1, safe=True), ValueError)
    attempt(u, "safe remove of an output producer", lambda: ga.remove(n2, safe=True), ValueError)
    attempt(u, "safe remove n3", lambda: ga.remove(n3, safe=True))
    assert n3.graph is None and n3.inputs == (None, None, None) and not b.uses()
    attempt(u, "None into the sequence", lambda: ga.append(None), AttributeError)
    # nested: move a node from the subgraph to the outer graph and back
    attempt(u, "outer takes sub's node directly", lambda: gb.insert_before(k1, m1), ValueError)
    attempt(u, "remove m1 from sub", lambda: sub.remove(m1))
    attempt(u, "outer takes m1", lambda: gb.insert_before(k1, m1))
    assert [n.name for n in gb] == ["m1", "k1", "k2"] and [n.name for n in sub] == ["m2"]
    attempt(u, "sub takes m1 back while outer has it", lambda: sub.insert_before(m2, m1), ValueError)
    attempt(u, "Node.prepend on a loose node", lambda: loose.prepend(n3), ValueError)
    attempt(u, "Node.append", lambda: k2.append([loose, n3]))
    assert [n.name for n in gb] == ["m1", "k1", "k2", "loose", "n3"]
    # removal during iteration keeps going from the original position
    seen = []
    for n in gb:
        seen.append(n.name)
        if n is k2:
            gb.remove([loose])
    assert seen == ["m1", "k1", "k2", "n3"], seen
    check(u, "after iteration with removal")
    # renames still work after all of that, in both graphs
    attempt(u, "rename d -> c (outer)", setattr_name(c, "c"))
    attempt(u, "rename t -> w (free name)", setattr_name(t, "w"))
    assert ga.initializers["w"] is t and gb.initializers["c"] is c

    print(f"demo OK: {STEP[0]} calls checked")
    return 0


if __name__ == "__main__":
    sys.exit(main())
