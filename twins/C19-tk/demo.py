"""Demo for C19: device annotations follow identity and never dangle.

Exercises the library's device-configuration check and the placeholder
resolution done when a model is deserialized (IR version 11).
"""
import dataclasses

import onnx_ir as ir
from onnx_ir import _multi_device, serde

check = _multi_device._check_device_configurations


def build():
    x = ir.Value(name="x", shape=ir.Shape([4, 8]), type=ir.TensorType(ir.DataType.FLOAT))
    w = ir.Value(name="w", type=ir.TensorType(ir.DataType.FLOAT))  # unknown rank
    n1 = ir.Node("", "Add", [x, w], name="n1")
    n1.outputs[0].name = "y"
    n1.outputs[0].shape = ir.Shape([4, 8])
    n1.outputs[0].type = ir.TensorType(ir.DataType.FLOAT)
    n2 = ir.Node("", "Relu", [n1.outputs[0]], name="n2")
    n2.outputs[0].name = "z"
    n2.outputs[0].shape = ir.Shape([4, 8])
    n2.outputs[0].type = ir.TensorType(ir.DataType.FLOAT)
    g = ir.Graph([x, w], [n2.outputs[0]], nodes=[n1, n2], opset_imports={"": 21}, name="g")
    m = ir.Model(g, ir_version=11)
    return m, x, w, n1, n2


def annotated(model):
    return {
        n.name: n.device_configurations
        for n in model.graph.all_nodes()
        if n.device_configurations
    }


# ---- 1. annotate, rename, round trip -------------------------------------
m, x, w, n1, n2 = build()
tp = m.add_device_configuration("tp", device_names=("d0", "d1"))
pp = m.add_device_configuration("pp", num_devices=4)
n1.shard(x, configuration=tp, axis=-1, num_shards=2, device_indices=(0, 1))
n1.shard(x, configuration=tp, axis=0, num_shards=2, pipeline_stage=1)
n1.shard(w, configuration=tp, axis=5, num_shards=2)  # unknown rank: accepted
n1.set_pipeline_stage(pp, 3)
n2.set_pipeline_stage(pp, 0)
assert check(m) == [], check(m)

# rejected calls leave the annotations as they were
before = n1.device_configurations
for kwargs in (
    dict(value=x, configuration=tp, axis=1, num_shards=2),  # same axis as -1
    dict(value=x, configuration=tp, axis=2, num_shards=2),  # out of range
    dict(value=x, configuration=pp, axis=0, num_shards=0),  # no shard
    dict(value=x, configuration=tp, axis=-2, num_shards=2, pipeline_stage=2),  # repeated + stage
    dict(value=n2.outputs[0], configuration=tp, axis=0, num_shards=2),  # foreign value
):
    value = kwargs.pop("value")
    try:
        n1.shard(value, **kwargs)
    except ValueError:
        pass
    else:
        raise AssertionError(f"accepted {kwargs}")
    assert n1.device_configurations is before
try:
    n1.set_pipeline_stage(pp, -1)
except ValueError:
    pass
else:
    raise AssertionError("negative stage accepted")
assert n1.device_configurations is before

x.name = "x_renamed"
proto = serde.serialize_model(m)
names = [s.tensor_name for c in proto.graph.node[0].device_configurations for s in c.sharding_spec]
assert names == ["x_renamed", "w"], names
assert [c.configuration_id for c in proto.graph.node[0].device_configurations] == ["tp", "pp"]

m2 = serde.deserialize_model(proto)
assert check(m2) == [], check(m2)
assert [c.name for c in m2.device_configurations] == ["tp", "pp"]
by_name = {c.name: c for c in m2.device_configurations}
for node in m2.graph.all_nodes():
    io = list(node.inputs) + list(node.outputs)
    for nc in node.device_configurations:
        assert nc.configuration is by_name[nc.configuration.name]  # resolved by identity
        for spec in nc.sharding_specs:
            assert any(spec.value is v for v in io)
r1 = m2.graph.node("n1")
assert [c.pipeline_stage for c in r1.device_configurations] == [1, 3]
assert [d.axis for d in r1.device_configurations[0].sharding_specs[0].sharded_dims] == [-1, 0]
assert serde.serialize_model(m2).SerializeToString() == proto.SerializeToString()

# ---- 2. dangling / imposter / nameless references: exact messages --------
m, x, w, n1, n2 = build()
tp = m.add_device_configuration("tp", num_devices=2)
imposter = _multi_device.ModelConfiguration("tp", num_devices=8)
ghost = _multi_device.ModelConfiguration("ghost", num_devices=1)
nameless = _multi_device.ModelConfiguration("", num_devices=1)
spec = lambda v, dev: _multi_device.ShardingSpec(value=v, device=dev)
n1.device_configurations = (
    _multi_device.NodeDeviceConfiguration(configuration=None, sharding_specs=(spec(x, (7,)),)),
    _multi_device.NodeDeviceConfiguration(configuration=imposter, sharding_specs=(spec(x, (5,)),)),
    _multi_device.NodeDeviceConfiguration(configuration=ghost, sharding_specs=(spec(x, (1,)),)),
    _multi_device.NodeDeviceConfiguration(configuration=nameless, sharding_specs=(spec(x, (1,)),)),
    _multi_device.NodeDeviceConfiguration(configuration=tp, sharding_specs=(spec(x, (1, 2)),)),
)
n2.device_configurations = ()  # empty input: skipped
expected = [
    "Node 'n1' has a device configuration without a ModelConfiguration reference.",
    "Node 'n1' references a configuration object that is not the one registered under "
    "name 'tp' on the model.",
    # imposter says 8 devices, the registered object says 2: the registered one wins
    "Node 'n1': device index 5 for value 'x' is out of range (num_devices=2).",
    "Node 'n1' references configuration 'ghost' which is not declared in "
    "model.device_configurations.",
    "Node 'n1': device index 1 for value 'x' is out of range (num_devices=1).",
    "Node 'n1' references a configuration with an empty name (cannot be serialized).",
    "Node 'n1': device index 1 for value 'x' is out of range (num_devices=1).",
    "Node 'n1': device index 2 for value 'x' is out of range (num_devices=2).",
]
assert check(m) == expected, check(m)

# a registered configuration with an empty name is still reported as nameless
m.device_configurations = (*m.device_configurations, nameless)
assert check(m) == expected, check(m)
m.device_configurations = (tp,)

# ---- 3. deserialization: placeholders resolved, dangling ones kept -------
n1.device_configurations = (
    _multi_device.NodeDeviceConfiguration(configuration=tp, pipeline_stage=0),
    _multi_device.NodeDeviceConfiguration(configuration=ghost, pipeline_stage=1),
    _multi_device.NodeDeviceConfiguration(configuration=None, pipeline_stage=2),
)
n2.device_configurations = (
    _multi_device.NodeDeviceConfiguration(configuration=ghost, pipeline_stage=5),
)
try:
    serde.serialize_model(m)
except serde.SerdeError:
    pass  # a reference without configuration cannot be written
else:
    raise AssertionError("serialized a configuration-less annotation")
n1.device_configurations = n1.device_configurations[:2]
proto = serde.serialize_model(m)
m3 = serde.deserialize_model(proto)
d1, d2 = m3.graph.node("n1"), m3.graph.node("n2")
assert d1.device_configurations[0].configuration is m3.device_configurations[0]
assert d1.device_configurations[1].configuration == _multi_device.ModelConfiguration("ghost", 0)
assert d2.device_configurations[0].configuration == _multi_device.ModelConfiguration("ghost", 0)
assert [c.pipeline_stage for c in d1.device_configurations] == [0, 1]
assert check(m3) == [
    "Node 'n1' references configuration 'ghost' which is not declared in "
    "model.device_configurations.",
    "Node 'n2' references configuration 'ghost' which is not declared in "
    "model.device_configurations.",
]
assert serde.serialize_model(m3).SerializeToString() == proto.SerializeToString()

# resolving again changes nothing and does not even rebind the tuples
t1, t2 = d1.device_configurations, d2.device_configurations
serde._resolve_node_device_configurations(m3)
assert d1.device_configurations is t1 and d2.device_configurations is t2

# no registered configuration at all: every placeholder is kept
proto_none = serde.serialize_model(m)
del proto_none.configuration[:]
m4 = serde.deserialize_model(proto_none)
assert m4.device_configurations == ()
assert [c.configuration.num_devices for c in m4.graph.node("n1").device_configurations] == [0, 0]

# duplicate configuration names in the file: the last one wins, as a dict does
proto_dup = serde.serialize_model(m)
extra = proto_dup.configuration.add()
extra.name = "tp"
extra.num_devices = 6
m5 = serde.deserialize_model(proto_dup)
assert m5.graph.node("n1").device_configurations[0].configuration is m5.device_configurations[1]

# ---- 4. cascade removal and clone -----------------------------------------
m, x, w, n1, n2 = build()
tp = m.add_device_configuration("tp", num_devices=2)
pp = m.add_device_configuration("pp", num_devices=2)
n1.shard(x, configuration=tp, axis=0, num_shards=2)
n1.set_pipeline_stage(pp, 1)
n2.shard(n2.outputs[0], configuration=pp, axis=1, num_shards=2, device_indices=(0, 1))
c = m.clone()
assert check(c) == [] and check(m) == []
removed = m.remove_device_configuration("tp", cascade=True)
assert removed is tp and check(m) == []
assert [nc.configuration for nc in n1.device_configurations] == [pp]
try:
    m.remove_device_configuration(tp)
except ValueError:
    pass
else:
    raise AssertionError("removed twice")
m.remove_device_configuration(pp)  # no cascade: references dangle and are reported
assert check(m) == [
    "Node 'n1' references configuration 'pp' which is not declared in model.device_configurations.",
    "Node 'n2' references configuration 'pp' which is not declared in model.device_configurations.",
]
assert check(c) == []  # the clone still has both configurations

# replacing an input drops the annotation on it
n1c = c.graph.node("n1")
old = n1c.inputs[0]
assert len(n1c.sharding_of(old)) == 1
n1c.replace_input_with(0, n1c.inputs[1])
assert n1c.sharding_of(old) == () and check(c) == []

print("C19 demo OK")
