"""Demo for C10: external tensor reads never escape the model directory."""

import io
import os
import sys
import tempfile

import numpy as np
import onnx

import onnx_ir as ir

failures = []


def check(cond, msg):
    if not cond:
        failures.append(msg)
        print("FAIL:", msg)


def make(location, base_dir, n=4):
    return ir.ExternalTensor(
        location,
        offset=0,
        length=n * 4,
        dtype=ir.DataType.FLOAT,
        shape=ir.Shape([n]),
        name="w",
        base_dir=base_dir,
    )


def readers():
    return {
        "numpy": lambda t: t.numpy(),
        "tobytes": lambda t: t.tobytes(),
        "array": lambda t: np.asarray(t),
        "tofile": lambda t: t.tofile(io.BytesIO()),
        "serialize": lambda t: ir.serde.serialize_tensor(ir.Tensor(t.numpy(), name="x")),
    }


def must_reject(location, base_dir, what):
    for name, read in readers().items():
        t = make(location, base_dir)
        try:
            read(t)
        except ValueError:
            check(t.raw is None, f"{what}/{name}: something was mapped despite rejection")
        else:
            check(False, f"{what}/{name}: read was not rejected")


def must_accept(location, base_dir, expected, what):
    for name, read in readers().items():
        t = make(location, base_dir)
        try:
            read(t)
            check(t.tobytes() == expected, f"{what}/{name}: wrong bytes")
        except Exception as e:  # noqa: BLE001
            check(False, f"{what}/{name}: unexpected {type(e).__name__}: {e}")
        finally:
            t.release()


with tempfile.TemporaryDirectory() as root:
    root = os.path.realpath(root)
    base = os.path.join(root, "model")
    sibling = os.path.join(root, "model_evil")
    os.makedirs(os.path.join(base, "sub"))
    os.makedirs(sibling)
    good = np.arange(4, dtype=np.float32)
    secret = np.full(4, 7.0, dtype=np.float32)
    with open(os.path.join(base, "w.bin"), "wb") as f:
        f.write(good.tobytes())
    with open(os.path.join(base, "sub", "w2.bin"), "wb") as f:
        f.write(good.tobytes())
    for p in (os.path.join(root, "secret.bin"), os.path.join(sibling, "secret.bin")):
        with open(p, "wb") as f:
            f.write(secret.tobytes())
    # symlinks: inside->inside, inside->outside, directory -> outside
    os.symlink(os.path.join(base, "w.bin"), os.path.join(base, "link_in.bin"))
    os.symlink(os.path.join(root, "secret.bin"), os.path.join(base, "link_out.bin"))
    os.symlink(sibling, os.path.join(base, "dir_out"))
    # hard link of an outside file, and a hard-linked inside file
    os.link(os.path.join(sibling, "secret.bin"), os.path.join(base, "hard.bin"))
    with open(os.path.join(base, "twice.bin"), "wb") as f:
        f.write(good.tobytes())
    os.link(os.path.join(base, "twice.bin"), os.path.join(base, "twice2.bin"))
    # base directory reached through a symlink
    os.symlink(base, os.path.join(root, "base_link"))

    gb = good.tobytes()
    bases = {
        "abs": base,
        "trailing": base + os.sep,
        "symlinked": os.path.join(root, "base_link"),
        "nonnormal": os.path.join(root, "model", "sub", "..", "."),
    }
    for bname, b in bases.items():
        must_accept("w.bin", b, gb, f"{bname}:plain")
        must_accept("./sub/../w.bin", b, gb, f"{bname}:non-normalised")
        must_accept("sub//w2.bin", b, gb, f"{bname}:nested")
        must_accept("link_in.bin", b, gb, f"{bname}:symlink-inside")
        must_reject("../secret.bin", b, f"{bname}:parent")
        must_reject("sub/../../secret.bin", b, f"{bname}:deep-parent")
        must_reject(os.path.join(root, "secret.bin"), b, f"{bname}:absolute")
        must_reject("../model_evil/secret.bin", b, f"{bname}:prefix-sibling")
        must_reject("link_out.bin", b, f"{bname}:symlink-out")
        must_reject("dir_out/secret.bin", b, f"{bname}:symlinked-dir")
        must_reject("hard.bin", b, f"{bname}:hardlink-outside")
        must_reject("twice.bin", b, f"{bname}:hardlink-inside")
        must_reject("twice2.bin", b, f"{bname}:hardlink-inside-2")

    # relative base directory
    cwd = os.getcwd()
    os.chdir(root)
    try:
        must_accept("w.bin", "model", gb, "rel:plain")
        must_reject("../secret.bin", "model", "rel:parent")
        must_reject("hard.bin", "model", "rel:hardlink")
        must_reject("../model_evil/secret.bin", "model", "rel:prefix-sibling")
    finally:
        os.chdir(cwd)

    # Unusual: empty tensor (nothing is mapped) is still checked
    for loc in ("../secret.bin", "hard.bin", "link_out.bin"):
        t = make(loc, base, n=0)
        for name in ("numpy", "tobytes", "tofile"):
            try:
                readers()[name](t)
            except ValueError:
                pass
            else:
                check(False, f"empty:{loc}/{name}: not rejected")
    t = make("w.bin", base, n=0)
    check(t.tobytes() == b"" and t.numpy().size == 0, "empty:good")

    # Unusual: file that does not exist: passes the checks, the open fails
    t = make("absent.bin", base)
    try:
        t.numpy()
    except FileNotFoundError:
        check(t.raw is None, "absent: raw set")
    except Exception as e:  # noqa: BLE001
        check(False, f"absent: unexpected {type(e).__name__}")
    else:
        check(False, "absent: no error")

    # base_dir setter: moving the base drops the mapping and forces a re-check
    with open(os.path.join(sibling, "only_there.bin"), "wb") as f:
        f.write(secret.tobytes())
    t = make("only_there.bin", sibling)
    check(t.tobytes() == secret.tobytes(), "setter: read from sibling")
    old_raw = t.raw
    check(old_raw is not None, "setter: raw mapped")
    t.base_dir = sibling  # same spelling: mapping kept
    check(t.raw is old_raw, "setter: same dir kept mapping")
    t.base_dir = base  # relocated: mapping forgotten but not closed
    check(t.raw is None and t._array is None, "setter: mapping dropped")
    check(not old_raw.closed, "setter: old mapping must not be closed")
    try:
        t.numpy()
    except FileNotFoundError:
        pass
    else:
        check(False, "setter: only_there.bin is not in base")
    check(t.base_dir == base, "setter: value stored")
    old_raw.close()
    # a hard link appearing after the first load is caught after a move away and back
    t = make("w.bin", base)
    check(t.tobytes() == gb, "late-hardlink: first read")
    os.link(os.path.join(base, "w.bin"), os.path.join(root, "w_alias.bin"))
    mapped = t.raw
    t.base_dir = base + os.sep  # different spelling => re-check
    for name, read in readers().items():
        try:
            read(t)
        except ValueError:
            pass
        else:
            check(False, f"late-hardlink/{name}: not rejected")
    mapped.close()
    os.unlink(os.path.join(root, "w_alias.bin"))
    check(t.tobytes() == gb, "late-hardlink: readable again once singly linked")
    t.release()
    # a non path-like base raises before anything changes
    t = make("w.bin", base)
    try:
        t.base_dir = 3  # type: ignore[assignment]
    except TypeError:
        check(t.base_dir == base, "setter: base kept on TypeError")
    else:
        check(False, "setter: TypeError expected")

    # release() closes the mapping
    t = make("w.bin", base)
    t.numpy()
    raw = t.raw
    t.release()
    check(raw.closed and t.raw is None, "release closes")

    # A model loaded from a file gets its directory as base, whatever the spelling
    def save_model(directory, location):
        tp = onnx.TensorProto()
        tp.name = "w"
        tp.data_type = onnx.TensorProto.FLOAT
        tp.dims.extend([4])
        tp.data_location = onnx.TensorProto.EXTERNAL
        for k, v in (("location", location), ("offset", "0"), ("length", "16")):
            e = tp.external_data.add()
            e.key, e.value = k, v
        g = onnx.helper.make_graph([], "g", [], [], initializer=[tp])
        m = onnx.helper.make_model(g)
        p = os.path.join(directory, f"m_{abs(hash(location))}.onnx")
        with open(p, "wb") as f:
            f.write(m.SerializeToString())
        return p

    ok_model = save_model(base, "w.bin")
    bad_models = [
        save_model(base, loc)
        for loc in ("../secret.bin", "hard.bin", "link_out.bin", "../model_evil/secret.bin")
    ]
    os.chdir(base)
    try:
        spellings = lambda p: [  # noqa: E731
            p,
            os.path.basename(p),
            "./" + os.path.basename(p),
            os.path.join("..", "model", os.path.basename(p)),
            os.path.join(root, "base_link", os.path.basename(p)),
        ]
        for sp in spellings(ok_model):
            m = ir.load(sp)
            t = m.graph.initializers["w"].const_value
            check(bool(t.base_dir), f"load {sp}: empty base dir")
            check(t.tobytes() == gb, f"load {sp}: wrong bytes")
            t.release()
        for bm in bad_models:
            for sp in spellings(bm):
                m = ir.load(sp)
                t = m.graph.initializers["w"].const_value
                check(bool(t.base_dir), f"load {sp}: empty base dir")
                for name in ("numpy", "tobytes", "tofile", "array"):
                    try:
                        readers()[name](t)
                    except ValueError:
                        pass
                    else:
                        check(False, f"load {sp}/{name}: not rejected")
                try:
                    ir.serde.serialize_model(m).SerializeToString()
                    ir.to_proto(t)
                    onnx_bytes = ir.serde.serialize_tensor(t)
                    check(
                        secret.tobytes() not in onnx_bytes.SerializeToString(),
                        f"load {sp}: secret leaked",
                    )
                except ValueError:
                    pass
    finally:
        os.chdir(cwd)

if failures:
    print(f"{len(failures)} failure(s)")
    sys.exit(1)
print("OK")
