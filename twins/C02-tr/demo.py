"""Round trip (proto -> IR -> proto) of attributes of every kind and of nodes with attributes.

Exits 0 when every check holds, 1 otherwise.
"""

from __future__ import annotations

import sys

import numpy as np
import onnx
from onnx import TensorProto, helper

import onnx_ir as ir
from onnx_ir import serde

failures: list[str] = []


def check(cond: bool, what: str) -> None:
    if not cond:
        failures.append(what)
        print("FAIL:", what)


def roundtrip_attr(attr: onnx.AttributeProto, what: str) -> None:
    back = serde.serialize_attribute(serde.deserialize_attribute(attr))
    check(back == attr, f"attribute round trip: {what}\n--- in\n{attr}\n--- out\n{back}")


def type_proto(elem: int, dims, denotation: str = "") -> onnx.TypeProto:
    tp = helper.make_tensor_type_proto(elem, dims)
    if denotation:
        tp.denotation = denotation
    return tp


# ---- 1. every supported attribute kind, with and without doc strings, including empty lists
tensor = helper.make_tensor("t", TensorProto.FLOAT, [2], [1.5, -2.5])
tensor2 = helper.make_tensor("t2", TensorProto.INT64, [0], [])
sub = helper.make_graph(
    [helper.make_node("Identity", ["outer"], ["y"], name="n_in_sub")],
    "sub",
    [],
    [helper.make_tensor_value_info("y", TensorProto.FLOAT, ["N", 3])],
)
cases = {
    "int": helper.make_attribute("a", 7),
    "int zero": helper.make_attribute("a", 0),
    "int negative big": helper.make_attribute("a", -(2**62)),
    "float": helper.make_attribute("a", 0.25, doc_string="a float"),
    "float nan-free extreme": helper.make_attribute("a", 3.0e38),
    "string": helper.make_attribute("a", "héllo"),
    "empty string": helper.make_attribute("a", ""),
    "ints": helper.make_attribute("a", [1, 2, 2, -3], doc_string="dup entries"),
    "floats": helper.make_attribute("a", [0.5, 0.5, -1.0]),
    "strings": helper.make_attribute("a", ["x", "", "x"]),
    "tensor": helper.make_attribute("a", tensor),
    "tensors": helper.make_attribute("a", [tensor, tensor2]),
    "graph": helper.make_attribute("a", sub),
    "graphs": helper.make_attribute("a", [sub, sub]),
    "type_proto": helper.make_attribute("a", type_proto(TensorProto.FLOAT, ["N", 3], "IMG")),
    "type_protos": helper.make_attribute(
        "a",
        [
            type_proto(TensorProto.INT8, None),
            helper.make_sequence_type_proto(type_proto(TensorProto.FLOAT, [1, "M"])),
            helper.make_optional_type_proto(type_proto(TensorProto.BOOL, [])),
        ],
    ),
}
for what, attr in cases.items():
    roundtrip_attr(attr, what)

# empty lists: the type has to be given explicitly
for what, attr_type in {
    "empty ints": onnx.AttributeProto.INTS,
    "empty floats": onnx.AttributeProto.FLOATS,
    "empty strings": onnx.AttributeProto.STRINGS,
    "empty tensors": onnx.AttributeProto.TENSORS,
    "empty graphs": onnx.AttributeProto.GRAPHS,
    "empty type_protos": onnx.AttributeProto.TYPE_PROTOS,
}.items():
    roundtrip_attr(helper.make_attribute("e", [], attr_type=attr_type), what)

# ---- 2. the IR values have the expected python types
a = serde.deserialize_attribute(cases["ints"])
check(a.type == ir.AttributeType.INTS and list(a.value) == [1, 2, 2, -3], "ints value")
check(a.doc_string == "dup entries", "ints doc string")
a = serde.deserialize_attribute(cases["float"])
check(a.type == ir.AttributeType.FLOAT and a.value == 0.25, "float value")
a = serde.deserialize_attribute(cases["int zero"])
check(a.type == ir.AttributeType.INT and a.value == 0 and a.doc_string is None, "int zero")
a = serde.deserialize_attribute(cases["floats"])
check(a.type == ir.AttributeType.FLOATS and list(a.value) == [0.5, 0.5, -1.0], "floats value")

# ---- 3. reference attributes of every type keep name, type, ref name, doc string
for attr_type in (
    onnx.AttributeProto.INT,
    onnx.AttributeProto.FLOATS,
    onnx.AttributeProto.GRAPH,
    onnx.AttributeProto.SPARSE_TENSOR,
    onnx.AttributeProto.TYPE_PROTOS,
):
    ref = onnx.AttributeProto(name="r", ref_attr_name="outer_attr", type=attr_type)
    ref.doc_string = "ref doc"
    ir_ref = serde.deserialize_attribute(ref)
    check(ir_ref.is_ref(), f"ref attr {attr_type} is a reference")
    back = serde.serialize_reference_attribute(ir_ref)
    check(back == ref, f"reference attribute round trip type {attr_type}")

# ---- 4. rejected inputs: sparse attributes
for attr_type in (onnx.AttributeProto.SPARSE_TENSOR, onnx.AttributeProto.SPARSE_TENSORS):
    sparse = onnx.AttributeProto(name="sp", type=attr_type)
    try:
        serde.deserialize_attribute(sparse)
    except serde.SerdeError as e:
        cause = e.__cause__
        check(type(cause) is NotImplementedError, f"sparse cause {type(cause).__name__}")
        check("Sparse tensors are not supported yet" in str(cause), "sparse message")
        check("_deserialize_attribute" in str(e), "error names the deserializer")
    except Exception as e:  # noqa: BLE001
        check(False, f"sparse attr {attr_type}: unexpected {type(e).__name__}: {e}")
    else:
        check(False, f"sparse attr {attr_type} accepted")

# UNDEFINED is accepted and has no value
undefined = onnx.AttributeProto(name="u", type=onnx.AttributeProto.UNDEFINED)
a = serde.deserialize_attribute(undefined)
check(a.type == ir.AttributeType.UNDEFINED and a.value is None, "undefined attribute")

# invalid UTF-8 in a string attribute is kept as bytes
raw = onnx.AttributeProto(name="raw", type=onnx.AttributeProto.STRING, s=b"\xff\xfe")
a = serde.deserialize_attribute(raw)
check(a.value == b"\xff\xfe", "invalid utf-8 stays bytes")
check(serde.serialize_attribute(a) == raw, "invalid utf-8 round trip")

# ---- 5. nodes: attribute order kept, duplicates of a name -> last wins at its own position
node = helper.make_node("Op", ["x", "", "z"], ["o1", "", "o3"], name="n", domain="custom")
node.doc_string = "node doc"
node.attribute.extend(
    [
        helper.make_attribute("k_int", 1),
        helper.make_attribute("k_floats", [1.0, 2.0]),
        helper.make_attribute("k_str", "s"),
        helper.make_attribute("k_float", 2.0),
        helper.make_attribute("k_ints", [3, 4]),
        helper.make_attribute("k_graph", sub),
    ]
)
entry = node.metadata_props.add()
entry.key, entry.value = "m", "v"
back = serde.serialize_node(serde.deserialize_node(node))
check(back == node, f"node round trip\n--- in\n{node}\n--- out\n{back}")

dup = onnx.NodeProto()
dup.CopyFrom(node)
del dup.attribute[:]
dup.attribute.extend(
    [
        helper.make_attribute("a", 1),
        helper.make_attribute("b", [1.0]),
        helper.make_attribute("a", sub),  # replaces the INT entry "a"; stays at index 2
        helper.make_attribute("c", "x"),
        helper.make_attribute("b", [2, 3]),  # replaces FLOATS entry "b"
        helper.make_attribute("a", 2.5),  # replaces the GRAPH entry "a"
    ]
)
ir_dup = serde.deserialize_node(dup)
check(list(ir_dup.attributes) == ["c", "b", "a"], f"surviving order {list(ir_dup.attributes)}")
check(ir_dup.attributes["a"].value == 2.5, "last 'a' wins")
check(list(ir_dup.attributes["b"].value) == [2, 3], "last 'b' wins")
expected = onnx.NodeProto()
expected.CopyFrom(dup)
del expected.attribute[:]
expected.attribute.extend([dup.attribute[3], dup.attribute[4], dup.attribute[5]])
check(serde.serialize_node(ir_dup) == expected, "node with duplicate attribute names")

# node without any attribute, without inputs and outputs
bare = onnx.NodeProto(op_type="Nop")
check(serde.serialize_node(serde.deserialize_node(bare)) == bare, "bare node round trip")

# ---- 6. a whole model: subgraph attribute capturing an outer value; dropped duplicate subgraph
#         must not leave users registered on the outer value
then_g = helper.make_graph(
    [helper.make_node("Add", ["outer", "outer"], ["t_out"], name="then_add")],
    "then_g",
    [],
    [helper.make_tensor_value_info("t_out", TensorProto.FLOAT, [2])],
)
else_g = helper.make_graph(
    [helper.make_node("Neg", ["outer"], ["e_out"], name="else_neg")],
    "else_g",
    [],
    [helper.make_tensor_value_info("e_out", TensorProto.FLOAT, [2])],
)
if_node = helper.make_node("If", ["cond"], ["res"], name="if")
if_node.attribute.extend(
    [
        helper.make_attribute("then_branch", else_g),  # replaced by the next 'then_branch'
        helper.make_attribute("else_branch", else_g),
        helper.make_attribute("then_branch", then_g),
    ]
)
main = helper.make_graph(
    [helper.make_node("Relu", ["x"], ["outer"], name="relu"), if_node],
    "main",
    [
        helper.make_tensor_value_info("x", TensorProto.FLOAT, [2]),
        helper.make_tensor_value_info("cond", TensorProto.BOOL, []),
    ],
    [helper.make_tensor_value_info("res", TensorProto.FLOAT, [2])],
)
model = helper.make_model(main, opset_imports=[helper.make_opsetid("", 18)], ir_version=10)
ir_model = serde.deserialize_model(model)
outer = ir_model.graph.node(0).outputs[0]
users = sorted((n.name, i) for n, i in outer.uses())
check(
    users == [("else_neg", 0), ("then_add", 0), ("then_add", 1)],
    f"users of the captured value: {users}",
)
expected_model = onnx.ModelProto()
expected_model.CopyFrom(model)
del expected_model.graph.node[1].attribute[0]
back_model = serde.serialize_model(ir_model)
check(back_model.graph.node[1] == expected_model.graph.node[1], "If node round trip")
check(
    back_model.graph.node[0] == expected_model.graph.node[0]
    and list(back_model.graph.input) == list(expected_model.graph.input)
    and list(back_model.graph.output) == list(expected_model.graph.output)
    and list(back_model.opset_import) == list(expected_model.opset_import)
    and back_model.ir_version == 10,
    "model round trip",
)

# a function with attribute protos (defaults) and reference attributes in its nodes
fn_node = helper.make_node("LeakyRelu", ["fx"], ["fy"], name="fn_n")
fn_node.attribute.append(
    onnx.AttributeProto(name="alpha", ref_attr_name="alpha", type=onnx.AttributeProto.FLOAT)
)
fn = helper.make_function(
    "dom",
    "F",
    ["fx"],
    ["fy"],
    [fn_node],
    [helper.make_opsetid("", 18)],
    attributes=["no_default"],
    attribute_protos=[helper.make_attribute("alpha", 0.01), helper.make_attribute("ks", [1, 2])],
)
check(serde.serialize_function(serde.deserialize_function(fn)) == fn, "function round trip")

_ = np  # numpy is imported so that tensors can be materialised if wanted

if failures:
    print(f"{len(failures)} check(s) failed")
    sys.exit(1)
print("all checks passed")
sys.exit(0)
