"""Demo for property C09: concurrent external-data writing is schedule-independent,
bounded and live.  Exits 0 when every check passes."""

from __future__ import annotations

import os
import tempfile
import threading
import time

import numpy as np

import onnx_ir as ir
from onnx_ir import external_data

GUARD = threading.Lock()
STATE = {"in_flight": 0, "peak": 0, "writers": 0}
PER_OBJECT: dict[int, int] = {}


class TrackedTensor(ir.Tensor):
    """A tensor whose tofile() records how many bytes are being materialised."""

    fail = False

    def tofile(self, file) -> None:
        with GUARD:
            STATE["in_flight"] += self.nbytes
            STATE["writers"] += 1
            STATE["peak"] = max(STATE["peak"], STATE["in_flight"])
            PER_OBJECT[id(self)] = PER_OBJECT.get(id(self), 0) + 1
            assert PER_OBJECT[id(self)] == 1, "shared tensor evaluated concurrently"
        try:
            time.sleep(0.002)
            if self.fail:
                raise RuntimeError(f"boom in {self.name}")
            super().tofile(file)
        finally:
            with GUARD:
                STATE["in_flight"] -= self.nbytes
                STATE["writers"] -= 1
                PER_OBJECT[id(self)] -= 1


class FailingTensor(TrackedTensor):
    fail = True


SIZES = [40, 8, 3000, 16, 0, 2600, 24, 512, 4, 2800, 64, 128]  # float32 element counts


def make_tensors(failing: int | None = None) -> list[ir.Tensor]:
    rng = np.random.default_rng(7)
    tensors = []
    for i, n in enumerate(SIZES):
        cls = FailingTensor if i == failing else TrackedTensor
        tensors.append(cls(rng.random(n, dtype=np.float32), name=f"w{i}"))
    return tensors


def make_model(tensors, shared: bool = True) -> ir.Model:
    values = [ir.Value(name=t.name, const_value=t) for t in tensors]
    if shared:
        # One tensor object shared by several initializers (duplicates).
        values.append(ir.Value(name="alias_a", const_value=tensors[2]))
        values.append(ir.Value(name="alias_b", const_value=tensors[2]))
        values.append(ir.Value(name="alias_c", const_value=tensors[7]))
    graph = ir.Graph(inputs=[], outputs=[], nodes=[], initializers=values, name="g")
    return ir.Model(graph, ir_version=10)


class Progress:
    def __init__(self) -> None:
        self.calls: list[tuple[str, int, int, str]] = []
        self.active = 0
        self.overlap = False
        self._guard = threading.Lock()

    def __call__(self, tensor, info: external_data.CallbackInfo) -> None:
        with self._guard:
            self.active += 1
            if self.active > 1:
                self.overlap = True
        time.sleep(0.0005)
        with self._guard:
            self.calls.append((tensor.name, info.index, info.total, info.filename))
            self.active -= 1


def snapshot(directory: str) -> dict[str, bytes]:
    out = {}
    for name in sorted(os.listdir(directory)):
        with open(os.path.join(directory, name), "rb") as f:
            out[name] = f.read()
    return out


def layout(model: ir.Model):
    # The empty tensor w4 is not above the size threshold and stays in memory.
    return [
        (v.name, v.const_value.location, v.const_value.offset, v.const_value.length)
        if isinstance(v.const_value, ir.ExternalTensor)
        else (v.name, None, None, v.const_value.nbytes)
        for v in model.graph.initializers.values()
    ]


def save(directory, *, failing=None, **kwargs):
    tensors = make_tensors(failing)
    model = make_model(tensors)
    progress = Progress()
    STATE["peak"] = 0
    external_data.unload_from_model(model, directory, "m.data", callback=progress, **kwargs)
    return model, progress, max(t.nbytes for t in tensors)


def check_variant(reference, ref_layout, n_values, **kwargs) -> None:
    with tempfile.TemporaryDirectory() as d:
        model, progress, largest = save(d, **kwargs)
        assert snapshot(d) == reference, f"bytes differ from serial save for {kwargs}"
        assert layout(model) == ref_layout, f"layout differs for {kwargs}"
        assert not progress.overlap, f"callback ran on two threads at once for {kwargs}"
        assert len(progress.calls) == n_values, (len(progress.calls), n_values, kwargs)
        assert sorted(c[1] for c in progress.calls) == list(range(n_values)), kwargs
        assert all(c[2] == n_values for c in progress.calls), kwargs
        budget = kwargs.get("max_in_flight_bytes")
        if budget is not None and kwargs.get("max_workers", 1) > 1:
            assert STATE["peak"] <= budget + largest, (STATE["peak"], budget, largest)
        assert STATE["in_flight"] == 0 and STATE["writers"] == 0


def main() -> None:
    # ---- single file --------------------------------------------------------
    for alignment in (None, 4096):
        extra = {} if alignment is None else {"alignment": alignment, "align_threshold": 1000}
        with tempfile.TemporaryDirectory() as d:
            ref_model, ref_progress, _ = save(d, **extra)
            reference = snapshot(d)
            ref_layout = layout(ref_model)
            n_values = len(ref_progress.calls)
            assert [c[1] for c in ref_progress.calls] == list(range(n_values))
            assert list(reference) == ["m.data"]
        for workers in (1, 2, 3, 8, 32):
            for budget in (1, 100, 4096, 11000, 1 << 30):
                check_variant(
                    reference,
                    ref_layout,
                    n_values,
                    max_workers=workers,
                    max_in_flight_bytes=budget,
                    **extra,
                )

    # ---- sharded: shard driver threads share one budget -------------------
    with tempfile.TemporaryDirectory() as d:
        ref_model, ref_progress, _ = save(d, max_shard_size_bytes=12000)
        reference = snapshot(d)
        ref_layout = layout(ref_model)
        n_values = len(ref_progress.calls)
        assert len(reference) > 2, sorted(reference)
        assert [c[1] for c in ref_progress.calls] == list(range(n_values))
    for workers in (2, 3, 5, 16):
        for budget in (1, 3000, 11000, 1 << 30):
            check_variant(
                reference,
                ref_layout,
                n_values,
                max_workers=workers,
                max_in_flight_bytes=budget,
                max_shard_size_bytes=12000,
            )

    # ---- failing tensors: the error surfaces after all workers stopped -----
    for shard in (None, 12000):
        for failing in (0, 5, 11):
            for workers, budget in ((4, 100), (8, 11000), (2, 1)):
                with tempfile.TemporaryDirectory() as d:
                    try:
                        save(
                            d,
                            failing=failing,
                            max_workers=workers,
                            max_in_flight_bytes=budget,
                            max_shard_size_bytes=shard,
                        )
                    except RuntimeError as e:
                        assert f"boom in w{failing}" in str(e), e
                    else:
                        raise AssertionError("expected RuntimeError")
                    # Every worker has stopped and gave back what it held.
                    assert STATE["writers"] == 0 and STATE["in_flight"] == 0, STATE
                    leftovers = [n for n in os.listdir(d) if n.startswith(".")]
                    assert not leftovers, leftovers
                    if shard is None:
                        assert os.listdir(d) == [], os.listdir(d)
                    # The same directory is still usable afterwards (no deadlock).
                    for n in os.listdir(d):
                        os.remove(os.path.join(d, n))
                    save(d, max_workers=workers, max_in_flight_bytes=budget,
                         max_shard_size_bytes=shard)

    # ---- unusual inputs -----------------------------------------------------
    with tempfile.TemporaryDirectory() as d:
        # Rejected calls leave nothing behind.
        for bad in ({"max_workers": 0}, {"max_workers": -3}, {"max_in_flight_bytes": 0},
                    {"max_workers": 4, "max_shard_size_bytes": 0}):
            try:
                save(d, **bad)
            except ValueError:
                pass
            else:
                raise AssertionError(f"expected ValueError for {bad}")
            assert os.listdir(d) == []
        # Empty input, concurrently requested.
        assert external_data.convert_tensors_to_external([], d, "empty.data", max_workers=4) == []
        assert snapshot(d) == {"empty.data": b""}
        empty_model = make_model([], shared=False)
        external_data.unload_from_model(empty_model, d, "e.data", max_workers=4,
                                        max_shard_size_bytes=10)
        # The same tensor object given several times through the public converter.
        t = TrackedTensor(np.arange(600, dtype=np.float32), name="dup")
        progress = Progress()
        out = external_data.convert_tensors_to_external(
            [t, t, t, t], d, "dup.data", callback=progress, max_workers=4, max_in_flight_bytes=1
        )
        assert [o.offset for o in out] == [0, 2400, 4800, 7200]
        assert snapshot(d)["dup.data"] == t.tobytes() * 4
        assert len(progress.calls) == 4 and not progress.overlap
        # Sharded concurrent save refuses to overwrite an existing shard.
        model, _, _ = save(d, max_workers=4, max_shard_size_bytes=12000)
        before = snapshot(d)
        try:
            save(d, max_workers=4, max_shard_size_bytes=12000)
        except FileExistsError:
            pass
        else:
            raise AssertionError("expected FileExistsError")
        assert snapshot(d) == before
        # A concurrent re-save over an existing single file replaces it atomically.
        save(d, max_workers=3, max_in_flight_bytes=50)
        first = snapshot(d)["m.data"]
        save(d, max_workers=5, max_in_flight_bytes=5000)
        assert snapshot(d)["m.data"] == first
        assert not [n for n in os.listdir(d) if n.startswith(".")]

    assert threading.active_count() == 1, threading.enumerate()
    print("C09 demo OK")


if __name__ == "__main__":
    main()
