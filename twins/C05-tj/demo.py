"""Demo for C05 (passes preserve what the model computes), area: CSE pass.

Builds one model with many kinds of duplicate subexpressions and attribute
forms, runs CommonSubexpressionEliminationPass (alone, twice, and composed with
other passes) and checks with the ONNX reference evaluator that all outputs are
unchanged position by position, that the interface is preserved, that the ONNX
checker still accepts the model, and that exactly the expected nodes were merged.
"""

from __future__ import annotations

import struct
import sys

import numpy as np
import onnx
import onnx.reference

import onnx_ir as ir
from onnx_ir.passes.common import (
    CommonSubexpressionEliminationPass,
    IdentityEliminationPass,
    RemoveUnusedNodesPass,
    TopologicalSortPass,
)

FLOAT = ir.TensorType(ir.DataType.FLOAT)
BOOL = ir.TensorType(ir.DataType.BOOL)


def val(name, shape=(3,), type_=FLOAT):
    return ir.Value(name=name, shape=ir.Shape(list(shape)), type=type_)


def const(name, array):
    return ir.node(
        "Constant",
        inputs=[],
        attributes={"value": ir.tensor(np.asarray(array), name=name + "_t")},
        outputs=[
            val(
                name,
                np.asarray(array).shape,
                ir.TensorType(ir.DataType.from_numpy(np.asarray(array).dtype)),
            )
        ],
        name="n_" + name,
    )


def then_else_graph(name, captured, factor):
    c = const(f"{name}_c", np.full((3,), factor, dtype=np.float32))
    mul = ir.node(
        "Mul", inputs=[captured, c.outputs[0]], outputs=[val(f"{name}_out")], name=f"{name}_mul"
    )
    return ir.Graph([], [mul.outputs[0]], nodes=[c, mul], name=name)


def build() -> ir.Model:
    x = val("x")
    y = val("y")
    cond = val("cond", (), BOOL)
    nodes = []

    def add(op, inputs, out, attrs=None, n_out=1, **kw):
        outs = [val(o, **kw) for o in ([out] if n_out == 1 else out)]
        node = ir.node(op, inputs=inputs, attributes=attrs or {}, outputs=outs, name="n_" + outs[0].name)
        nodes.append(node)
        return node.outputs[0] if n_out == 1 else node.outputs

    # plain duplicates
    a1 = add("Add", [x, y], "a1")
    a2 = add("Add", [x, y], "a2")
    a3 = add("Add", [y, x], "a3")  # different input order: NOT merged
    # FLOAT attribute: 0.0 vs -0.0 must stay distinct, equal ones merge
    l1 = add("LeakyRelu", [a1], "l1", {"alpha": 0.0})
    l2 = add("LeakyRelu", [a2], "l2", {"alpha": -0.0})
    l3 = add("LeakyRelu", [a1], "l3", {"alpha": 0.0})
    # FLOATS / INTS / STRINGS-like attributes
    r1 = add("ReduceSum", [a1], "r1", {"keepdims": 1}, shape=(1,))
    r2 = add("ReduceSum", [a2], "r2", {"keepdims": 1}, shape=(1,))
    r3 = add("ReduceSum", [a2], "r3", {"keepdims": 0}, shape=())
    t1 = add("Transpose", [a1], "t1", {"perm": [0]})
    t2 = add("Transpose", [a2], "t2", {"perm": [0]})
    s1 = add("Selu", [x], "s1", {"alpha": 1.5, "gamma": 1.0})
    s2 = add("Selu", [x], "s2", {"gamma": 1.0, "alpha": 1.5})  # other attr order: merged
    # small constants (merged), large constants (kept), differing dtype (kept)
    c1 = const("c1", np.array([1, 2, 3], dtype=np.float32))
    c2 = const("c2", np.array([1, 2, 3], dtype=np.float32))
    c3 = const("c3", np.array([1, 2, 3], dtype=np.int64))
    big1 = const("big1", np.arange(12, dtype=np.float32).reshape(4, 3))
    big2 = const("big2", np.arange(12, dtype=np.float32).reshape(4, 3))
    nodes.extend([c1, c2, c3, big1, big2])
    m1 = add("Mul", [l1, c1.outputs[0]], "m1")
    m2 = add("Mul", [l3, c2.outputs[0]], "m2")  # merged once l3->l1, c2->c1
    c3f = add("Cast", [c3.outputs[0]], "c3f", {"to": int(ir.DataType.FLOAT)})
    b1 = add("Add", [big1.outputs[0], m1], "b1", shape=(4, 3))
    b2 = add("Add", [big2.outputs[0], m2], "b2", shape=(4, 3))
    # multi-output duplicates
    sp1 = add("Split", [b1], ["sp1a", "sp1b"], {"axis": 0, "num_outputs": 2}, n_out=2, shape=(2, 3))
    sp2 = add("Split", [b1], ["sp2a", "sp2b"], {"axis": 0, "num_outputs": 2}, n_out=2, shape=(2, 3))
    # control flow duplicates with captured values (never merged)
    if1 = add(
        "If", [cond], "if1",
        {"then_branch": then_else_graph("t_a", a1, 2.0), "else_branch": then_else_graph("e_a", l2, 3.0)},
    )
    if2 = add(
        "If", [cond], "if2",
        {"then_branch": then_else_graph("t_b", a1, 2.0), "else_branch": then_else_graph("e_b", l2, 3.0)},
    )
    # non-deterministic duplicates (never merged; result unused by outputs' values)
    rn1 = add("RandomNormalLike", [x], "rn1", {"seed": 1.0})
    rn2 = add("RandomNormalLike", [x], "rn2", {"seed": 1.0})
    z1 = add("Sub", [rn1, rn1], "z1")
    z2 = add("Sub", [rn2, rn2], "z2")
    zz = add("Add", [z1, z2], "zz")
    # duplicated graph outputs, and an output that aliases an input
    o1 = add("Neg", [s1], "o1")
    o2 = add("Neg", [s2], "o2")  # both graph outputs -> an Identity must be kept
    tail = add("Sum", [l2, t1, t2, a3, c3f, if1, if2, zz], "tail")
    red = add("Add", [r1, r2], "red", shape=(1,))
    red2 = add("Add", [red, r3], "red2", shape=(1,))
    sp = add("Add", [sp1[1], sp2[1]], "sp", shape=(2, 3))

    outputs = [o1, o2, tail, x, red2, sp, sp2[0], o1]
    graph = ir.Graph([x, y, cond], outputs, nodes=nodes, name="g", opset_imports={"": 20})
    return ir.Model(graph, ir_version=10)


def run(model: ir.Model, feeds):
    proto = ir.to_proto(model)
    onnx.checker.check_model(proto, full_check=True)
    return onnx.reference.ReferenceEvaluator(proto).run(None, feeds)


def interface(model: ir.Model):
    init = set(model.graph.initializers)
    return (
        [v.name for v in model.graph.inputs if v.name not in init],
        [v.name for v in model.graph.outputs],
    )


def same(a, b):
    assert len(a) == len(b)
    for i, (u, v) in enumerate(zip(a, b)):
        u, v = np.asarray(u), np.asarray(v)
        assert u.dtype == v.dtype and u.shape == v.shape, (i, u.dtype, v.dtype, u.shape, v.shape)
        # bit-exact, so that -0.0 / 0.0 differences would be noticed
        assert u.tobytes() == v.tobytes(), (i, u, v)


def op_count(model):
    counts: dict[str, int] = {}
    for node in model.graph:
        counts[node.op_type] = counts.get(node.op_type, 0) + 1
    return counts


def main() -> int:
    feeds_list = []
    rng = np.random.default_rng(0)
    for cond in (True, False):
        feeds_list.append(
            {
                "x": np.array([-1.0, 0.0, 2.0], dtype=np.float32),
                "y": np.array([1.0, -0.0, -5.0], dtype=np.float32),
                "cond": np.array(cond),
            }
        )
        feeds_list.append(
            {
                "x": rng.standard_normal(3).astype(np.float32),
                "y": rng.standard_normal(3).astype(np.float32),
                "cond": np.array(cond),
            }
        )

    reference_model = build()
    expected = [run(reference_model, f) for f in feeds_list]
    iface = interface(reference_model)
    before = op_count(reference_model)

    # 1. CSE alone
    model = build()
    result = CommonSubexpressionEliminationPass()(model)
    assert result.modified is True
    assert result.model is model
    assert interface(model) == iface, interface(model)
    for f, e in zip(feeds_list, expected):
        same(run(model, f), e)
    after = op_count(model)
    # exactly these merges are expected
    # only a2 is merged: a3 has swapped inputs, b2 uses the unmerged large constant
    assert after["Add"] == before["Add"] - 1, (before, after)
    assert after["LeakyRelu"] == 2, after  # alpha=0.0 twice merged, -0.0 kept
    assert after["ReduceSum"] == 2, after  # keepdims differs
    assert after["Transpose"] == 1 and after["Selu"] == 1, after
    assert after["Constant"] == 4, after  # c2 merged; int64 and both large ones kept
    assert after["Mul"] == 1 and after["Split"] == 1, after
    assert after["If"] == 2 and after["RandomNormalLike"] == 2, after
    assert after["Neg"] == 1 and after.get("Identity", 0) == 1, after
    names = [n.name for n in model.graph]
    assert len(set(names)) == len(names)
    # the LeakyRelu that stayed apart from the others is the -0.0 one
    alphas = sorted(
        struct.pack("<d", n.attributes["alpha"].value) for n in model.graph if n.op_type == "LeakyRelu"
    )
    assert alphas == sorted([struct.pack("<d", 0.0), struct.pack("<d", -0.0)])

    # 2. idempotent: second run finds nothing more
    again = CommonSubexpressionEliminationPass()(model)
    assert again.modified is False
    assert op_count(model) == after
    for f, e in zip(feeds_list, expected):
        same(run(model, f), e)

    # 3. size_limit: 0 keeps every Constant, 100 merges also the large ones
    m0 = build()
    CommonSubexpressionEliminationPass(size_limit=0)(m0)
    assert op_count(m0)["Constant"] == 5 and op_count(m0)["Mul"] == 2
    m100 = build()
    CommonSubexpressionEliminationPass(size_limit=100)(m100)
    assert op_count(m100)["Constant"] == 3
    for m in (m0, m100):
        assert interface(m) == iface
        for f, e in zip(feeds_list, expected):
            same(run(m, f), e)

    # 4. composed with other passes, in two different orders
    for passes in (
        # (IdentityEliminationPass is deliberately not run AFTER CSE here: on the
        # Identity that CSE keeps between two graph outputs it renames output o1 to
        # o2 - both with and without the refactoring - which is outside this demo.)
        [CommonSubexpressionEliminationPass(), RemoveUnusedNodesPass(), TopologicalSortPass(), CommonSubexpressionEliminationPass()],
        [IdentityEliminationPass(), TopologicalSortPass(), CommonSubexpressionEliminationPass(size_limit=100), CommonSubexpressionEliminationPass(), RemoveUnusedNodesPass()],
    ):
        m = build()
        res = ir.passes.Sequential(*passes)(m)
        assert res.modified
        assert interface(res.model) == iface
        for f, e in zip(feeds_list, expected):
            same(run(res.model, f), e)

    # 5. unusual inputs: an empty graph, and a reference attribute of FLOAT type
    #    in the main graph (invalid there) is rejected with struct.error.
    empty = ir.Model(ir.Graph([], [], nodes=[], name="empty", opset_imports={"": 20}), ir_version=10)
    res = CommonSubexpressionEliminationPass()(empty)
    assert res.modified is False and len(empty.graph) == 0

    xx = val("xx")
    bad_node = ir.Node(
        "",
        "LeakyRelu",
        inputs=[xx],
        attributes=[ir.RefAttr("alpha", "outer_alpha", ir.AttributeType.FLOAT)],
        outputs=[val("bad_out")],
    )
    bad = ir.Model(
        ir.Graph([xx], [bad_node.outputs[0]], nodes=[bad_node], name="bad", opset_imports={"": 20}),
        ir_version=10,
    )
    try:
        CommonSubexpressionEliminationPass()(bad)
    except ir.passes.PassError as e:
        assert isinstance(e.__cause__, struct.error), repr(e.__cause__)
    except struct.error:
        pass
    else:
        raise AssertionError("reference attribute in main graph was not rejected")
    assert len(bad.graph) == 1 and bad.graph.outputs[0] is bad_node.outputs[0]

    print("C05 demo OK")
    return 0


if __name__ == "__main__":
    sys.exit(main())
