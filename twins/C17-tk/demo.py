"""Demo for C17: graph outputs / node output declaration during deserialization.

Exits 0 when every check holds; any failed check raises AssertionError.
"""
import builtins
import io
import logging
import os

import numpy as np
import onnx
from onnx import TensorProto, helper

import onnx_ir as ir
from onnx_ir import serde

# ---- no file access allowed during the whole demo --------------------------------
_real_open = builtins.open
_real_os_open = os.open


def _forbidden(*args, **kwargs):
    raise AssertionError(f"file access attempted: {args!r}")


def no_files(fn):
    def wrapped(*a, **k):
        builtins.open = _forbidden
        io.open = _forbidden
        os.open = _forbidden
        try:
            return fn(*a, **k)
        finally:
            builtins.open = _real_open
            io.open = _real_open
            os.open = _real_os_open

    return wrapped


def vi(name, dtype=TensorProto.FLOAT, shape=(2,)):
    return helper.make_tensor_value_info(name, dtype, shape)


def check_consistent(graph):
    """Use-def and ownership links of a graph (recursively) are consistent."""
    for node in graph:
        assert node.graph is graph, node
        for i, inp in enumerate(node.inputs):
            if inp is not None:
                assert (node, i) in inp.uses(), (node, i)
        for i, out in enumerate(node.outputs):
            assert out.producer() is node and out.index() == i
        for attr in node.attributes.values():
            if attr.type == ir.AttributeType.GRAPH:
                check_consistent(attr.value)
            elif attr.type == ir.AttributeType.GRAPHS:
                for g in attr.value:
                    check_consistent(g)
    for out in graph.outputs:
        p = out.producer()
        assert p is None or p.graph is graph


def fixpoint(proto):
    """deserialize -> serialize -> deserialize -> serialize is stable."""
    m1 = serde.deserialize_model(proto)
    check_consistent(m1.graph)
    p1 = serde.serialize_model(m1)
    m2 = serde.deserialize_model(p1)
    check_consistent(m2.graph)
    p2 = serde.serialize_model(m2)
    assert p1.SerializeToString(deterministic=True) == p2.SerializeToString(
        deterministic=True
    )
    return m1, p1


class Capture(logging.Handler):
    def __init__(self):
        super().__init__()
        self.messages = []

    def emit(self, record):
        self.messages.append(record.getMessage())


@no_files
def main():
    cap = Capture()
    lg = logging.getLogger("onnx_ir.serde")
    lg.addHandler(cap)
    lg.setLevel(logging.DEBUG)

    # 1. normal output, output that is an input, output that is an initializer,
    #    duplicated output, dangling output, and an empty-named output.
    w = helper.make_tensor("w", TensorProto.FLOAT, (2,), [1.0, 2.0])
    n0 = helper.make_node("Add", ["x", "w"], ["y"], name="n0")
    n1 = helper.make_node("Relu", ["y"], ["z"], name="n1")
    graph = helper.make_graph(
        [n0, n1],
        "g",
        [vi("x")],
        [
            vi("z", TensorProto.FLOAT, (2,)),
            vi("x", TensorProto.FLOAT, ("N",)),  # an input as output, shape overridden
            vi("w"),  # an initializer as output
            vi("z", TensorProto.DOUBLE, (3,)),  # duplicate: last info wins on same Value
            vi("ghost", TensorProto.INT64, (7,)),  # dangling
            vi("ghost", TensorProto.INT32, (8,)),  # dangling twice -> two distinct values
            onnx.ValueInfoProto(),  # empty name, no type
        ],
        initializer=[w],
        value_info=[vi("y"), vi("z", TensorProto.FLOAT16, (5,))],
    )
    model = helper.make_model(graph, opset_imports=[helper.make_opsetid("", 18)])
    cap.messages.clear()
    m, p1 = fixpoint(model)
    g = m.graph
    assert [o.name for o in g.outputs] == ["z", "x", "w", "z", "ghost", "ghost", ""]
    outs = g.outputs
    assert outs[0] is outs[3] and outs[0].producer().name == "n1"
    assert outs[0].dtype == ir.DataType.DOUBLE and list(outs[0].shape) == [3]
    assert outs[1] is g.inputs[0] and outs[1].shape[0].value == "N"
    assert outs[2] is g.initializers["w"] and outs[2].const_value is not None
    assert outs[4] is not outs[5]
    assert outs[4].producer() is None and outs[4].dtype == ir.DataType.INT64
    assert outs[5].dtype == ir.DataType.INT32 and list(outs[5].shape) == [8]
    assert outs[6].type is None and outs[6].shape is None and outs[6].producer() is None
    # dangling outputs are not registered anywhere else
    assert "ghost" not in g.initializers
    warnings = [x for x in cap.messages if "is not produced by any node" in x]
    # the first model deserialization warns once per dangling output, in proto order
    assert warnings[:3] == [
        "Output 'ghost' is not produced by any node. The graph has an invalid output",
        "Output 'ghost' is not produced by any node. The graph has an invalid output",
        "Output '' is not produced by any node. The graph has an invalid output",
    ], warnings
    # tensor inspection without file access
    t = outs[2].const_value
    assert (t.name, t.dtype, list(t.shape), t.size) == ("w", ir.DataType.FLOAT, [2], 2)
    assert t.numpy().tolist() == [1.0, 2.0] and t.numpy().dtype == np.float32

    # 2. nested subgraph: output of the subgraph names an OUTER value (not in the
    #    subgraph's own scope -> treated as dangling in the subgraph), plus unsorted nodes.
    then_g = helper.make_graph(
        [helper.make_node("Neg", ["late"], ["t"], name="inner")],
        "then",
        [],
        [vi("t"), vi("late"), vi("nowhere")],
    )
    else_g = helper.make_graph([], "else", [], [vi("nowhere")])
    if_node = helper.make_node(
        "If", ["c"], ["r"], name="if", then_branch=then_g, else_branch=else_g
    )
    late = helper.make_node("Identity", ["x"], ["late"], name="late_producer")
    outer = helper.make_graph(
        [if_node, late], "outer", [vi("c", TensorProto.BOOL, ()), vi("x")], [vi("r")]
    )
    model2 = helper.make_model(outer, opset_imports=[helper.make_opsetid("", 18)])
    m2, _ = fixpoint(model2)
    ifn = m2.graph.node(0)
    tg = ifn.attributes["then_branch"].value
    inner = tg.node(0)
    outer_late = m2.graph.node(1).outputs[0]
    assert inner.inputs[0] is outer_late  # use-def link across scopes, unsorted
    assert tg.outputs[0] is inner.outputs[0]
    assert tg.outputs[1] is not outer_late and tg.outputs[1].producer() is None
    assert tg.outputs[2].name == "nowhere" and tg.outputs[2].producer() is None
    eg = ifn.attributes["else_branch"].value
    assert len(eg) == 0 and eg.outputs[0].name == "nowhere"
    assert eg.outputs[0] is not tg.outputs[2]

    # 3. rejected: an output name declared twice in one scope (by two nodes, and by
    #    an input + a node). Raises SerdeError chained from ValueError, no hang.
    for bad_nodes, bad_inputs in (
        ([helper.make_node("Relu", ["x"], ["d"]), helper.make_node("Neg", ["x"], ["d"])], [vi("x")]),
        ([helper.make_node("Relu", ["x"], ["x"])], [vi("x")]),
        ([helper.make_node("Split", ["x"], ["s", "s"])], [vi("x")]),
    ):
        bad = helper.make_graph(bad_nodes, "bad", bad_inputs, [vi("d")])
        try:
            serde.deserialize_graph(bad)
        except serde.SerdeError as e:
            cause = e.__cause__
            assert isinstance(cause, ValueError), repr(cause)
            assert "is redeclared in the current graph scope" in str(cause)
            assert "Error calling _deserialize_graph with: bad" in str(e)
        else:
            raise AssertionError("redeclared output accepted")

    # 3b. bad type in an output's value info: map type is rejected
    bad_vi = onnx.ValueInfoProto()
    bad_vi.name = "y"
    bad_vi.type.map_type.key_type = TensorProto.INT64
    badg = helper.make_graph([helper.make_node("Relu", ["x"], ["y"])], "m", [vi("x")], [bad_vi])
    try:
        serde.deserialize_graph(badg)
    except serde.SerdeError as e:
        assert isinstance(e.__cause__, serde.SerdeError)
    else:
        raise AssertionError("map type accepted")

    # 4. empty graph and empty output names on nodes
    empty = serde.deserialize_graph(onnx.GraphProto())
    assert len(empty) == 0 and not empty.inputs and not empty.outputs
    gp = helper.make_graph(
        [helper.make_node("Split", ["x"], ["", "b", ""], name="sp")], "e", [vi("x")], [vi("b"), vi("")]
    )
    ge = serde.deserialize_graph(gp)
    check_consistent(ge)
    sp = ge.node(0)
    assert [o.name for o in sp.outputs] == ["", "b", ""]
    assert ge.outputs[0] is sp.outputs[1]
    assert ge.outputs[1] is not sp.outputs[0] and ge.outputs[1] is not sp.outputs[2]

    # 5. standalone node + function (both go through the output declaration step)
    nd = serde.deserialize_node(helper.make_node("Split", ["a", "a", ""], ["o1", "", "o2"]))
    assert nd.inputs[0] is nd.inputs[1] and nd.inputs[2] is None
    assert [o.name for o in nd.outputs] == ["o1", "", "o2"]
    try:
        serde.deserialize_node(helper.make_node("Split", ["a"], ["o", "o"]))
    except serde.SerdeError:
        raise AssertionError("unexpected wrapping")  # deserialize_node is not wrapped
    except ValueError as e:
        assert "is redeclared" in str(e)
    else:
        raise AssertionError("duplicate outputs accepted")
    fn = helper.make_function(
        "dom", "F", ["a"], ["b"], [helper.make_node("Relu", ["a"], ["b"])],
        [helper.make_opsetid("", 18)],
    )
    f = serde.deserialize_function(fn)
    assert f.outputs[0] is f.graph.node(0).outputs[0]
    fn_bad = helper.make_function(
        "dom", "G", ["a"], ["missing"], [helper.make_node("Relu", ["a"], ["b"])],
        [helper.make_opsetid("", 18)],
    )
    try:
        serde.deserialize_function(fn_bad)
    except serde.SerdeError as e:
        assert isinstance(e.__cause__, KeyError)
    else:
        raise AssertionError("dangling function output accepted")

    lg.removeHandler(cap)
    print("C17 demo OK")


if __name__ == "__main__":
    main()
