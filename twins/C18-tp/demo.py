"""Demo for property C18: region extraction and capture analysis are exact.

Exercises onnx_ir.convenience.extract and onnx_ir.analysis.analyze_implicit_usage through
the public API: original node order, initializers, independence from the source,
value equivalence (tiny numpy interpreter), nested captures at depth 1..3, GRAPH and
GRAPHS attributes, optional (None) inputs, duplicates, empty inputs and rejected calls.
"""

from __future__ import annotations

import sys

import numpy as np

import onnx_ir as ir
from onnx_ir.analysis import analyze_implicit_usage
from onnx_ir.convenience import extract

FLOAT = ir.TensorType(ir.DataType.FLOAT)
BOOL = ir.TensorType(ir.DataType.BOOL)


def val(name, type_=FLOAT):
    return ir.Value(name=name, type=type_, shape=ir.Shape([2]))


def node(op, inputs, out, attrs=(), name=None):
    n = ir.Node("", op, inputs=inputs, attributes=list(attrs), num_outputs=1, name=name or f"n_{out}")
    n.outputs[0].name = out
    n.outputs[0].type = FLOAT
    n.outputs[0].shape = ir.Shape([2])
    return n


def check(cond, msg):
    if not cond:
        print("FAIL:", msg)
        sys.exit(1)


# --------------------------------------------------------------------------------------
# A tiny interpreter (Add, Mul, Neg, Identity, If with captured outer values)
# --------------------------------------------------------------------------------------
def run_nodes(nodes, env):
    for n in nodes:
        ins = [None if i is None else env[i] for i in n.inputs]
        if n.op_type == "Add":
            res = ins[0] + ins[1]
        elif n.op_type == "Mul":
            res = ins[0] * ins[1]
        elif n.op_type == "Neg":
            res = -ins[0]
        elif n.op_type == "Identity":
            res = ins[0]
        elif n.op_type == "If":
            branch = n.attributes["then_branch" if bool(np.all(ins[0])) else "else_branch"].as_graph()
            for init in branch.initializers.values():
                env[init] = init.const_value.numpy()
            run_nodes(branch, env)
            res = env[branch.outputs[0]]
        else:
            raise NotImplementedError(n.op_type)
        env[n.outputs[0]] = res


def all_objects(graph):
    """All values / nodes / graphs reachable from a graph (recursively)."""
    objs = set()
    stack = [graph]
    while stack:
        g = stack.pop()
        objs.add(g)
        objs.update(g.inputs)
        objs.update(g.outputs)
        objs.update(g.initializers.values())
        for n in g:
            objs.add(n)
            objs.update(o for o in n.outputs)
            objs.update(i for i in n.inputs if i is not None)
            for a in n.attributes.values():
                if a.type == ir.AttributeType.GRAPH:
                    stack.append(a.as_graph())
                elif a.type == ir.AttributeType.GRAPHS:
                    stack.extend(a.as_graphs())
    return objs


# --------------------------------------------------------------------------------------
# Build the source graph
#   a = Add(x, w)          w: initializer
#   b = Mul(a, y)
#   dead = Neg(y)          (never needed)
#   c = Neg(b)
#   r = If(cond) { then: t = Add(b, w2) ; inner If(cond) {then: Mul(t, a), else: Add(c_unused? no -> k, t)} ; else: Identity(x) }
#   z = Add(r, c)
# --------------------------------------------------------------------------------------
def build():
    x, y, cond = val("x"), val("y"), val("cond", BOOL)
    w = ir.Value(name="w", type=FLOAT, shape=ir.Shape([2]),
                 const_value=ir.tensor(np.array([1.0, 2.0], dtype=np.float32), name="w"))
    w2 = ir.Value(name="w2", type=FLOAT, shape=ir.Shape([2]),
                  const_value=ir.tensor(np.array([10.0, 20.0], dtype=np.float32), name="w2"))
    unused_init = ir.Value(name="unused_init", type=FLOAT, shape=ir.Shape([2]),
                           const_value=ir.tensor(np.array([7.0, 7.0], dtype=np.float32), name="unused_init"))
    n_a = node("Add", [x, w], "a")
    a = n_a.outputs[0]
    n_b = node("Mul", [a, y], "b")
    b = n_b.outputs[0]
    n_dead = node("Neg", [y], "dead")
    n_c = node("Neg", [b], "c")
    c = n_c.outputs[0]

    # depth-2 graphs
    k = ir.Value(name="k", type=FLOAT, shape=ir.Shape([2]),
                 const_value=ir.tensor(np.array([0.5, 0.5], dtype=np.float32), name="k"))
    n_t = node("Add", [b, w2], "t")
    t = n_t.outputs[0]
    n_i1 = node("Mul", [t, a], "i1")
    inner_then = ir.Graph([], [n_i1.outputs[0]], nodes=[n_i1], name="inner_then")
    n_i2 = node("Add", [k, t], "i2")
    inner_else = ir.Graph([], [n_i2.outputs[0]], nodes=[n_i2], initializers=[k], name="inner_else")
    n_inner_if = node("If", [cond], "ri",
                      [ir.AttrGraph("then_branch", inner_then), ir.AttrGraph("else_branch", inner_else)])
    then_g = ir.Graph([], [n_inner_if.outputs[0]], nodes=[n_t, n_inner_if], name="then_g")
    n_e = node("Identity", [x], "e")
    else_g = ir.Graph([], [n_e.outputs[0]], nodes=[n_e], name="else_g")
    n_if = node("If", [cond], "r",
                [ir.AttrGraph("then_branch", then_g), ir.AttrGraph("else_branch", else_g)])
    r = n_if.outputs[0]
    n_z = node("Add", [r, c], "z")
    z = n_z.outputs[0]
    g = ir.Graph([x, y, cond], [z], nodes=[n_a, n_b, n_dead, n_c, n_if, n_z],
                 initializers=[w, w2, unused_init], name="main",
                 opset_imports={"": 20})
    return g


def names(nodes):
    return [n.name for n in nodes]


def feed(g, cond_value):
    env = {
        g.inputs[0]: np.array([1.0, -2.0], dtype=np.float32),
        g.inputs[1]: np.array([3.0, 4.0], dtype=np.float32),
        g.inputs[2]: np.array(cond_value),
    }
    for init in g.initializers.values():
        env[init] = init.const_value.numpy()
    return env


def check_equivalent(src, ext, in_names, out_names, label):
    src_vals = {}
    for n in ir.traversal.RecursiveGraphIterator(src):
        for o in n.outputs:
            src_vals[o.name] = o
    for v in list(src.inputs) + list(src.initializers.values()):
        src_vals[v.name] = v
    for cond_value in (True, False):
        env = feed(src, cond_value)
        run_nodes(src, env)
        ext_env = {}
        check([i.name for i in ext.inputs] == list(in_names), f"{label}: extracted inputs")
        for i in ext.inputs:
            ext_env[i] = env[src_vals[i.name]]
        for init in ext.initializers.values():
            if init not in ext_env:
                ext_env[init] = init.const_value.numpy()
        run_nodes(ext, ext_env)
        check([o.name for o in ext.outputs] == list(out_names), f"{label}: extracted outputs")
        for o in ext.outputs:
            check(np.array_equal(ext_env[o], env[src_vals[o.name]]), f"{label}: value of {o.name} (cond={cond_value})")


def main():
    g = build()
    src_objs = all_objects(g)
    src_node_names = names(g)

    # 1. Whole graph through nested captures: all needed nodes in original order, dead one dropped
    ext = extract(g, inputs=["x", "y", "cond"], outputs=["z"])
    check(names(ext) == ["n_a", "n_b", "n_c", "n_r", "n_z"], f"order 1: {names(ext)}")
    check(sorted(ext.initializers) == ["w", "w2"], f"initializers 1: {sorted(ext.initializers)}")
    check(not (all_objects(ext) & src_objs), "extracted graph shares objects with the source")
    check(ext.name == "main" and ext.opset_imports == {"": 20}, "graph attributes")
    check_equivalent(g, ext, ["x", "y", "cond"], ["z"], "case 1")
    check(names(g) == src_node_names and all(n.graph is g for n in g), "source was modified")

    # 2. Outputs given in the reverse of the graph order, by object, with duplicates in the
    #    inputs; the DFS discovers nodes in another order than the graph order.
    a = g[0].outputs[0]
    b = g[1].outputs[0]
    c = g[3].outputs[0]
    r = g[4].outputs[0]
    ext = extract(g, inputs=[a, g.inputs[1], g.inputs[2], g.inputs[0], a], outputs=[r, c, b])
    check(names(ext) == ["n_b", "n_c", "n_r"], f"order 2: {names(ext)}")
    check(sorted(ext.initializers) == ["w2"], f"initializers 2: {sorted(ext.initializers)}")
    check([o.name for o in ext.outputs] == ["r", "c", "b"], "outputs 2")
    check(not (all_objects(ext) & src_objs), "extracted graph 2 shares objects with the source")

    # 3. Cut in the middle: 'b' as the boundary; captures inside If need a, x, cond too.
    for ins in (["b"], ["b", "cond"], ["b", "x"], []):
        try:
            extract(g, inputs=ins, outputs=["r"])
        except ValueError as e:
            check("not properly bounded" in str(e), f"message: {e}")
        else:
            check(False, f"unbounded region accepted for inputs {ins}")
    # without 'a' in the boundary its producer is pulled in through the nested capture
    ext = extract(g, inputs=["b", "cond", "x"], outputs=["r"])
    check(names(ext) == ["n_a", "n_r"], f"order 3a: {names(ext)}")
    check(sorted(ext.initializers) == ["w", "w2"], "initializers 3a")
    check_equivalent(g, ext, ["b", "cond", "x"], ["r"], "case 3a")
    ext = extract(g, inputs=["b", "cond", "x", "a"], outputs=["r"])
    check(names(ext) == ["n_r"], f"order 3: {names(ext)}")
    check(sorted(ext.initializers) == ["w2"], "initializers 3 (w2 is captured by the nested graph)")
    check_equivalent(g, ext, ["b", "cond", "x", "a"], ["r"], "case 3")

    # 3b. The error message lists the missing values sorted by name
    try:
        extract(g, inputs=[], outputs=["z"])
    except ValueError as e:
        check(str(e).endswith("required but not provided: cond, x, y"), f"sorted message: {e}")
    else:
        check(False, "no error 3b")

    # 4. An initializer as an explicit boundary input stays an initializer of the result;
    #    an initializer as output with no inputs at all -> empty node list.
    ext = extract(g, inputs=["x", "w"], outputs=["a"])
    check(names(ext) == ["n_a"] and list(ext.initializers) == ["w"], "initializer as boundary input")
    check([i.name for i in ext.inputs] == ["x", "w"], "inputs 4")
    ext = extract(g, inputs=[], outputs=["w"])
    check(len(ext) == 0 and list(ext.initializers) == ["w"], "initializer as only output")
    check(ext.outputs[0] is ext.initializers["w"], "output is the cloned initializer")
    check(ext.outputs[0] is not g.initializers["w"], "clone independent")

    # 5. Rejected calls: no output, unknown name, foreign value, value of a nested graph.
    for kwargs, fragment in (
        (dict(inputs=["x"], outputs=[]), "At least one output"),
        (dict(inputs=["nope"], outputs=["z"]), "not found"),
        (dict(inputs=["x"], outputs=["t"]), "not found"),
        (dict(inputs=[val("x")], outputs=["a"]), "does not belong"),
    ):
        try:
            extract(g, **kwargs)
        except ValueError as e:
            check(fragment in str(e), f"message for {kwargs}: {e}")
        else:
            check(False, f"accepted {kwargs}")
    then_g = g[4].attributes["then_branch"].as_graph()
    try:
        extract(g, inputs=["x"], outputs=[then_g[0].outputs[0]])
    except ValueError as e:
        check("does not belong" in str(e), str(e))
    else:
        check(False, "nested value accepted")

    # 6. Extraction from a nested graph: outer-scope values must be given as inputs ... which is
    #    refused because they belong to another graph; without them the region is unbounded.
    try:
        extract(then_g, inputs=[], outputs=["ri"])
    except ValueError as e:
        check("not properly bounded" in str(e), str(e))
    else:
        check(False, "nested unbounded accepted")

    # 7. A Function: no initializers are recorded, order preserved.
    fx, fy = val("fx"), val("fy")
    f1 = node("Add", [fx, fy], "f1")
    f2 = node("Neg", [fx], "f2")
    f3 = node("Mul", [f2.outputs[0], f1.outputs[0]], "f3")
    func = ir.Function("dom", "F", "", graph=ir.Graph([fx, fy], [f3.outputs[0]], nodes=[f1, f2, f3], name="Fg"),
                       attributes=[])
    ext = extract(func, inputs=["fx", "fy"], outputs=["f3"])
    check(names(ext) == ["n_f1", "n_f2", "n_f3"] and len(ext.initializers) == 0, "function extraction")
    ext = extract(func, inputs=[f2.outputs[0], f1.outputs[0]], outputs=[f3.outputs[0]])
    check(names(ext) == ["n_f3"], "function extraction, bounded")
    try:
        extract(func, inputs=["fx"], outputs=["f3"])
    except ValueError as e:
        check(str(e).endswith(": fy"), str(e))
    else:
        check(False, "function unbounded accepted")

    # 8. A GraphView over a part of the graph.
    view = ir.GraphView([g.inputs[0], g.inputs[1]], [c], nodes=[g[0], g[1], g[3]],
                        initializers=[g.initializers["w"]], name="view")
    ext = extract(view, inputs=["x", "y"], outputs=["c"])
    check(names(ext) == ["n_a", "n_b", "n_c"] and list(ext.initializers) == ["w"], "view extraction")
    check(ext.name == "view", "view name")
    # A node that is not part of the view is reached: KeyError from restoring the order
    small_view = ir.GraphView([g.inputs[0], g.inputs[1]], [c], nodes=[g[1], g[3]], name="small")
    try:
        extract(small_view, inputs=[g.inputs[0], g.inputs[1]], outputs=[c])
    except KeyError as e:
        check(e.args[0] is g[0], "KeyError names the node outside the view")
    else:
        check(False, "node outside of the view accepted")

    # 9. Capture analysis: exact sets per nested graph, at every depth.
    usage = analyze_implicit_usage(g)
    else_g = g[4].attributes["else_branch"].as_graph()
    inner_if = then_g[1]
    inner_then = inner_if.attributes["then_branch"].as_graph()
    inner_else = inner_if.attributes["else_branch"].as_graph()
    x, cond = g.inputs[0], g.inputs[2]
    w2 = g.initializers["w2"]
    t = then_g[0].outputs[0]
    check(set(usage) == {then_g, else_g, inner_then, inner_else}, "graphs analysed")
    check(usage[then_g] == {b, w2, cond, a}, f"then_g: {sorted(v.name for v in usage[then_g])}")
    check(usage[else_g] == {x}, "else_g")
    check(usage[inner_then] == {t, a}, "inner_then")
    check(usage[inner_else] == {t}, "inner_else (its own initializer k is not captured)")
    check(g not in usage, "the analysed graph has no entry")
    # the extractor's needs agree with the analysis: captured by the If node = usage of both branches
    needed = usage[then_g] | usage[else_g]
    ext = extract(g, inputs=[v for v in needed if not v.is_initializer()], outputs=["r"])
    check(names(ext) == ["n_r"], "analysis result bounds the If node")

    # 10. Depth 3, GRAPHS attribute, optional (None) input, a graph without captures,
    #     a value captured twice by the same node.
    p, q = val("p"), val("q")
    m0 = node("Neg", [p], "m0")
    l3 = node("Add", [p, m0.outputs[0]], "l3")          # depth 3 uses p (depth 0) and m0 (depth 0)
    g3 = ir.Graph([], [l3.outputs[0]], nodes=[l3], name="g3")
    l2_local = node("Neg", [q], "l2_local")            # depth 2 uses q
    l2 = node("Scan", [None, l2_local.outputs[0]], "l2", [ir.AttrGraph("body", g3)])
    l2b = node("Mul", [l2_local.outputs[0], l2_local.outputs[0]], "l2b")
    g2 = ir.Graph([], [l2.outputs[0]], nodes=[l2_local, l2, l2b], name="g2")
    own_in = val("own_in")
    l2c = node("Add", [own_in, own_in], "l2c")
    g2_closed = ir.Graph([own_in], [l2c.outputs[0]], nodes=[l2c], name="g2_closed")
    l1 = node("Multi", [None], "l1", [ir.AttrGraphs("branches", [g2, g2_closed])])
    l1b = node("Add", [q, q], "l1b")                    # q captured twice by one node
    g1 = ir.Graph([], [l1.outputs[0]], nodes=[l1, l1b], name="g1")
    top = node("Loop", [None, None, p], "top", [ir.AttrGraph("body", g1)])
    g0 = ir.Graph([p, q], [top.outputs[0]], nodes=[m0, top], name="g0")
    usage = analyze_implicit_usage(g0)
    m0v = m0.outputs[0]
    check(set(usage) == {g1, g2, g2_closed, g3}, "graphs analysed (depth 3)")
    check(usage[g3] == {p, m0v, }, "g3")
    check(usage[g2] == {p, m0v, q}, "g2")
    check(usage[g2_closed] == set(), "closed graph captures nothing")
    check(usage[g1] == {p, m0v, q}, "g1")
    # extraction agrees: the Loop node needs p, m0 and q
    ext = extract(g0, inputs=[p, q], outputs=["top"])
    check(names(ext) == ["n_m0", "n_top"], "depth-3 extraction pulls in the producer of a captured value")
    check(not (all_objects(ext) & all_objects(g0)), "depth-3 extraction independent")
    # a graph input that is needed only through a nested capture and is not in the boundary:
    # the call is refused (by the cloning step, as a RuntimeError chained from a ValueError)
    try:
        extract(g0, inputs=[p], outputs=["top"])
    except (ValueError, RuntimeError) as e:
        root = e
        while root.__cause__ is not None:
            root = root.__cause__
        check(isinstance(root, ValueError) and "q" in str(root), f"root cause: {root!r}")
    else:
        check(False, "capture at depth 2 not detected")
    # analysing a nested graph directly: only deeper graphs are reported, relative captures
    usage = analyze_implicit_usage(g1)
    check(set(usage) == {g2, g2_closed, g3}, "analysis of a nested graph")
    check(usage[g2] == {p, m0v, q} and usage[g3] == {p, m0v}, "analysis of a nested graph: sets")
    # empty graph
    check(analyze_implicit_usage(ir.Graph([], [], nodes=[], name="empty")) == {}, "empty graph")

    print("OK")


if __name__ == "__main__":
    main()
