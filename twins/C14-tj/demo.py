"""Demo for C14: analysis passes (checker, shape inference) leave the model unchanged,
also when serialization or the ONNX call fails."""

import logging
import sys

import numpy as np
import onnx

import onnx_ir as ir
from onnx_ir.passes.common import CheckerPass, ShapeInferencePass
from onnx_ir.passes.common import _c_api_utils

logging.disable(logging.CRITICAL)


class Boom(RuntimeError):
    pass


def build(with_unloaded=True, with_lazy_failure=False):
    x = ir.Value(name="x", type=ir.TensorType(ir.DataType.FLOAT), shape=ir.Shape([2, 400]))
    # big initializer (> 1000 bytes), shape/type NOT set on the value
    big = ir.Value(name="big", const_value=ir.tensor(np.ones((2, 400), dtype=np.float32), name="big"))
    # small initializer, that is ALSO a graph input already (duplicate membership)
    small = ir.Value(
        name="small",
        const_value=ir.tensor(np.arange(3, dtype=np.float32), name="small"),
        shape=ir.Shape([3]),
        type=ir.TensorType(ir.DataType.FLOAT),
    )
    inits = [big, small]
    unloaded = None
    if with_unloaded:
        # initializer without data
        unloaded = ir.Value(
            name="unloaded", type=ir.TensorType(ir.DataType.FLOAT), shape=ir.Shape([2, 400])
        )
    if with_lazy_failure:

        def fail():
            raise Boom("lazy tensor cannot be materialized")

        lazy = ir.Value(
            name="lazy",
            const_value=ir.LazyTensor(fail, dtype=ir.DataType.FLOAT, shape=ir.Shape([1]), name="lazy"),
        )
        inits.append(lazy)
    n1 = ir.node("Add", [x, big], name="n1")
    n1.outputs[0].name = "y"
    n1.outputs[0].type = ir.TensorType(ir.DataType.FLOAT)
    nodes = [n1]
    outputs = [n1.outputs[0]]
    graph = ir.Graph(
        inputs=[x, small],
        outputs=outputs,
        nodes=nodes,
        initializers=inits,
        opset_imports={"": 18},
        name="g",
    )
    if unloaded is None:
        n1.outputs[0].shape = ir.Shape([2, 400])
    else:
        graph.initializers.add(unloaded)
        n2 = ir.node("Add", [n1.outputs[0], unloaded], name="n2")
        n2.outputs[0].name = "z"
        n2.outputs[0].type = ir.TensorType(ir.DataType.FLOAT)
        graph.append(n2)
        graph.outputs.append(n2.outputs[0])
    return ir.Model(graph, ir_version=10)


def snapshot(model):
    g = model.graph
    return (
        [id(v) for v in g.inputs],
        list(g.initializers.keys()),
        [id(v) for v in g.initializers.values()],
        [(id(v.const_value), id(v.shape), id(v.type), v.is_initializer(), v.graph is g)
         for v in g.initializers.values()],
        [(v.name, v.is_graph_input(), v.graph is g) for v in g.inputs],
        [id(v) for v in g.outputs],
    )


def check(cond, msg):
    if not cond:
        print("FAIL:", msg)
        sys.exit(1)


# 1. Checker pass on a healthy model (no unloaded initializers): same object, unchanged.
m = build(with_unloaded=False)
before = snapshot(m)
text_before = ir.serde.serialize_model(m).SerializeToString(deterministic=True)
r = CheckerPass()(m)
check(r.model is m and r.modified is False, "checker identity/modified")
check(snapshot(m) == before, "checker changed the model")
check(ir.serde.serialize_model(m).SerializeToString(deterministic=True) == text_before, "checker bytes")
check(m.graph.initializers["big"].shape is None and m.graph.initializers["big"].type is None,
      "filled-in shape/type must be restored")

# 2. Shape inference on a model with an unloaded initializer: converges, links intact.
m = build(with_unloaded=True)
before = snapshot(m)
r1 = ShapeInferencePass()(m)
check(r1.model is m, "shape inference identity")
check(snapshot(m)[:3] == before[:3] and snapshot(m)[4:] == before[4:], "inputs/initializer order")
check(m.graph.initializers["big"].const_value is not None, "big tensor restored")
check(m.graph.initializers["unloaded"].const_value is None, "unloaded stays unloaded")
y = m.graph.node("n1").outputs[0]
check(r1.modified and y.shape == ir.Shape([2, 400]), "shape inferred")
mid = snapshot(m)
r2 = ShapeInferencePass()(m)
check(r2.model is m and r2.modified is False, "fixpoint after one round")
check(snapshot(m) == mid, "second round changed something")

# 3. Fault: the ONNX call raises. Checker propagates; model unchanged.
m = build(with_unloaded=True)
before = snapshot(m)
seen = {}


def faulty(proto):
    # during the call initializers are moved to inputs
    seen["inputs"] = [i.name for i in proto.graph.input]
    seen["inits"] = [i.name for i in proto.graph.initializer]
    raise Boom("api failed")


try:
    _c_api_utils.call_onnx_api(faulty, m)
    check(False, "exception swallowed")
except Boom:
    pass
check(seen["inputs"] == ["x", "small", "big", "unloaded"], f"inputs during call {seen}")
check(seen["inits"] == ["small"], f"initializers during call {seen}")
check(snapshot(m) == before, "model damaged after failing call")

orig = onnx.checker.check_model
onnx.checker.check_model = lambda *a, **k: (_ for _ in ()).throw(Boom("checker"))
try:
    try:
        CheckerPass()(m)
        check(False, "checker exception swallowed")
    except Boom:
        pass
finally:
    onnx.checker.check_model = orig
check(snapshot(m) == before, "model damaged after failing checker")

orig = onnx.shape_inference.infer_shapes
onnx.shape_inference.infer_shapes = lambda *a, **k: (_ for _ in ()).throw(Boom("infer"))
try:
    r = ShapeInferencePass()(m)
finally:
    onnx.shape_inference.infer_shapes = orig
check(r.model is m and r.modified is False, "failed inference must report unmodified")
check(snapshot(m) == before, "model damaged after failing inference")

# 4. Fault: serialization fails because of a lazy tensor.
m = build(with_unloaded=True, with_lazy_failure=True)
before = snapshot(m)
called = []
try:
    _c_api_utils.call_onnx_api(lambda p: called.append(p), m)
    check(False, "serialization error swallowed")
except ir.serde.SerdeError as e:
    chain = []
    while e is not None:
        chain.append(e)
        e = e.__cause__
    check(any(isinstance(c, Boom) for c in chain), "Boom not in the cause chain")
check(not called, "func called although serialization failed")
check(snapshot(m) == before, "model damaged after failing serialization")
r = ShapeInferencePass()(m)
check(r.model is m and r.modified is False, "inference with lazy failure")
check(snapshot(m) == before, "model damaged after inference with lazy failure")

# 5. Empty input: no initializers, no inputs at all.
g = ir.Graph(inputs=[], outputs=[], nodes=[], opset_imports={"": 18}, name="empty")
m = ir.Model(g, ir_version=10)
r = CheckerPass()(m)
check(r.model is m and not r.modified and len(g.inputs) == 0 and len(g.initializers) == 0, "empty")
r = ShapeInferencePass()(m)
check(r.model is m and not r.modified, "empty inference")

# 6. Pass-manager composition with a failing checker: wrapped in PassError, model intact.
m = build(with_unloaded=True)
before = snapshot(m)
orig = onnx.checker.check_model
onnx.checker.check_model = lambda *a, **k: (_ for _ in ()).throw(Boom("checker"))
try:
    try:
        ir.passes.PassManager([CheckerPass(), ShapeInferencePass()], steps=2)(m)
        check(False, "no PassError")
    except ir.passes.PassError as e:
        check(isinstance(e.__cause__, ir.passes.PassError), "nested PassError")
        check(isinstance(e.__cause__.__cause__, Boom), "cause chain")
finally:
    onnx.checker.check_model = orig
check(snapshot(m) == before, "model damaged by failing composition")
res = ir.passes.PassManager([ShapeInferencePass(), CheckerPass()], steps=5)(m)
check(res.model is m and res.modified, "composition result")
check(ir.passes.PassManager([ShapeInferencePass(), CheckerPass()], steps=5)(m).modified is False,
      "composition fixpoint")

print("OK")
