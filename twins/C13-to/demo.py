"""Demo for C13: clones are faithful and fully independent of their originals.

Exercises the output-property / attribute part of Cloner.clone_node through the
public API (Model.clone, Graph.clone, GraphView.clone, Function.clone, InlinePass).
"""

from __future__ import annotations

import numpy as np

import onnx_ir as ir
from onnx_ir.passes.common import inliner


def ser(obj) -> bytes:
    return ir.to_proto(obj).SerializeToString(deterministic=True)


def tensor_type(dtype=ir.DataType.FLOAT):
    return ir.TensorType(dtype)


def build_model() -> ir.Model:
    x = ir.Value(name="x", type=tensor_type(), shape=ir.Shape(["N", 4]))
    cond = ir.Value(name="cond", type=tensor_type(ir.DataType.BOOL), shape=ir.Shape([]))
    w_tensor = ir.tensor(np.arange(4, dtype=np.float32), name="w_tensor_name")
    w = ir.Value(name="w", type=tensor_type(), shape=ir.Shape([4]), const_value=w_tensor)

    # A node with three outputs, one of them unused and anonymous-typed; x is used twice.
    split = ir.Node("", "Split3", [x, x, None, w], num_outputs=3, name="split")
    a, b, c = split.outputs
    a.name, b.name, c.name = "a", "b", "c"
    a.type = tensor_type()
    a.shape = ir.Shape(["N", 2], denotations=["BATCH", None], frozen=True)
    a.doc_string = "first half"
    a.metadata_props["k"] = "v"
    a.meta["payload"] = {"list": [1, 2]}
    a.meta["bad"] = 1
    a.meta.invalidate("bad")
    b.type = ir.SequenceType(ir.TensorType(ir.DataType.INT64))
    # An output of a node that carries a constant tensor (shared, must not be renamed)
    c_tensor = ir.tensor(np.ones((2,), dtype=np.float32), name="tensor_named_differently")
    c.const_value = c_tensor
    # c has neither type nor shape

    # A node without outputs
    sink = ir.Node("custom", "Sink", [b], num_outputs=0, name="sink")

    # Nested subgraphs capturing the outer values a and w
    inner_out = ir.Node("", "Add", [a, w], name="inner_add")
    inner_out.outputs[0].name = "then_out"
    inner_out.outputs[0].shape = ir.Shape(["N", 2])
    inner_out.outputs[0].type = tensor_type()
    then_graph = ir.Graph([], [inner_out.outputs[0]], nodes=[inner_out], name="then_g")
    else_id = ir.Node("", "Identity", [a], name="else_id")
    else_id.outputs[0].name = "else_out"
    else_graph = ir.Graph([], [else_id.outputs[0]], nodes=[else_id], name="else_g")
    if_node = ir.Node(
        "",
        "If",
        [cond],
        [
            ir.AttrGraph("then_branch", then_graph),
            ir.AttrGraph("else_branch", else_graph),
            ir.AttrInt64("some_int", 3),
            ir.AttrTensor("t", c_tensor),
        ],
        name="if",
        metadata_props={"node_key": "node_value"},
    )
    if_node.meta["m"] = [1]
    y = if_node.outputs[0]
    y.name = "y"
    y.type = tensor_type()
    y.shape = ir.Shape(["N", 2])

    # A call to a function
    call = ir.Node("my", "F", [y], [ir.AttrFloat32("alpha", 2.0)], name="call")
    call.outputs[0].name = "z"
    call.metadata_props["call_site"] = "yes"

    graph = ir.Graph(
        [x, cond],
        [y, call.outputs[0], y],  # duplicate output
        nodes=[split, sink, if_node, call],
        initializers=[w],
        opset_imports={"": 20, "my": 1, "custom": 1},
        name="main",
    )

    # Function with reference attributes: alpha is given at the call site, beta is not
    fx = ir.Value(name="fx")
    fnode = ir.Node(
        "",
        "Scale",
        [fx],
        [
            ir.RefAttr("scale", "alpha", ir.AttributeType.FLOAT),
            ir.RefAttr("bias", "beta", ir.AttributeType.FLOAT),
            ir.AttrString("mode", "m"),
        ],
        name="scale",
        num_outputs=2,
    )
    fnode.outputs[0].name = "fy"
    fnode.outputs[0].shape = ir.Shape([None, 2])
    fnode.outputs[0].type = tensor_type()
    fnode.outputs[0].metadata_props["inner"] = "1"
    fnode.outputs[1].name = "unused"
    fgraph = ir.Graph([fx], [fnode.outputs[0]], nodes=[fnode], opset_imports={"": 20})
    func = ir.Function(
        "my",
        "F",
        "",
        graph=fgraph,
        attributes=[
            ir.Attr("alpha", ir.AttributeType.FLOAT, None),
            ir.Attr("beta", ir.AttributeType.FLOAT, None),
        ],
    )
    return ir.Model(graph, ir_version=10, functions=[func], producer_name="demo")


def all_values(graph):
    vals = []
    for g in [graph, *graph.subgraphs()] if hasattr(graph, "subgraphs") else [graph]:
        vals.extend(g.inputs)
        vals.extend(g.initializers.values())
        for n in g:
            vals.extend(n.outputs)
    return vals


def check_disjoint(orig: ir.Graph, clone: ir.Graph) -> None:
    orig_nodes = {id(n) for n in orig.all_nodes()}
    orig_vals = {id(v) for v in all_values(orig)}
    orig_shapes = {id(v.shape) for v in all_values(orig) if v.shape is not None}
    orig_types = {id(v.type) for v in all_values(orig) if v.type is not None}
    for n in clone.all_nodes():
        assert id(n) not in orig_nodes
        for v in n.inputs:
            assert v is None or id(v) not in orig_vals, v
        for v in n.outputs:
            assert v.producer() is n
    for v in all_values(clone):
        assert id(v) not in orig_vals
        assert v.shape is None or id(v.shape) not in orig_shapes
        assert v.type is None or id(v.type) not in orig_types
        for use_node, _ in v.uses():
            assert id(use_node) not in orig_nodes


def main() -> None:
    model = build_model()
    before = ser(model)
    graph = model.graph
    split, sink, if_node, call = list(graph)
    a, b, c = split.outputs
    c_tensor = c.const_value
    w_tensor = graph.initializers["w"].const_value

    # ---- 1. Model.clone: faithful and disjoint --------------------------------------
    for deep in (False, True):
        # (serializing an initializer names its tensor after the value: "w")
        w_name = w_tensor.name
        clone = model.clone(deep_copy=deep)
        assert ser(clone) == before
        assert ser(model) == before
        check_disjoint(graph, clone.graph)
        csplit, csink, cif, ccall = list(clone.graph)
        ca, cb, cc = csplit.outputs
        assert len(csink.outputs) == 0 and csink.inputs[0] is cb
        # the duplicated input maps to one clone, used twice
        assert csplit.inputs[0] is csplit.inputs[1] is clone.graph.inputs[0]
        assert csplit.inputs[2] is None
        assert csplit.inputs[3] is clone.graph.initializers["w"]
        # duplicate outputs preserved
        assert clone.graph.outputs[0] is clone.graph.outputs[2] is cif.outputs[0]
        # output properties
        assert (ca.name, cb.name, cc.name) == ("a", "b", "c")
        assert ca.shape == a.shape and ca.shape is not a.shape
        assert ca.shape.get_denotation(0) == "BATCH"
        assert a.shape.frozen and not ca.shape.frozen
        assert ca.type == a.type and ca.type is not a.type
        assert cb.type == b.type and cb.type is not b.type
        assert cb.type.elem_type is not b.type.elem_type
        assert cc.type is None and cc.shape is None
        assert ca.doc_string == "first half" and cb.doc_string is None
        assert ca.metadata_props == {"k": "v"} and ca.metadata_props is not a.metadata_props
        assert ca.meta["payload"] == {"list": [1, 2]}
        assert (ca.meta["payload"] is a.meta["payload"]) == (not deep)
        assert not ca.meta.is_valid("bad") and ca.meta.is_valid("payload")
        # tensors are shared and are NOT renamed by cloning
        assert cc.const_value is c_tensor and c_tensor.name == "tensor_named_differently"
        assert clone.graph.initializers["w"].const_value is w_tensor
        assert w_tensor.name == w_name
        # attributes: graphs are cloned, others are shared, order kept
        assert list(cif.attributes) == list(if_node.attributes)
        assert cif.attributes["then_branch"].as_graph() is not if_node.attributes[
            "then_branch"
        ].as_graph()
        assert cif.attributes["some_int"] is if_node.attributes["some_int"]
        assert cif.attributes["t"].value is c_tensor
        cthen = cif.attributes["then_branch"].as_graph()
        # captured values point into the clone
        assert cthen[0].inputs[0] is ca
        assert cthen[0].inputs[1] is clone.graph.initializers["w"]
        assert cthen[0].outputs[0].shape is not if_node.attributes["then_branch"].as_graph()[
            0
        ].outputs[0].shape
        assert cif.metadata_props == {"node_key": "node_value"}
        assert (cif.meta["m"] is if_node.meta["m"]) == (not deep)
        # the function keeps its reference attributes when cloned (not resolved)
        cfunc = clone.functions[("my", "F", "")]
        ofunc = model.functions[("my", "F", "")]
        assert cfunc is not ofunc
        assert list(cfunc[0].attributes) == ["scale", "bias", "mode"]
        assert cfunc[0].attributes["bias"].is_ref()
        assert len(cfunc[0].outputs) == 2 and cfunc[0].outputs[1].name == "unused"
        assert cfunc[0].outputs[0].metadata_props == {"inner": "1"}
        assert cfunc[0].outputs[0].shape is not ofunc[0].outputs[0].shape

        # ---- 2. edits of the clone leave the original unchanged ------------------------
        ca.name = "a_renamed"
        ca.shape[0] = 7
        ca.shape.set_denotation(1, "X")
        ca.type.dtype = ir.DataType.DOUBLE
        cb.type.elem_type.dtype = ir.DataType.INT32
        ca.metadata_props["k"] = "changed"
        ca.meta["new"] = 1
        ca.doc_string = "other"
        cc.const_value = None
        cc.shape = ir.Shape([1])
        cif.attributes.pop("some_int")
        cif.attributes.add(ir.AttrInt64("extra", 1))
        cif.metadata_props["node_key"] = "other"
        cthen[0].replace_input_with(0, cb)
        cthen[0].outputs[0].shape[1] = 99
        csplit.replace_input_with(1, clone.graph.inputs[1])
        clone.graph.remove(ccall, safe=False)
        clone.graph.outputs.pop()
        cfunc[0].attributes.pop("mode")
        cfunc[0].outputs[0].shape[1] = 5
        clone.graph.initializers["w"].name = "w2"  # renames the shared tensor: allowed sharing
        assert w_tensor.name == "w2"
        w_tensor.name = w_name
        assert ser(model) == before, "editing the clone changed the original"
        assert a.shape.dims[0] == ir.SymbolicDim("N") and a.shape.get_denotation(1) is None
        assert "new" not in a.meta and a.metadata_props == {"k": "v"}
        assert c.const_value is c_tensor

    # ---- 3. edits of the original leave a clone unchanged ----------------------------
    model2 = build_model()
    clone2 = model2.clone()
    snap = ser(clone2)
    s2, k2, i2, c2 = list(model2.graph)
    s2.outputs[0].name = "zzz"
    s2.outputs[1].type.elem_type.dtype = ir.DataType.FLOAT
    s2.outputs[2].const_value = None
    s2.outputs[0].metadata_props.clear()
    i2.attributes["then_branch"].as_graph()[0].outputs[0].shape[0] = 3
    i2.attributes.clear()
    model2.graph.remove(c2, safe=False)
    model2.functions[("my", "F", "")][0].outputs[0].shape[0] = 11
    assert ser(clone2) == snap

    # ---- 4. rejected call: a subgraph with captured values ---------------------------
    then_graph = if_node.attributes["then_branch"].as_graph()
    then_before = ser(then_graph)
    try:
        then_graph.clone()
    except Exception as e:  # RuntimeError chain ending in a ValueError
        chain = []
        cur: BaseException | None = e
        while cur is not None:
            chain.append(cur)
            cur = cur.__cause__
        assert isinstance(chain[-1], ValueError), chain
        assert "outer-scope" in str(chain[-1])
        assert [type(x).__name__ for x in chain] == [
            "RuntimeError",
            "RuntimeError",
            "ValueError",
        ], chain
        assert str(chain[0]).startswith("In clone_graph with args")
        assert str(chain[1]).startswith("In clone_node with args")
    else:
        raise AssertionError("expected an error")
    assert ser(then_graph) == then_before and ser(model) == before
    # allowed explicitly: captured values are the originals, everything else is new
    tclone = then_graph.clone(allow_outer_scope_values=True)
    assert tclone[0].inputs[0] is a and tclone[0].inputs[1] is graph.initializers["w"]
    assert tclone[0] is not then_graph[0]
    assert tclone[0].outputs[0].shape is not then_graph[0].outputs[0].shape
    assert ser(tclone) == then_before
    # the clone registered itself as a user of the captured value; dropping it restores
    uses_with = len(a.uses())
    tclone.remove(tclone[0], safe=False)
    tclone_node_inputs_gone = len(a.uses())
    assert ser(model) == before

    # ---- 5. GraphView: node outputs become view-inputs, empty view --------------------
    view = ir.GraphView([a, graph.initializers["w"]], [then_graph[0].outputs[0]], nodes=[then_graph[0]])
    vclone = view.clone()
    assert isinstance(vclone, ir.Graph)
    assert vclone.inputs[0] is not a and vclone.inputs[0].name == "a"
    assert vclone.inputs[0].shape == a.shape and vclone.inputs[0].shape is not a.shape
    assert vclone[0].inputs[0] is vclone.inputs[0]
    assert vclone.inputs[0].producer() is None
    empty = ir.GraphView([], [], nodes=[]).clone()
    assert len(empty) == 0 and not empty.inputs and not empty.outputs
    assert ser(model) == before

    # ---- 6. the inliner (a functional pass) does not alter its input ------------------
    result = inliner.InlinePass()(model.clone())
    assert result.modified
    inlined = [n for n in result.model.graph if n.op_type == "Scale"]
    assert len(inlined) == 1
    # alpha resolved from the call site, beta (not given) dropped, mode kept; order kept
    assert list(inlined[0].attributes) == ["scale", "mode"]
    assert not inlined[0].attributes["scale"].is_ref()
    assert inlined[0].attributes["scale"].value == 2.0
    assert inlined[0].metadata_props.get("call_site") == "yes"
    assert len(inlined[0].outputs) == 2
    assert inlined[0].outputs[0].metadata_props == {"inner": "1"}
    assert inlined[0].outputs[0].shape == ir.Shape([None, 2])
    assert ser(model) == before
    # the function of the original model still has its three attributes
    assert list(model.functions[("my", "F", "")][0].attributes) == ["scale", "bias", "mode"]

    print("OK", uses_with, tclone_node_inputs_gone)


if __name__ == "__main__":
    main()
