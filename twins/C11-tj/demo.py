"""Demo for C11: graph iteration stays well defined while the graph is edited.

Exercises onnx_ir.Graph / onnx_ir.Function (backed by the DoublyLinkedSet in
onnx_ir._linked_list) through the public API: iteration forwards / backwards /
recursively while nodes are appended, inserted, removed and moved, plus a few
unusual inputs (rejected calls, duplicates, self-anchored inserts, empty inputs).
"""

from __future__ import annotations

import hashlib
import random

import onnx_ir as ir
from onnx_ir._linked_list import DoublyLinkedSet


class Tok:
    """A hashable value compared by identity, with a readable repr."""

    def __init__(self, name: str) -> None:
        self.name = name

    def __repr__(self) -> str:
        return repr(self.name)


def mk(name: str, **attrs) -> ir.Node:
    return ir.Node("", "Op", inputs=[], name=name, attributes=list(attrs.values()), num_outputs=1)


def names(nodes) -> list[str]:
    return [n.name for n in nodes]


def fresh(n: int, prefix: str = "n") -> tuple[ir.Graph, list[ir.Node]]:
    nodes = [mk(f"{prefix}{i}") for i in range(n)]
    return ir.Graph([], [], nodes=nodes, name="g"), nodes


def expect_raises(exc_type, fn, *args, contains: str | None = None):
    try:
        fn(*args)
    except exc_type as e:  # exact-ish: must be this type
        assert type(e) is exc_type, (type(e), exc_type)
        if contains is not None:
            assert contains in str(e), str(e)
        return e
    raise AssertionError(f"{fn} did not raise {exc_type.__name__}")


def check_consistent(g, model: list[ir.Node]) -> None:
    assert list(g) == model, (names(g), names(model))
    assert list(reversed(g)) == model[::-1]
    assert len(g) == len(model)
    for i, n in enumerate(model):
        assert g[i] is n
        assert g[i - len(model)] is n
        assert n in g
    if model:
        assert g[0] is model[0] and g[-1] is model[-1]
    expect_raises(IndexError, g.__getitem__, len(model))
    expect_raises(IndexError, g.__getitem__, -len(model) - 1)
    assert g[1:3] == tuple(model[1:3])


# --------------------------------------------------------------------------
# 1. Scripted single-iterator scenarios with hand-computed expectations
# --------------------------------------------------------------------------
def scenario_forward_edits() -> None:
    g, n = fresh(6)
    x, y, z, w = mk("x"), mk("y"), mk("z"), mk("w")
    seen = []
    for node in g:
        seen.append(node.name)
        assert node.graph is g and node in g
        if node is n[1]:
            g.insert_before(node, [x])  # before the cursor: must be skipped
            g.insert_after(node, [y, z])  # after the cursor: must be seen, in order
        elif node is y:
            g.remove(node)  # remove current: resume with its old successor z
        elif node is n[2]:
            g.remove(n[3])  # remove a later node: never yielded
            g.remove(n[0])  # remove an earlier node: no effect on the cursor
        elif node is n[4]:
            # move the current node to the front: resume at the original place
            g.insert_before(g[0], [node])
            g.append(w)
    assert seen == ["n0", "n1", "y", "z", "n2", "n4", "n5", "w"], seen
    check_consistent(g, [n[4], x, n[1], z, n[2], n[5], w])
    assert y.graph is None and n[3].graph is None and n[0].graph is None


def scenario_backward_edits() -> None:
    g, n = fresh(5)
    x, y = mk("x"), mk("y")
    seen = []
    for node in reversed(g):
        seen.append(node.name)
        assert node.graph is g
        if node is n[3]:
            g.insert_after(node, [x])  # behind a backwards cursor: skipped
            g.insert_before(node, [y])  # ahead of a backwards cursor: seen
        elif node is y:
            g.remove(y)  # resume with the node that preceded it
        elif node is n[2]:
            g.append(node)  # move current to the end; resume at the old place
    assert seen == ["n4", "n3", "y", "n2", "n1", "n0"], seen
    check_consistent(g, [n[0], n[1], n[3], x, n[4], n[2]])


def scenario_remove_everything_while_iterating() -> None:
    g, n = fresh(4)
    seen = []
    for node in g:
        seen.append(node.name)
        g.remove(node)
    assert seen == ["n0", "n1", "n2", "n3"]
    check_consistent(g, [])
    assert list(g) == [] and list(reversed(g)) == []
    # Removed nodes can be adopted again (same or other graph)
    g.extend([n[2], n[0]])
    check_consistent(g, [n[2], n[0]])


def scenario_several_iterators() -> None:
    g, n = fresh(5)
    it1, it2, rit = iter(g), iter(g), reversed(g)
    assert next(it1) is n[0] and next(it1) is n[1]  # it1 at n1
    assert next(it2) is n[0]  # it2 at n0
    assert next(rit) is n[4]  # rit at n4
    a = mk("a")
    g.insert_after(n[0], [a])  # after it2, before it1
    g.remove(n[1])  # the current node of it1
    g.remove(n[4])  # the current node of rit
    assert names(it1) == ["n2", "n3"]
    assert names(it2) == ["a", "n2", "n3"]
    assert names(rit) == ["n3", "n2", "a", "n0"]
    check_consistent(g, [n[0], a, n[2], n[3]])
    # exhausted iterators stay exhausted
    for it in (it1, it2, rit):
        assert next(it, None) is None


# --------------------------------------------------------------------------
# 2. Unusual inputs: rejected calls, duplicates, self anchors, empty inputs
# --------------------------------------------------------------------------
def scenario_unusual_inputs() -> None:
    g, n = fresh(4)
    other, m = fresh(2, prefix="m")
    stranger = mk("stranger")
    base = list(n)

    # Rejected: anchor not in this graph / node of another graph / absent node.
    expect_raises(ValueError, g.insert_after, stranger, [mk("q")])
    expect_raises(ValueError, g.insert_before, m[0], [mk("q")])
    expect_raises(ValueError, g.insert_after, n[0], [mk("q1"), m[1]])
    expect_raises(ValueError, g.append, m[0])
    expect_raises(ValueError, g.remove, stranger)
    expect_raises(ValueError, g.remove, [n[0], m[0]])
    check_consistent(g, base)  # nothing changed by the rejected calls
    check_consistent(other, m)
    assert all(x.graph is g for x in n) and all(x.graph is other for x in m)

    # Empty inputs are no-ops.
    g.insert_after(n[1], [])
    g.insert_before(n[1], ())
    g.extend([])
    check_consistent(g, base)

    # A node inserted relative to itself / to its own neighbour: stays in place.
    g.insert_after(n[1], [n[1]])
    g.insert_before(n[1], [n[1]])
    g.insert_before(n[2], [n[1]])
    g.insert_after(n[1], n[2])  # single node instead of an iterable
    g.append(n[3])  # already the last one
    check_consistent(g, base)

    # Duplicates in one call: the last occurrence wins, set stays duplicate free.
    a, b = mk("a"), mk("b")
    g.insert_after(n[0], [a, b, a])
    check_consistent(g, [n[0], b, a, n[1], n[2], n[3]])
    # Anchor itself among the new values: it is moved behind the earlier ones.
    g.insert_after(n[1], [n[3], n[1], n[0]])
    check_consistent(g, [b, a, n[3], n[1], n[0], n[2]])
    # insert_before where the predecessor itself is re-inserted
    g.insert_before(n[1], [n[2], n[3]])
    check_consistent(g, [b, a, n[2], n[3], n[1], n[0]])
    g.extend([a, a, b])
    check_consistent(g, [n[2], n[3], n[1], n[0], a, b])

    # Same on the container itself, including its own error messages.
    a, b, c, p, q, u, v, k, zz = (Tok(x) for x in ("a", "b", "c", "p", "q", "u", "v", "k", "zz"))
    s = DoublyLinkedSet([a, b, c])
    e = expect_raises(ValueError, s.remove, zz)
    assert str(e) == "Value 'zz' is not in the list"
    e = expect_raises(ValueError, s.insert_after, zz, [q])
    assert str(e) == "Value 'zz' is not in the list"
    e = expect_raises(ValueError, s.insert_before, zz, [q])
    assert str(e) == "Value 'zz' is not in the list"
    e = expect_raises(TypeError, s.append, None)
    assert str(e) == "DoublyLinkedSet does not support None values"
    assert list(s) == [a, b, c] and len(s) == 3 and q not in s
    # A None in the middle: the values before it are in, the rest is not.
    expect_raises(TypeError, s.insert_after, a, [p, None, q])
    assert list(s) == [a, p, b, c] and len(s) == 4
    assert repr(s) == "DoublyLinkedSet(['a', 'p', 'b', 'c'])"

    # A lazily evaluated input that edits the list while it is consumed.
    def gen():
        yield u
        s.remove(b)
        yield v
        yield a

    s.insert_before(c, gen())
    assert list(s) == [p, u, v, a, c], list(s)
    assert list(reversed(s)) == [c, a, v, u, p] and len(s) == 5
    # Moving a value between two sets while both are iterated.
    t = DoublyLinkedSet([k])
    it_s, it_t = iter(s), iter(t)
    assert next(it_s) is p and next(it_s) is u and next(it_t) is k
    s.remove(u)
    t.append(u)
    assert list(it_s) == [v, a, c] and list(it_t) == [u]
    assert s[0] is p and s[-1] is c and s[1] is v and s[-2] is a
    assert s[1:-1] == (v, a) and s[::-1] == (c, a, v, p)
    expect_raises(IndexError, s.__getitem__, 4)
    expect_raises(IndexError, s.__getitem__, -5)
    expect_raises(IndexError, DoublyLinkedSet().__getitem__, 0)


# --------------------------------------------------------------------------
# 3. Recursive iteration through subgraphs and through a Function
# --------------------------------------------------------------------------
def scenario_nested() -> None:
    inner, i_nodes = fresh(3, prefix="i")
    if_node = mk("if", then_branch=ir.Attr("then_branch", ir.AttributeType.GRAPH, inner))
    head, tail = mk("head"), mk("tail")
    g = ir.Graph([], [], nodes=[head, if_node, tail], name="outer")
    extra_inner, extra_outer, late = mk("extra_inner"), mk("extra_outer"), mk("late")
    seen = []
    for node in g.all_nodes():
        seen.append(node.name)
        assert node.graph is not None
        if node is i_nodes[0]:
            inner.insert_after(node, [extra_inner])  # seen
            inner.remove(i_nodes[1])  # later node of the subgraph: skipped
            g.insert_before(if_node, [extra_outer])  # before outer cursor: skipped
            g.insert_after(tail, [late])  # after outer cursor: seen
        elif node is i_nodes[2]:
            g.remove(if_node)  # the outer cursor node: resume with tail
    assert seen == ["head", "if", "i0", "extra_inner", "i2", "tail", "late"], seen
    check_consistent(g, [head, extra_outer, tail, late])
    check_consistent(inner, [i_nodes[0], extra_inner, i_nodes[2]])
    assert names(reversed(list(g.all_nodes()))) == names(reversed(g.all_nodes()))

    # Function delegates to the same container.
    fg, f_nodes = fresh(3, prefix="f")
    fn = ir.Function("dom", "fn", graph=fg, attributes=[])
    new = mk("new")
    seen = []
    for node in fn:
        seen.append(node.name)
        if node is f_nodes[0]:
            fn.insert_after(f_nodes[1], [new])
            fn.remove(f_nodes[1])
    assert seen == ["f0", "f2"] or seen == ["f0", "new", "f2"], seen
    check_consistent(fn, [f_nodes[0], new, f_nodes[2]])
    assert seen == ["f0", "new", "f2"], seen


# --------------------------------------------------------------------------
# 4. Randomised interleavings of iterator steps and edits against a list model
# --------------------------------------------------------------------------
def model_insert(model: list, point, values) -> None:
    """Reference semantics of insert-after on an ordered set (point None = front)."""
    for v in values:
        if v is point:
            continue
        if v in model:
            model.remove(v)
        idx = 0 if point is None else model.index(point) + 1
        model.insert(idx, v)
        point = v


def random_run(seed: int, digest) -> None:
    rng = random.Random(seed)
    g, start = fresh(rng.randrange(0, 9))
    model = list(start)
    touched: set[int] = set()
    pool = [mk(f"p{i}") for i in range(6)]  # nodes moving in and out
    iters = []
    for k in range(rng.randrange(1, 5)):
        backwards = rng.random() < 0.4
        iters.append((backwards, reversed(g) if backwards else iter(g), []))

    def pick_values():
        cands = model + pool
        vals = [rng.choice(cands) for _ in range(rng.randrange(0, 4))] if cands else []
        for v in vals:
            touched.add(id(v))
        return vals

    for _ in range(rng.randrange(5, 40)):
        op = rng.randrange(8)
        if op <= 2 and iters:  # step one iterator
            backwards, it, out = rng.choice(iters)
            node = next(it, None)
            if node is not None:
                assert node.graph is g and node in model, "yielded a foreign node"
                out.append(node)
        elif op == 3:
            vals = pick_values()
            g.extend(vals)
            for v in vals:
                model_insert(model, model[-1] if model else None, [v])
        elif op == 4 and model:
            anchor = rng.choice(model)
            vals = pick_values()
            g.insert_after(anchor, vals)
            model_insert(model, anchor, vals)
        elif op == 5 and model:
            anchor = rng.choice(model)
            vals = pick_values()
            i = model.index(anchor)
            g.insert_before(anchor, vals)
            model_insert(model, model[i - 1] if i else None, vals)
        elif op == 6 and model:
            victim = rng.choice(model)
            touched.add(id(victim))
            g.remove(victim)
            model.remove(victim)
        elif op == 7 and model:
            victims = list({id(v): v for v in pick_values() if v in model}.values())
            # one by one: Graph.remove() walks a frozenset, whose order is not
            # reproducible between runs and would make the recorded trace flaky
            for v in victims:
                g.remove([v])
                model.remove(v)
        check_consistent(g, model)

    # edits stopped: every iterator terminates, within a bounded number of steps
    for backwards, it, out in iters:
        for _ in range(len(model) + 1):
            node = next(it, None)
            if node is None:
                break
            assert node.graph is g and node in model
            out.append(node)
        else:
            raise AssertionError("iterator did not terminate")
        untouched = [x for x in start if id(x) not in touched]
        expected = untouched[::-1] if backwards else untouched
        assert [x for x in out if id(x) not in touched] == expected, (
            names(out),
            names(expected),
        )
        digest.update(("R" if backwards else "F").encode() + ",".join(names(out)).encode())
    digest.update(("|" + ",".join(names(g))).encode())


def main() -> None:
    scenario_forward_edits()
    scenario_backward_edits()
    scenario_remove_everything_while_iterating()
    scenario_several_iterators()
    scenario_unusual_inputs()
    scenario_nested()
    digest = hashlib.sha256()
    for seed in range(400):
        random_run(seed, digest)
    print("trace digest:", digest.hexdigest())
    expected = "d893653d7ee6866ffeaa32748aa13d9193ba137fc5e6d7f992ee2161c8f9f718"
    assert digest.hexdigest() == expected, "iteration traces differ from the recorded ones"
    print("OK")


if __name__ == "__main__":
    main()
