"""Demo for C08: an interrupted external-data save never damages an existing data file.

Focuses on the sharded write path (shard jobs, shard collision check, locked
callbacks) and the single-file fallback, through the public API only.
"""

from __future__ import annotations

import os
import sys
import tempfile
import threading

import numpy as np

import onnx_ir as ir
from onnx_ir import external_data as ed


def make_model(n: int = 6, size: int = 64, shared: bool = False) -> ir.Model:
    values = []
    shared_tensor = ir.Tensor(np.full(size, 99, dtype=np.float32), name="shared")
    for i in range(n):
        if shared and i in (1, 4):
            tensor = shared_tensor  # the same tensor object under two initializers
        else:
            tensor = ir.Tensor(np.full(size, i + 1, dtype=np.float32), name=f"w{i}")
        v = ir.Value(name=f"w{i}", const_value=tensor)
        values.append(v)
    graph = ir.Graph([], [], nodes=[], initializers=values, name="g", opset_imports={"": 20})
    return ir.Model(graph, ir_version=10)


def snapshot(directory: str) -> dict[str, bytes]:
    result = {}
    for root, dirs, files in os.walk(directory):
        for d in dirs:
            result[os.path.relpath(os.path.join(root, d), directory) + "/"] = b""
        for f in files:
            p = os.path.join(root, f)
            with open(p, "rb") as fh:
                result[os.path.relpath(p, directory)] = fh.read()
    return result


def expect(cond: bool, message: str) -> None:
    if not cond:
        print("FAIL:", message)
        sys.exit(1)
    print("ok:", message)


class Boom(Exception):
    pass


def consts(model: ir.Model):
    return [v.const_value for v in model.graph.initializers.values()]


def check_shard_collision(max_workers):
    with tempfile.TemporaryDirectory() as d:
        # 6 tensors of 256 bytes, 512 bytes per shard -> 3 shards.
        second = os.path.join(d, "m-00002-of-00003.data")
        with open(second, "wb") as fh:
            fh.write(b"precious bytes")
        os.chmod(second, 0o640)
        before = snapshot(d)
        model = make_model()
        tensors_before = consts(model)
        calls = []
        try:
            ed.unload_from_model(
                model,
                d,
                "m.data",
                max_shard_size_bytes=512,
                max_workers=max_workers,
                callback=lambda t, info: calls.append(info),
            )
        except FileExistsError as e:
            expect("m-00002-of-00003.data" in str(e), "collision names the existing shard")
            expect(
                "m-00001-of-00003.data" not in str(e), "collision lists only existing shards"
            )
        else:
            expect(False, "sharded save over an existing shard must be refused")
        expect(snapshot(d) == before, f"refused sharded save left directory as is (w={max_workers})")
        expect(os.stat(second).st_mode & 0o777 == 0o640, "mode of the existing shard kept")
        expect(calls == [], "no callback before the collision check")
        expect(
            all(a is b for a, b in zip(consts(model), tensors_before)),
            "model untouched by the refused save",
        )


def check_sharded_success(max_workers, shared):
    with tempfile.TemporaryDirectory() as d:
        bystander = os.path.join(d, "m.data")  # un-sharded name: not a destination here
        with open(bystander, "wb") as fh:
            fh.write(b"bystander")
        model = make_model(shared=shared)
        originals = [t.numpy().copy() for t in consts(model)]
        infos = []
        active = []
        overlap = []
        lock = threading.Lock()

        def cb(tensor, info):
            # Callbacks are serialized: never two at the same time.
            with lock:
                active.append(1)
                if len(active) > 1:
                    overlap.append(1)
            infos.append(info)
            with lock:
                active.pop()

        ed.unload_from_model(
            model, d, "m.data", max_shard_size_bytes=512, max_workers=max_workers, callback=cb
        )
        names = sorted(os.listdir(d))
        expect(
            names
            == [
                "m-00001-of-00003.data",
                "m-00002-of-00003.data",
                "m-00003-of-00003.data",
                "m.data",
            ],
            f"three shards and nothing else (w={max_workers}, shared={shared})",
        )
        with open(bystander, "rb") as fh:
            expect(fh.read() == b"bystander", "pre-existing non-destination file unchanged")
        expect(not overlap, "callbacks never overlap")
        expect(sorted(i.index for i in infos) == list(range(6)), "global indices 0..5 once each")
        expect(all(i.total == 6 and i.shard_total == 2 for i in infos), "totals reported")
        expect(
            all(i.index == 2 * (int(i.filename[2:7]) - 1) + i.shard_index for i in infos),
            "global index = shard start + shard index",
        )
        for value, original in zip(model.graph.initializers.values(), originals):
            t = value.const_value
            expect(isinstance(t, ir.ExternalTensor), f"{value.name} is external")
            np.testing.assert_array_equal(t.numpy(), original)
        for i in range(3):
            p = os.path.join(d, f"m-0000{i + 1}-of-00003.data")
            expect(os.path.getsize(p) == 512, f"shard {i + 1} has 512 bytes")


def check_sharded_failure(max_workers):
    with tempfile.TemporaryDirectory() as d:
        other = os.path.join(d, "other.bin")
        with open(other, "wb") as fh:
            fh.write(b"x" * 10)
        model = make_model()
        tensors_before = consts(model)

        def cb(tensor, info):
            if info.index == 3:  # second tensor of the second shard
                raise Boom("callback failed")

        try:
            ed.unload_from_model(
                model, d, "m.data", max_shard_size_bytes=512, max_workers=max_workers, callback=cb
            )
        except Boom:
            pass
        else:
            expect(False, "callback exception must propagate")
        after = snapshot(d)
        expect(after["other.bin"] == b"x" * 10, "pre-existing file unchanged after failure")
        expect(
            not any(name.startswith(".") for name in after),
            f"no temporary file or directory remains (w={max_workers}): {sorted(after)}",
        )
        expect("m-00002-of-00003.data" not in after, "failed shard was never published")
        for name, content in after.items():
            if name.startswith("m-"):
                expect(len(content) == 512, f"published shard {name} is complete")
        expect(
            all(a is b for a, b in zip(consts(model), tensors_before)),
            "model untouched by the failed save",
        )


def check_single_file_failure_and_resave():
    with tempfile.TemporaryDirectory() as d:
        model = make_model()
        ed.unload_from_model(model, d, "m.data")
        path = os.path.join(d, "m.data")
        with open(path, "rb") as fh:
            old = fh.read()
        expect(len(old) == 6 * 256, "single data file written")

        # Re-save over the same file from a model whose tensors read from it, and fail.
        def cb(tensor, info):
            if info.index == 4:
                raise Boom()

        try:
            ed.unload_from_model(model, d, "m.data", callback=cb)
        except Boom:
            pass
        else:
            expect(False, "callback exception must propagate (single file)")
        expect(snapshot(d) == {"m.data": old}, "failed re-save: old bytes, nothing else")
        for i, t in enumerate(consts(model)):
            np.testing.assert_array_equal(t.numpy(), np.full(64, i + 1, dtype=np.float32))
        print("ok: external tensors still valid after the failed re-save")

        # A sharded save next to it that yields ONE shard uses the plain name and is refused.
        try:
            ed.unload_from_model(model, d, "m.data", max_shard_size_bytes=1 << 20)
        except FileExistsError:
            pass
        else:
            expect(False, "single-shard sharded save over existing file must be refused")
        expect(snapshot(d) == {"m.data": old}, "refused one-shard save: old bytes, nothing else")
        np.testing.assert_array_equal(consts(model)[2].numpy(), np.full(64, 3, dtype=np.float32))

        # Successful re-save replaces the file and invalidates the old tensors.
        old_tensors = consts(model)
        ed.unload_from_model(model, d, "m.data")
        with open(path, "rb") as fh:
            expect(fh.read() == old, "re-save wrote the complete new (identical) bytes")
        try:
            old_tensors[0].numpy()
        except Exception as e:  # noqa: BLE001
            print("ok: replaced backing file invalidated old tensor:", type(e).__name__)
        else:
            expect(False, "old tensor should be invalidated after replacement")
        np.testing.assert_array_equal(consts(model)[0].numpy(), np.full(64, 1, dtype=np.float32))


def check_unusual_inputs():
    with tempfile.TemporaryDirectory() as d:
        # Rejected options: nothing is created.
        model = make_model()
        for kwargs in (
            {"max_shard_size_bytes": 0},
            {"max_shard_size_bytes": -5},
            {"max_shard_size_bytes": 512, "max_workers": 0},
            {"max_shard_size_bytes": 512, "max_in_flight_bytes": 0},
        ):
            try:
                ed.unload_from_model(model, d, "m.data", **kwargs)
            except ValueError:
                pass
            else:
                expect(False, f"{kwargs} must be rejected")
        expect(os.listdir(d) == [], "rejected calls create nothing")

        # Empty model with sharding: one (empty) shard -> plain name.
        empty = make_model(n=0)
        existing = os.path.join(d, "e.data")
        with open(existing, "wb") as fh:
            fh.write(b"keep")
        try:
            ed.unload_from_model(empty, d, "e.data", max_shard_size_bytes=512, max_workers=4)
        except FileExistsError:
            pass
        else:
            expect(False, "empty sharded save over existing file must be refused")
        expect(snapshot(d) == {"e.data": b"keep"}, "empty sharded save refused, file kept")
        ed.unload_from_model(empty, d, "f.data", max_shard_size_bytes=512, max_workers=4)
        expect(snapshot(d) == {"e.data": b"keep", "f.data": b""}, "empty sharded save: empty file")

        # Oversized tensors: every tensor in its own shard, parallel.
        model = make_model(n=3)
        ed.unload_from_model(model, d, "big.data", max_shard_size_bytes=10, max_workers=8)
        names = sorted(n for n in os.listdir(d) if n.startswith("big"))
        expect(
            names == [f"big-0000{i}-of-00003.data" for i in (1, 2, 3)], "oversized shards written"
        )
        # ir.save over those shards is refused as well and keeps them.
        before = snapshot(d)
        try:
            ir.save(
                make_model(n=3),
                os.path.join(d, "model.onnx"),
                external_data="big.data",
                size_threshold_bytes=0,
                max_shard_size_bytes=10,
            )
        except FileExistsError:
            pass
        else:
            expect(False, "ir.save over existing shards must be refused")
        after = snapshot(d)
        expect(
            {k: v for k, v in after.items() if k != "model.onnx"} == before,
            "ir.save refusal changed no data file",
        )


def main() -> None:
    for w in (None, 1, 2, 8):
        check_shard_collision(w)
        check_sharded_success(w, shared=False)
        check_sharded_failure(w)
    check_sharded_success(4, shared=True)
    check_sharded_success(None, shared=True)
    check_single_file_failure_and_resave()
    check_unusual_inputs()
    print("ALL OK")


if __name__ == "__main__":
    main()
