"""Demo for C20: journaling observes without interfering and always restores the classes.

Exercises the wrap/restore machinery of onnx_ir.journaling through the public API:
same results inside and outside journals, one entry per instrumented call in program
order, nesting up to depth 3, exceptions thrown out of the block, rejected calls,
empty and duplicate inputs, and no strong references kept by entries.
Exits 0 on success; raises AssertionError otherwise.
"""

from __future__ import annotations

import gc
import re

import numpy as np

import onnx_ir as ir
from onnx_ir import _core, _graph_containers
from onnx_ir.journaling import Journal, get_current_journal

# Every attribute that a journal replaces on entry and must put back on exit.
INSTRUMENTED = {
    _core.TensorBase: ["__init__"],
    _core.Node: [
        "__init__", "name", "domain", "version", "op_type", "overload",
        "resize_inputs", "prepend", "append", "resize_outputs", "graph",
    ],
    _core.Value: [
        "__init__", "name", "type", "shape", "const_value",
        "replace_all_uses_with", "merge_shapes",
    ],
    _core.Graph: [
        "__init__", "register_initializer", "append", "extend", "remove",
        "insert_after", "insert_before", "sort",
    ],
    _core.Model: ["__init__"],
    _core.Function: ["__init__", "name", "domain", "overload"],
    _core.Attr: ["__init__"],
    _graph_containers._GraphIO: [
        "append", "extend", "insert", "pop", "remove", "clear", "__setitem__",
    ],
    _graph_containers.GraphInitializers: ["__setitem__", "__delitem__"],
    _graph_containers.Attributes: ["__setitem__"],
}


# Method (non-setter) operations the scenario performs, in program order, including
# the ones the library performs on behalf of a public call (Graph.__init__ extends,
# Node.append inserts into the graph, register_initializer sets the initializer ...).
EXPECTED_STRUCTURAL = """
Node.set_attribute Graph.extend Graph.extend Graph.append Graph.extend Graph.extend
Graph.append Graph.append Graph.extend Graph.remove Graph.remove Graph.insert_before
Graph.insert_after Graph.insert_after Graph.remove Graph.remove Graph.sort Graph.extend
Node.resize_inputs Node.resize_inputs Node.resize_outputs Node.resize_outputs Node.append
Graph.insert_after Node.prepend Graph.insert_before Node.set_attribute Node.set_attribute
Value.merge_shapes Value.merge_shapes Value.replace_all_uses_with Graph.append_io
Graph.extend_io Graph.insert_io Graph.append_io Graph.pop_io Graph.pop_io Graph.remove_io
Graph.set_io Graph.set_io Graph.append_io Graph.remove_io Graph.clear_io Graph.pop_io
Graph.register_initializer Graph.set_initializer Graph.register_initializer
Graph.set_initializer Graph.set_initializer Graph.delete_initializer
Graph.delete_initializer Graph.extend
""".split()


def class_snapshot():
    """The implementations currently installed on the IR classes."""
    snap = {}
    for cls, names in INSTRUMENTED.items():
        for name in names:
            attr = cls.__dict__[name]
            if isinstance(attr, property):
                snap[cls.__name__, name] = ("property", attr.fget, attr.fset)
            else:
                snap[cls.__name__, name] = ("function", attr)
    return snap


def attempt(log, label, func):
    """Run func, logging its return value or its exception."""
    try:
        result = func()
    except Exception as e:  # noqa: BLE001
        # Anonymous objects print their id(); that is the only run-dependent part.
        message = re.sub(r"(anonymous(?:_node)?:)\d+", r"\1<id>", str(e))
        log.append((label, "raised", type(e).__name__, message))
    else:
        if isinstance(result, (_core.Node, _core.Value)):
            result = ("obj", result.name)
        log.append((label, "returned", repr(result)))


def describe(graph):
    return (
        graph.name,
        [n.name for n in graph],
        [(n.name, n.op_type, n.domain, n.version, n.overload,
          [v.name if v is not None else None for v in n.inputs],
          [v.name for v in n.outputs],
          sorted(n.attributes)) for n in graph],
        [v.name for v in graph.inputs],
        [v.name for v in graph.outputs],
        sorted(graph.initializers),
    )


def scenario():
    """A fixed sequence of IR operations, including rejected ones.

    Returns (log, state): what every step returned or raised, and the resulting IR.
    """
    log = []
    x = ir.Value(name="x", type=ir.TensorType(ir.DataType.FLOAT), shape=ir.Shape([2, "N"]))
    y = ir.Value(name="y")
    w = ir.Value(name="w")
    a = ir.Node("", "Add", [x, y], name="a")
    b = ir.Node("", "Mul", [a.outputs[0], w], name="b", attributes=[ir.AttrInt64("k", 1)])
    c = ir.Node("custom", "Relu", [b.outputs[0]], name="c", num_outputs=2)
    d = ir.Node("", "Neg", [x], name="d")
    e = ir.Node("", "Abs", [x], name="e")
    for node in (a, b, c, d, e):
        for i, out in enumerate(node.outputs):
            out.name = f"{node.name}_out{i}"

    graph = ir.Graph([x, y], [c.outputs[0]], nodes=[a], name="g")
    other = ir.Graph([], [], nodes=[], name="other")

    # Graph mutators
    attempt(log, "append b", lambda: graph.append(b))
    attempt(log, "extend []", lambda: graph.extend([]))
    attempt(log, "extend [c]", lambda: graph.extend([c]))
    attempt(log, "append b again (same graph)", lambda: graph.append(b))
    attempt(log, "other.append b (rejected)", lambda: other.append(b))
    attempt(log, "other.extend [d, a] (rejected as a whole)", lambda: other.extend([d, a]))
    attempt(log, "other nodes", lambda: [n.name for n in other])
    attempt(log, "other.remove d (rejected)", lambda: other.remove(d))
    attempt(log, "other.remove d again (rejected)", lambda: other.remove(d))
    attempt(log, "insert_before a [d]", lambda: graph.insert_before(a, [d]))
    attempt(log, "insert_after c (e, e) duplicates", lambda: graph.insert_after(c, (e, e)))
    attempt(log, "insert_after foreign", lambda: graph.insert_after(ir.Node("", "X", []), []))
    attempt(log, "remove e safe", lambda: graph.remove(e, safe=True))
    attempt(log, "remove a safe (rejected: still used)", lambda: graph.remove(a, safe=True))
    attempt(log, "sort", lambda: graph.sort())

    # Node mutators
    attempt(log, "set name", lambda: setattr(a, "name", "a2"))
    attempt(log, "set op_type", lambda: setattr(d, "op_type", "Neg2"))
    attempt(log, "set domain", lambda: setattr(d, "domain", "dom"))
    attempt(log, "set version", lambda: setattr(d, "version", 7))
    attempt(log, "set overload", lambda: setattr(d, "overload", "ov"))
    attempt(log, "resize_inputs grow", lambda: d.resize_inputs(3))
    attempt(log, "resize_inputs shrink", lambda: d.resize_inputs(1))
    attempt(log, "resize_outputs grow", lambda: d.resize_outputs(2))
    attempt(log, "resize_outputs shrink used (rejected)", lambda: a.resize_outputs(0))
    attempt(log, "node.append", lambda: a.append(e))
    attempt(log, "node.prepend", lambda: a.prepend(ir.Node("", "Id", [x], name="p")))
    attempt(log, "set graph None", lambda: setattr(e, "graph", None))
    attempt(log, "set attribute", lambda: b.attributes.__setitem__("k", ir.AttrInt64("k", 5)))
    attempt(log, "set attribute wrong key (rejected)",
            lambda: b.attributes.__setitem__("zz", ir.AttrInt64("k", 5)))

    # Value mutators
    attempt(log, "value name", lambda: setattr(w, "name", "w2"))
    attempt(log, "value type", lambda: setattr(w, "type", ir.TensorType(ir.DataType.INT64)))
    attempt(log, "value shape", lambda: setattr(w, "shape", ir.Shape([1])))
    attempt(log, "merge_shapes", lambda: x.merge_shapes(ir.Shape([2, 3])))
    attempt(log, "merge_shapes conflict (rejected)", lambda: x.merge_shapes(ir.Shape([5, 3])))
    attempt(log, "const_value", lambda: setattr(
        w, "const_value", ir.tensor(np.array([3], dtype=np.int64), name="w2")))
    attempt(log, "replace_all_uses_with", lambda: y.replace_all_uses_with(w))

    # Graph inputs / outputs containers
    attempt(log, "inputs.append", lambda: graph.inputs.append(w))
    attempt(log, "inputs.extend ()", lambda: graph.inputs.extend(()))
    attempt(log, "inputs.insert", lambda: graph.inputs.insert(0, ir.Value(name="i0")))
    attempt(log, "inputs.append node output (rejected)", lambda: graph.inputs.append(
        a.outputs[0]))
    attempt(log, "inputs.pop", lambda: graph.inputs.pop())
    attempt(log, "inputs.pop(0)", lambda: graph.inputs.pop(0))
    attempt(log, "inputs.remove missing (rejected)", lambda: graph.inputs.remove(
        ir.Value(name="nope")))
    attempt(log, "inputs[0] = y", lambda: graph.inputs.__setitem__(0, y))
    attempt(log, "inputs[9] = y (rejected)", lambda: graph.inputs.__setitem__(9, y))
    attempt(log, "outputs.append dup", lambda: graph.outputs.append(c.outputs[0]))
    attempt(log, "outputs.remove", lambda: graph.outputs.remove(c.outputs[0]))
    attempt(log, "other.outputs.clear (empty)", lambda: other.outputs.clear())
    attempt(log, "other.inputs.pop (empty, rejected)", lambda: other.inputs.pop())

    # Initializers
    attempt(log, "register_initializer", lambda: graph.register_initializer(w))
    attempt(log, "register_initializer unnamed (rejected)",
            lambda: graph.register_initializer(ir.Value()))
    k = ir.Value(name="k", const_value=ir.tensor([1.0], name="k"))
    attempt(log, "initializers[k]", lambda: graph.initializers.__setitem__("k", k))
    attempt(log, "initializers wrong key (rejected)",
            lambda: graph.initializers.__setitem__("zz", k))
    attempt(log, "del initializers[k]", lambda: graph.initializers.__delitem__("k"))
    attempt(log, "del initializers[k] again (rejected)",
            lambda: graph.initializers.__delitem__("k"))

    # Function and model
    fn_graph = ir.Graph([], [], nodes=[], name="fg")
    fn = ir.Function("fd", "fname", "", graph=fn_graph, attributes=[])
    attempt(log, "function name", lambda: setattr(fn, "name", "fname2"))
    attempt(log, "function domain", lambda: setattr(fn, "domain", "fd2"))
    attempt(log, "function overload", lambda: setattr(fn, "overload", "o2"))
    model = ir.Model(graph, ir_version=10, functions=[fn])
    attempt(log, "model functions", lambda: sorted(model.functions))

    state = (describe(graph), describe(other), (fn.domain, fn.name, fn.overload))
    return log, state


def ops(journal):
    return [(entry.operation, entry.class_name) for entry in journal.entries]


class Boom(Exception):
    pass


def main() -> None:
    pristine = class_snapshot()
    assert get_current_journal() is None

    # --- Reference run, no journal -------------------------------------------------
    ref_log, ref_state = scenario()
    rejected = [item for item in ref_log if item[1] == "raised"]
    assert len(rejected) >= 8, rejected  # the scenario does contain rejected calls
    assert class_snapshot() == pristine

    # --- Single journal: same results, classes restored, entries in program order ---
    with Journal() as j1:
        assert get_current_journal() is j1
        assert class_snapshot() != pristine
        log1, state1 = scenario()
    assert get_current_journal() is None
    assert class_snapshot() == pristine
    assert (log1, state1) == (ref_log, ref_state)
    expected = ops(j1)
    assert expected, "journal recorded nothing"
    # Spot checks on program order of the recorded operations.
    assert expected[0] == ("init", "Value")
    assert ("sort", "Graph") in expected
    structural = [
        f"{cls}.{op}" for op, cls in expected
        if op in ("set_io", "set_initializer", "set_attribute")
        or not (op == "init" or op.startswith("set_"))
    ]
    assert structural == EXPECTED_STRUCTURAL, structural
    timestamps = [entry.timestamp for entry in j1.entries]
    assert timestamps == sorted(timestamps)

    # Running it once more without a journal records nothing new.
    count = len(j1.entries)
    assert scenario() == (ref_log, ref_state)
    assert len(j1.entries) == count

    # --- Nesting to depth 3 ---------------------------------------------------------
    with Journal() as o1:
        snap1 = class_snapshot()
        r1 = scenario()
        with Journal() as o2:
            snap2 = class_snapshot()
            assert get_current_journal() is o2
            r2 = scenario()
            with Journal() as o3:
                assert get_current_journal() is o3
                r3 = scenario()
            assert get_current_journal() is o2
            assert class_snapshot() == snap2
        assert get_current_journal() is o1
        assert class_snapshot() == snap1
    assert get_current_journal() is None
    assert class_snapshot() == pristine
    assert r1 == r2 == r3 == (ref_log, ref_state)
    # Wrappers chain, so an outer journal sees what happens in the inner blocks too.
    # Entries of one call are the same in every journal; compare as multisets per run
    # and exactly for the innermost one.
    assert ops(o3) == expected
    assert len(o2.entries) == 2 * len(expected)
    assert len(o1.entries) == 3 * len(expected)
    assert ops(o1)[: len(expected)] == expected
    assert ops(o2)[: len(expected)] == expected
    assert sorted(ops(o2)[len(expected):]) == sorted(expected)
    assert sorted(ops(o1)[2 * len(expected):]) == sorted(expected)

    # --- Exceptions thrown out of the block, from depth 1 and from depth 3 ------------
    try:
        with Journal() as e1:
            ir.Value(name="before_boom")
            raise Boom("depth 1")
    except Boom as exc:
        assert str(exc) == "depth 1"
    else:
        raise AssertionError("exception was swallowed")
    assert ops(e1) == [("init", "Value")]
    assert get_current_journal() is None
    assert class_snapshot() == pristine

    try:
        with Journal() as f1:
            with Journal() as f2:
                with Journal() as f3:
                    g = ir.Graph([], [], nodes=[], name="boom_graph")
                    # A rejected IR call is what unwinds all three journals.
                    g.remove(ir.Node("", "NotThere", [], name="nt"))
    except ValueError:
        pass
    else:
        raise AssertionError("rejected call did not raise")
    assert get_current_journal() is None
    assert class_snapshot() == pristine
    for j in (f1, f2, f3):
        assert [op for op in ops(j) if op[1] == "Graph"] == [
            ("extend", "Graph"), ("init", "Graph"), ("remove", "Graph")], ops(j)

    # Re-entering the same journal object appends and restores again.
    with j1:
        ir.Value(name="again")
    assert len(j1.entries) == count + 1
    assert class_snapshot() == pristine
    assert scenario() == (ref_log, ref_state)

    # --- Entries keep no strong references ----------------------------------------------
    with Journal() as w1:
        scenario()
        with Journal() as w2:
            scenario()
    gc.collect()
    alive = [e for j in (w1, w2) for e in j.entries if e.ref is not None and e.obj is not None]
    assert not alive, [(e.operation, e.class_name) for e in alive]
    assert all(isinstance(e.details, (str, type(None))) for e in w1.entries)

    # After everything: fresh objects behave as before and nothing is recorded anywhere.
    totals = [len(j.entries) for j in (j1, o1, o2, o3, e1, f1, f2, f3, w1, w2)]
    assert scenario() == (ref_log, ref_state)
    assert totals == [len(j.entries) for j in (j1, o1, o2, o3, e1, f1, f2, f3, w1, w2)]
    assert class_snapshot() == pristine
    print(f"OK: {len(expected)} entries per run, {len(rejected)} rejected calls per run")


if __name__ == "__main__":
    main()
