"""Demo for C04: all tensor representations agree on values and bytes.

Exercises Tensor / PackedTensor / ExternalTensor / LazyTensor tobytes() and
tofile() (regular file at a non-zero position, BytesIO) for sub-byte, 8-bit,
bfloat16 and native dtypes, including odd element counts, empty tensors, a
rejected construction and a simulated big-endian host.
"""

import io
import math
import os
import sys
import tempfile
import unittest.mock

import ml_dtypes
import numpy as np
import onnx
import onnx.numpy_helper

import onnx_ir as ir
from onnx_ir import _type_casting

DT = ir.DataType
failures = []


def check(cond, msg):
    if not cond:
        failures.append(msg)
        print("FAIL:", msg)


def file_bytes(tensor, prefix=b"HEAD"):
    """tofile() into a regular file at a non-zero position; return what was appended."""
    with tempfile.TemporaryDirectory() as d:
        path = os.path.join(d, "out.bin")
        with open(path, "wb") as f:
            f.write(prefix)
            tensor.tofile(f)
            f.write(b"TAIL")
        with open(path, "rb") as f:
            data = f.read()
    assert data.startswith(prefix) and data.endswith(b"TAIL"), data
    return data[len(prefix) : -4]


def buffer_bytes(tensor):
    buf = io.BytesIO()
    buf.write(b"xy")
    tensor.tofile(buf)
    return buf.getvalue()[2:]


SUB_BYTE = {
    DT.INT4: (ml_dtypes.int4, -8, 7, 4),
    DT.UINT4: (ml_dtypes.uint4, 0, 15, 4),
    DT.INT2: (ml_dtypes.int2, -2, 1, 2),
    DT.UINT2: (ml_dtypes.uint2, 0, 3, 2),
}
SHAPES = [(), (0,), (1,), (3,), (5,), (2, 3), (1, 1, 7), (3, 0, 2), (1, 2, 1, 3, 1)]

rng = np.random.default_rng(0)

with tempfile.TemporaryDirectory() as base_dir:
    counter = 0
    for dtype, (np_dtype, lo, hi, bits) in SUB_BYTE.items():
        for shape in SHAPES:
            size = math.prod(shape)
            values = rng.integers(lo, hi + 1, size=shape).astype(np.int8)
            if size >= 2:
                values.reshape(-1)[0] = lo
                values.reshape(-1)[-1] = hi
            arr = values.astype(np_dtype)
            nbytes = math.ceil(size * bits / 8)

            t = ir.Tensor(arr, dtype=dtype)
            ref = t.tobytes()
            check(len(ref) == nbytes == t.nbytes, f"{dtype} {shape} nbytes")
            check(t.dtype == dtype and t.shape.numpy() == shape, f"{dtype} {shape} meta")

            # ONNX reference encoder
            proto = onnx.numpy_helper.from_array(arr)
            check(proto.data_type == int(dtype), f"{dtype} {shape} onnx dtype")
            check(proto.raw_data == ref, f"{dtype} {shape} onnx raw_data")

            # packed representation
            pack = _type_casting.pack_4bitx2 if bits == 4 else _type_casting.pack_2bitx4
            packed = ir.PackedTensor(pack(arr), dtype, shape=shape)
            # offset external
            counter += 1
            fname = f"w{counter}.bin"
            offset = 3 + counter % 5
            with open(os.path.join(base_dir, fname), "wb") as f:
                f.write(b"\xff" * offset + ref + b"\xee\xee")
            ext = ir.ExternalTensor(
                fname, offset, nbytes, dtype, shape=ir.Shape(shape), name="e", base_dir=base_dir
            )
            lazy = ir.LazyTensor(lambda t=t: t, dtype=dtype, shape=ir.Shape(shape))
            deser = ir.serde.deserialize_tensor(proto)

            for label, rep in [
                ("tensor", t),
                ("packed", packed),
                ("external", ext),
                ("lazy", lazy),
                ("proto", deser),
            ]:
                tag = f"{dtype} {shape} {label}"
                check(rep.dtype == dtype, tag + " dtype")
                check(rep.shape.numpy() == shape, tag + " shape")
                check(rep.nbytes == nbytes, tag + " nbytes")
                got = rep.numpy()
                check(got.shape == shape, tag + " numpy shape")
                check(
                    np.array_equal(got.astype(np.int8), values), tag + " numpy values"
                )
                check(rep.tobytes() == ref, tag + " tobytes")
                check(file_bytes(rep) == ref, tag + " tofile(regular file)")
                check(buffer_bytes(rep) == ref, tag + " tofile(BytesIO)")
            ext.release()

    # float4: all 16 bit patterns, odd count
    bits16 = np.arange(16, dtype=np.uint8)
    f4 = bits16.view(ml_dtypes.float4_e2m1fn)[:15]
    t4 = ir.Tensor(f4, dtype=DT.FLOAT4E2M1)
    ref4 = t4.tobytes()
    check(len(ref4) == 8, "float4 nbytes")
    check(ref4 == _type_casting.pack_4bitx2(bits16[:15]).tobytes(), "float4 packing")
    p4 = ir.PackedTensor(np.frombuffer(ref4, dtype=np.uint8), DT.FLOAT4E2M1, shape=(15,))
    check(p4.tobytes() == ref4 and file_bytes(p4) == ref4 and buffer_bytes(p4) == ref4, "float4 packed")
    check(p4.numpy().view(np.uint8).tolist() == list(range(15)), "float4 packed values")
    # Tensor given as uint8 bit patterns
    t4u = ir.Tensor(bits16[:15], dtype=DT.FLOAT4E2M1)
    check(t4u.tobytes() == ref4 and file_bytes(t4u) == ref4, "float4 from uint8")

    # 8-bit floats, bfloat16, native: every bit pattern / extreme and non-finite values
    wide_cases = [
        (DT.FLOAT8E4M3FN, np.arange(256, dtype=np.uint8).view(ml_dtypes.float8_e4m3fn)),
        (DT.FLOAT8E4M3FNUZ, np.arange(256, dtype=np.uint8).view(ml_dtypes.float8_e4m3fnuz)),
        (DT.FLOAT8E5M2, np.arange(256, dtype=np.uint8).view(ml_dtypes.float8_e5m2)),
        (DT.FLOAT8E5M2FNUZ, np.arange(256, dtype=np.uint8).view(ml_dtypes.float8_e5m2fnuz)),
        (
            DT.BFLOAT16,
            np.array([0x0000, 0x8000, 0x7F80, 0xFF80, 0x7FC0, 0x0001, 0x7F7F, 0x3F80, 0x1234],
                     dtype=np.uint16).view(ml_dtypes.bfloat16),
        ),
        (DT.FLOAT, np.array([0.0, -0.0, np.inf, -np.inf, np.nan, 1e-45, 3.4e38], dtype=np.float32)),
        (DT.INT64, np.array([np.iinfo(np.int64).min, -1, 0, np.iinfo(np.int64).max])),
        (DT.BOOL, np.array([[True, False, True]])),
        (DT.COMPLEX64, np.array([1 + 2j, complex(np.inf, -0.0)], dtype=np.complex64)),
        (DT.FLOAT16, np.array([], dtype=np.float16).reshape(0, 4)),
    ]
    for dtype, arr in wide_cases:
        tag = f"{dtype}"
        t = ir.Tensor(arr, dtype=dtype)
        ref = arr.tobytes()
        check(t.nbytes == len(ref) == math.ceil(arr.size * dtype.bitwidth / 8), tag + " nbytes")
        check(t.tobytes() == ref, tag + " tobytes")
        check(file_bytes(t) == ref, tag + " tofile file")
        check(buffer_bytes(t) == ref, tag + " tofile buffer")
        check(np.dtype(dtype.numpy()) == arr.dtype, tag + " numpy dtype table")
        check(dtype.itemsize == arr.itemsize, tag + " itemsize")
        proto = ir.serde.serialize_tensor(t)
        check(proto.raw_data == ref, tag + " serialized raw_data")
        back = ir.serde.deserialize_tensor(proto)
        check(back.tobytes() == ref and file_bytes(back) == ref, tag + " proto-backed bytes")
        check(back.numpy().tobytes() == ref, tag + " proto-backed values")
        # non-contiguous view of the same logical data
        if arr.ndim == 1 and arr.size > 2:
            doubled = np.repeat(arr, 2)[::2]
            check(not doubled.flags["C_CONTIGUOUS"] or doubled.size < 2, tag + " strided setup")
            ts = ir.Tensor(doubled, dtype=dtype)
            check(ts.tobytes() == ref and file_bytes(ts) == ref, tag + " strided bytes")

    # Simulated big-endian host: bytes stay little endian
    with unittest.mock.patch("onnx_ir._core._IS_LITTLE_ENDIAN", False):
        a32 = np.array([1, 256, -2], dtype=np.int32)
        t = ir.Tensor(a32)
        check(t.tobytes() == a32.astype("<i4").tobytes(), "BE int32 tobytes")
        check(file_bytes(t) == a32.astype("<i4").tobytes(), "BE int32 tofile")
        check(buffer_bytes(t) == a32.astype("<i4").tobytes(), "BE int32 tofile buffer")
        a4 = np.array([-8, 7, 3], dtype=np.int8).astype(ml_dtypes.int4)
        t = ir.Tensor(a4, dtype=DT.INT4)
        check(t.tobytes() == bytes([0x78, 0x03]), "BE int4 tobytes")
        check(file_bytes(t) == bytes([0x78, 0x03]), "BE int4 tofile")
        p = ir.PackedTensor(np.array([0x78, 0x03], dtype=np.uint8), DT.INT4, shape=(3,))
        check(p.tobytes() == bytes([0x78, 0x03]), "BE packed tobytes")
        check(file_bytes(p) == bytes([0x78, 0x03]), "BE packed tofile")
        check(buffer_bytes(p) == bytes([0x78, 0x03]), "BE packed tofile buffer")

    # Destination that has fileno() but it raises: falls back to write()
    class OddFile(io.BytesIO):
        def fileno(self):
            raise io.UnsupportedOperation("no fileno")

    of = OddFile()
    ir.Tensor(np.array([1, 2, 3], dtype=np.int8).astype(ml_dtypes.int4), dtype=DT.INT4).tofile(of)
    check(of.getvalue() == bytes([0x21, 0x03]), "fileno-raising destination")
    of = OddFile()
    ir.PackedTensor(np.array([0x21, 0x03], dtype=np.uint8), DT.INT4, shape=(3,)).tofile(of)
    check(of.getvalue() == bytes([0x21, 0x03]), "packed fileno-raising destination")

    # Rejected calls
    def expect(exc, fn, msg):
        try:
            fn()
        except exc:
            return
        except Exception as e:  # noqa: BLE001
            check(False, f"{msg}: wrong exception {type(e).__name__}: {e}")
            return
        check(False, f"{msg}: no exception")

    expect(TypeError, lambda: ir.PackedTensor(np.zeros(2, np.uint8), DT.INT8, shape=(2,)),
           "PackedTensor with 8-bit dtype")
    expect(ValueError, lambda: ir.PackedTensor(np.zeros(3, np.uint8), DT.INT4, shape=(3,)),
           "PackedTensor wrong packed size")
    expect(TypeError, lambda: ir.PackedTensor(np.zeros(2, ml_dtypes.int4), DT.INT4, shape=(3,)),
           "PackedTensor unpacked ml_dtypes value")
    expect(TypeError, lambda: ir.Tensor(np.zeros(2, np.float32), dtype=DT.INT4),
           "Tensor float32 array declared INT4")
    expect(TypeError, lambda: ir.Tensor(np.zeros(2, np.int16), dtype=DT.UINT2),
           "Tensor int16 array declared UINT2")

    # Packed value whose size only disagrees at use time (non-numpy raw is not checked eagerly)
    class ArrayLike:
        def __init__(self, a):
            self.a = a

        def __array__(self, dtype=None, copy=None):
            return self.a

    bad = ir.PackedTensor(ArrayLike(np.zeros(5, np.uint8)), DT.UINT2, shape=(4,))
    expect(ValueError, bad.tobytes, "late size check tobytes")
    expect(ValueError, lambda: bad.tofile(io.BytesIO()), "late size check tofile")
    good = ir.PackedTensor(ArrayLike(np.array([0b11100100], np.uint8)), DT.UINT2, shape=(4,))
    check(good.numpy().astype(np.uint8).tolist() == [0, 1, 2, 3], "array-like packed values")
    check(good.tobytes() == b"\xe4" and file_bytes(good) == b"\xe4", "array-like packed bytes")

if failures:
    print(f"{len(failures)} check(s) failed")
    sys.exit(1)
print("OK: all representations agree")
