"""Demo for C11: graph iteration stays well defined while the graph is edited.

Exercises Graph/Function mutation (extend / insert_after / insert_before / remove / move)
during forward, backward and recursive iteration, including the enter/exit callbacks of
RecursiveGraphIterator, and some unusual inputs (rejected calls, duplicates, empty inputs,
nested GRAPH / GRAPHS attributes, empty GRAPHS attribute).
"""

import onnx_ir as ir
from onnx_ir.traversal import RecursiveGraphIterator


def mk(name, attrs=()):
    return ir.Node("", "Op", inputs=(), attributes=attrs, num_outputs=1, name=name)


def g(name, nodes):
    return ir.Graph((), (), nodes=nodes, name=name)


def names(it):
    return [n.name for n in it]


def expect_raises(exc, fn, *args, **kwargs):
    try:
        fn(*args, **kwargs)
    except exc:
        return
    raise AssertionError(f"{fn} did not raise {exc}")


# --------------------------------------------------------------------------
# 1. Recursive traversal: GRAPH and GRAPHS attributes, both directions, callbacks
# --------------------------------------------------------------------------
then_g = g("then", [mk("t0"), mk("t1")])
else_g = g("else", [mk("e0")])
deep_g = g("deep", [mk("d0")])
b0 = g("b0", [mk("x0", [ir.AttrGraph("body", deep_g)]), mk("x1")])
b1 = g("b1", [])  # empty subgraph
b2 = g("b2", [mk("y0")])
n_if = mk("if", [ir.AttrGraph("then_branch", then_g), ir.AttrGraph("else_branch", else_g)])
n_multi = mk(
    "multi",
    [
        ir.AttrInt64("k", 3),
        ir.AttrGraphs("branches", [b0, b1, b2]),
        ir.AttrGraphs("none", []),  # empty GRAPHS attribute
        ir.AttrString("s", "v"),
    ],
)
main = g("main", [mk("a"), n_if, mk("b"), n_multi, mk("c")])

fwd = ["a", "if", "t0", "t1", "e0", "b", "multi", "x0", "d0", "x1", "y0", "c"]
assert names(main.all_nodes()) == fwd
assert names(RecursiveGraphIterator(main)) == fwd
rev = ["c", "multi", "y0", "x1", "x0", "d0", "b", "if", "t1", "t0", "e0", "a"]
assert names(RecursiveGraphIterator(main, reverse=True)) == rev
assert names(reversed(RecursiveGraphIterator(main))) == rev
assert names(reversed(reversed(RecursiveGraphIterator(main)))) == fwd
# An iterator can be restarted
it = RecursiveGraphIterator(main)
assert next(it).name == "a" and next(it).name == "if"
assert names(it) == fwd  # iter(it) restarts

# Callbacks: every subgraph is entered/exited twice (once by the parent, once by itself)
log = []
it = RecursiveGraphIterator(
    main,
    enter_graph=lambda gr: log.append("+" + gr.name),
    exit_graph=lambda gr: log.append("-" + gr.name),
)
assert names(it) == fwd
assert log == [
    "+main",
    "+then", "+then", "-then", "-then",
    "+else", "+else", "-else", "-else",
    "+b0", "+b0", "+deep", "+deep", "-deep", "-deep", "-b0", "-b0",
    "+b1", "+b1", "-b1", "-b1",
    "+b2", "+b2", "-b2", "-b2",
    "-main",
], log
log.clear()
assert names(reversed(it)) == rev
assert log == [
    "+main",
    "+b2", "+b2", "-b2", "-b2",
    "+b1", "+b1", "-b1", "-b1",
    "+b0", "+b0", "+deep", "+deep", "-deep", "-deep", "-b0", "-b0",
    "+then", "+then", "-then", "-then",
    "+else", "+else", "-else", "-else",
    "-main",
], log

# recursive= filter: called exactly once per yielded node, controls descent
asked = []


def only_multi(node):
    asked.append(node.name)
    return node.name in ("multi", "x1")


assert names(RecursiveGraphIterator(main, recursive=only_multi)) == [
    "a", "if", "b", "multi", "x0", "x1", "y0", "c",
]
assert asked == ["a", "if", "b", "multi", "x0", "x1", "y0", "c"]
assert [sg.name for sg in main.subgraphs()] == ["then", "else", "b0", "deep", "b1", "b2"]

# A callback that raises propagates and no exit callback is fired
log.clear()


def boom(gr):
    log.append("+" + gr.name)
    if gr.name == "else":
        raise KeyError("stop")


it = RecursiveGraphIterator(main, enter_graph=boom, exit_graph=lambda gr: log.append("-" + gr.name))
seen = []
try:
    for n in it:
        seen.append(n.name)
except KeyError:
    pass
else:
    raise AssertionError("KeyError expected")
assert seen == ["a", "if", "t0", "t1"]
assert log == ["+main", "+then", "+then", "-then", "-then", "+else"], log
expect_raises(StopIteration, next, it)

# --------------------------------------------------------------------------
# 2. Editing during recursive iteration
# --------------------------------------------------------------------------
seen = []
new_after = mk("t0_after")
new_before = mk("t0_before")
tail = [mk("z0"), mk("z1")]
for n in main.all_nodes():
    seen.append(n.name)
    if n.name == "t0":
        then_g.insert_after(n, new_after)  # later -> visited
        then_g.insert_before(n, [new_before])  # earlier -> skipped
    if n.name == "t0_after":
        then_g.remove(then_g.node("t1"))  # a later node disappears
    if n.name == "b":
        main.remove(n)  # current node removed: resume with its old successor
        main.extend(tail)  # appended at the end -> visited
    if n.name == "x0":
        # move the current node to the end of its graph; iteration continues from the
        # original place (x1), then reaches x0 again at its new place.
        b0.remove(n)
        b0.append(n)
assert seen == [
    "a", "if", "t0", "t0_after", "e0", "b", "multi", "x0", "d0", "x1", "x0", "d0", "y0",
    "c", "z0", "z1",
], seen
assert names(then_g) == ["t0_before", "t0", "t0_after"]
assert names(main) == ["a", "if", "multi", "c", "z0", "z1"]
assert names(b0) == ["x1", "x0"]
assert len(main) == 6 and main[2] is n_multi and main[-1] is tail[1]
assert n_if in main and tail[0] in main

# --------------------------------------------------------------------------
# 3. Flat iteration with several simultaneous iterators, both directions
# --------------------------------------------------------------------------
ns = [mk(f"n{i}") for i in range(6)]
flat = g("flat", ns)
i1, i2, r1 = iter(flat), iter(flat), reversed(flat)
assert next(i1) is ns[0] and next(i1) is ns[1]
assert next(i2) is ns[0]
assert next(r1) is ns[5]
# move n1 (current of i1) before n5; insert fresh nodes around
flat.remove(ns[1])
flat.insert_before(ns[5], ns[1])
p, q = mk("p"), mk("q")
flat.insert_after(ns[0], [p])  # before i1's position, right after i2's current
flat.insert_before(ns[4], (q,))
# moving an element already in the graph with insert_after: duplicates in the argument
flat.insert_after(ns[2], [ns[3], ns[3]])
assert names(flat) == ["n0", "p", "n2", "n3", "q", "n4", "n1", "n5"]
assert names(i1) == ["n2", "n3", "q", "n4", "n1", "n5"]
assert names(i2) == ["p", "n2", "n3", "q", "n4", "n1", "n5"]
assert names(r1) == ["n1", "n4", "q", "n3", "n2", "p", "n0"]
assert len(flat) == 8 and flat[1] is p and flat[-2] is ns[1]
assert names(flat[2:5]) == ["n2", "n3", "q"]

# Empty inputs are accepted and change nothing
flat.extend([])
flat.insert_after(p, [])
flat.insert_before(p, ())
flat.remove([])
assert names(flat) == ["n0", "p", "n2", "n3", "q", "n4", "n1", "n5"]
# extend with a generator that contains existing nodes moves them to the end, in order
flat.extend(n for n in (ns[0], q, ns[0]))
assert names(flat) == ["p", "n2", "n3", "n4", "n1", "n5", "q", "n0"]
# insert a node after itself / before itself
flat.insert_after(p, p)
flat.insert_before(ns[2], [ns[2]])
assert names(flat)[:2] == ["p", "n2"] and len(flat) == 8

# Rejected calls leave everything untouched (validation happens before adoption)
other = g("other", [mk("o0")])
fresh = mk(None)
before = names(flat)
expect_raises(ValueError, flat.extend, [fresh, other[0]])
expect_raises(ValueError, flat.insert_after, p, [fresh, other[0]])
expect_raises(ValueError, flat.insert_before, p, (fresh, other[0]))
expect_raises(ValueError, flat.insert_after, other[0], [fresh])  # foreign anchor
expect_raises(ValueError, flat.insert_before, mk("loose"), [fresh])  # anchor in no graph
expect_raises(ValueError, flat.append, other[0])
expect_raises(ValueError, flat.remove, [p, other[0]])
expect_raises(TypeError, flat.insert_after, p, None)
assert names(flat) == before and len(flat) == 8
assert fresh.graph is None and fresh.name is None
assert other[0].graph is other and names(other) == ["o0"]
assert all(n.graph is flat for n in flat)
# An accepted insertion names the anonymous node and adopts it
flat.insert_after(p, (fresh,))
assert fresh.graph is flat and fresh.name is not None and flat[1] is fresh

# --------------------------------------------------------------------------
# 4. Function wrappers behave the same way
# --------------------------------------------------------------------------
f_nodes = [mk("f0", [ir.AttrGraphs("gs", [g("fg0", [mk("fa")]), g("fg1", [mk("fb")])])]), mk("f1")]
fn = ir.Function("dom", "fn", graph=g("fbody", f_nodes), attributes=[])
assert names(fn.all_nodes()) == ["f0", "fa", "fb", "f1"]
assert names(RecursiveGraphIterator(fn, reverse=True)) == ["f1", "f0", "fb", "fa"]
assert [sg.name for sg in fn.subgraphs()] == ["fg0", "fg1"]
seen = []
extra = mk("f_extra")
for n in reversed(fn):
    seen.append(n.name)
    if n.name == "f1":
        fn.insert_before(n, extra)  # "after" in reverse direction -> visited
        fn.insert_after(n, mk("f_tail"))  # "before" in reverse direction -> skipped
        fn.remove(n)
assert seen == ["f1", "f_extra", "f0"], seen
assert names(fn) == ["f0", "f_extra", "f_tail"]
fn.sort()
assert names(fn) == ["f0", "f_extra", "f_tail"]

print("OK")
