"""Demo for C20: journaling of graph containers observes without interfering and restores classes."""
import gc
import weakref

import onnx_ir as ir
from onnx_ir import _core, _graph_containers
from onnx_ir.journaling import Journal, get_current_journal
from onnx_ir.journaling import _wrappers



def snapshot_classes():
    snap = dict(_wrappers.get_original_methods())
    for cls in (_graph_containers._GraphIO, _graph_containers.GraphInitializers,
                _graph_containers.Attributes, _core.Graph, _core.Node, _core.Value):
        for k, v in vars(cls).items():
            snap[f"{cls.__name__}::{k}"] = v.fset if isinstance(v, property) else v
    return snap


def scenario():
    """Runs a sequence of container operations; returns an observable trace."""
    trace = []

    def attempt(label, fn):
        try:
            r = fn()
            trace.append((label, "ok", repr(r)))
        except Exception as e:  # noqa: BLE001
            trace.append((label, type(e).__name__, str(e)))

    a, b, c = ir.Value(name="a"), ir.Value(name="b"), ir.Value(name="c")
    g = ir.Graph([a], [], nodes=[], name="g")
    n = ir.Node("", "Add", [a, a], name="n")
    g.append(n)
    attempt("in.append", lambda: g.inputs.append(b))
    attempt("in.extend_empty", lambda: g.inputs.extend([]))
    attempt("in.extend", lambda: g.inputs.extend([c]))
    attempt("in.insert", lambda: g.inputs.insert(0, ir.Value(name="z")))
    attempt("in.pop", lambda: g.inputs.pop().name)
    attempt("in.pop0", lambda: g.inputs.pop(0).name)
    attempt("in.remove_missing", lambda: g.inputs.remove(ir.Value(name="nope")))  # rejected
    attempt("in.remove", lambda: g.inputs.remove(b))
    attempt("in.setitem", lambda: g.inputs.__setitem__(0, b))
    attempt("in.setitem_oob", lambda: g.inputs.__setitem__(17, b))  # rejected
    # duplicates among outputs
    attempt("out.append", lambda: g.outputs.append(n.outputs[0]))
    attempt("out.append_dup", lambda: g.outputs.append(n.outputs[0]))
    attempt("out.remove_dup", lambda: g.outputs.remove(n.outputs[0]))
    attempt("out.clear", lambda: g.outputs.clear())
    attempt("out.clear_empty", lambda: g.outputs.clear())
    attempt("out.pop_empty", lambda: g.outputs.pop())  # rejected
    # initializers
    w = ir.Value(name="w", const_value=ir.tensor([1.0, 2.0], name="w"))
    attempt("init.set", lambda: g.initializers.__setitem__("w", w))
    attempt("init.set_wrong_key", lambda: g.initializers.__setitem__("other", w))  # rejected
    attempt("init.set_noname", lambda: g.initializers.__setitem__("x", ir.Value()))  # rejected
    attempt("init.del", lambda: g.initializers.__delitem__("w"))
    attempt("init.del_missing", lambda: g.initializers.__delitem__("w"))  # rejected
    # attributes (record on the owner, not on a graph)
    attempt("attr.set", lambda: n.attributes.__setitem__("k", ir.AttrInt64("k", 3)))
    attempt("attr.set_bad", lambda: n.attributes.__setitem__("k", 3))  # rejected
    state = (
        [v.name for v in g.inputs],
        [v.name for v in g.outputs],
        sorted(g.initializers),
        sorted(n.attributes),
        [x.name for x in g],
    )
    return trace, state


CONTAINER_OPS = {
    "append_io", "extend_io", "insert_io", "pop_io", "remove_io", "clear_io", "set_io",
    "set_initializer", "delete_initializer", "set_attribute",
}

before = snapshot_classes()
plain_trace, plain_state = scenario()

# --- depth 1
with Journal() as j1:
    t1, s1 = scenario()
assert (t1, s1) == (plain_trace, plain_state), "journal interfered"
assert snapshot_classes() == before, "classes not restored"
assert get_current_journal() is None

ops = [e.operation for e in j1.entries if e.operation in CONTAINER_OPS]
expected_ops = [
    "append_io", "extend_io", "extend_io", "insert_io", "pop_io", "pop_io", "remove_io",
    "remove_io", "set_io", "set_io", "append_io", "append_io", "remove_io", "clear_io",
    "clear_io", "pop_io", "set_initializer", "set_initializer", "set_initializer",
    "delete_initializer", "delete_initializer", "set_attribute", "set_attribute",
]
assert ops == expected_ops, ops
for e in j1.entries:
    if e.operation in CONTAINER_OPS:
        if e.operation == "set_attribute":
            assert e.class_name == "Node", e
            assert e.details.startswith("key='k', value="), e.details
        else:
            assert e.class_name == "Graph", e
        assert isinstance(e.ref, weakref.ref)
io_details = [e.details for e in j1.entries if e.operation.endswith("_io")]
assert io_details[0].startswith("[GraphInputs] "), io_details[0]
assert io_details[1] == "[GraphInputs] []", io_details[1]
assert io_details[4] == "[GraphInputs] index=-1" and io_details[5] == "[GraphInputs] index=0"
assert io_details[13] == "[GraphOutputs]" and io_details[15] == "[GraphOutputs] index=-1"
assert [e.details for e in j1.entries if e.operation == "delete_initializer"] == ["key='w'"] * 2
# the stack trace ends in user code (this file), not in the journaling machinery
for e in j1.entries:
    if e.operation in CONTAINER_OPS:
        assert e.stack_trace[-1].filename.endswith("demo.py"), e.stack_trace[-1]

# entries do not keep the graph alive
gc.collect()
assert all(e.obj is None for e in j1.entries if e.operation.endswith("_io")), "graph kept alive"

# --- nesting depth 3, same journal re-entered, exception thrown from the innermost block
outer, inner = Journal(), Journal()
hook_seen = []
inner.add_hook(lambda e: hook_seen.append(e.operation))
try:
    with outer:
        g = ir.Graph([], [], nodes=[], name="nest")
        g.inputs.append(ir.Value(name="o1"))
        with inner:
            g.inputs.append(ir.Value(name="i1"))
            with outer:
                assert get_current_journal() is outer
                g.inputs.append(ir.Value(name="o2"))
                g.outputs.pop()  # IndexError from inside depth 3
            raise AssertionError("unreachable")
except IndexError:
    pass
else:
    raise AssertionError("IndexError expected")
assert get_current_journal() is None
assert snapshot_classes() == before, "classes not restored after nested exception"
assert [v.name for v in g.inputs] == ["o1", "i1", "o2"]
o_ops = [(e.operation, e.details) for e in outer.entries if e.operation in CONTAINER_OPS]
i_ops = [(e.operation, e.details) for e in inner.entries if e.operation in CONTAINER_OPS]
# every enclosing journal sees the operations run inside it (wrappers stack), in program order;
# `outer` is active twice at depth 3, so it is told twice about the operations run there
assert [o for o, _ in o_ops] == ["append_io"] * 4 + ["pop_io"] * 2, o_ops
assert [d for _, d in o_ops][:4] == [
    "[GraphInputs] Value(name='o1')", "[GraphInputs] Value(name='i1')",
    "[GraphInputs] Value(name='o2')", "[GraphInputs] Value(name='o2')"], o_ops
assert [o for o, _ in i_ops] == ["append_io", "append_io", "pop_io"], i_ops
assert hook_seen == [e.operation for e in inner.entries]

# after everything, a fresh graph behaves as plain and nothing is recorded anywhere
n_before = (len(outer.entries), len(inner.entries), len(j1.entries))
t2, s2 = scenario()
assert (t2, s2) == (plain_trace, plain_state)
assert (len(outer.entries), len(inner.entries), len(j1.entries)) == n_before
print("C20 demo OK:", len(j1.entries), "entries,", len(ops), "container ops")
