"""Demo for C09: concurrent external-data writing is schedule-independent, bounded and live.

Exercises ir.save(..., external_data=..., max_workers=..., max_in_flight_bytes=...,
max_shard_size_bytes=...) through the public API: single-file parallel writer,
shard driver, failing tensors, shared tensor objects, rejected calls.
"""

import filecmp
import logging
import os
import shutil
import sys
import tempfile
import threading
import time

import numpy as np

import onnx_ir as ir

STATE_LOCK = threading.Lock()
IN_FLIGHT = 0
PEAK = 0
EVENTS = 0
ACTIVE_IDS: dict[int, int] = {}
OVERLAPPING_SAME_OBJECT = False


def reset_state():
    global IN_FLIGHT, PEAK, EVENTS, OVERLAPPING_SAME_OBJECT
    with STATE_LOCK:
        IN_FLIGHT = 0
        PEAK = 0
        EVENTS = 0
        ACTIVE_IDS.clear()
        OVERLAPPING_SAME_OBJECT = False


class ProbeTensor(ir.Tensor):
    """A tensor that records when its bytes are materialised for writing."""

    fail = False
    delay = 0.002

    def tofile(self, file) -> None:
        global IN_FLIGHT, PEAK, EVENTS, OVERLAPPING_SAME_OBJECT
        with STATE_LOCK:
            EVENTS += 1
            IN_FLIGHT += self.nbytes
            PEAK = max(PEAK, IN_FLIGHT)
            ACTIVE_IDS[id(self)] = ACTIVE_IDS.get(id(self), 0) + 1
            if ACTIVE_IDS[id(self)] > 1:
                OVERLAPPING_SAME_OBJECT = True
        try:
            time.sleep(self.delay)
            if self.fail:
                raise RuntimeError(f"boom in {self.name}")
            super().tofile(file)
        finally:
            with STATE_LOCK:
                IN_FLIGHT -= self.nbytes
                ACTIVE_IDS[id(self)] -= 1


def make_model(sizes, failing=(), shared_pairs=()):
    """A model with one float32 initializer per entry of ``sizes`` (in elements)."""
    rng = np.random.default_rng(7)
    values = []
    tensors = []
    for i, n in enumerate(sizes):
        arr = rng.standard_normal(n).astype(np.float32)
        t = ProbeTensor(arr, name=f"w{i}")
        if i in failing:
            t.fail = True
        tensors.append(t)
    for i, j in shared_pairs:  # initializer j reuses the tensor object of i
        tensors[j] = tensors[i]
    for i, t in enumerate(tensors):
        v = ir.Value(name=f"w{i}", shape=ir.Shape([t.shape[0]]), type=ir.TensorType(ir.DataType.FLOAT))
        v.const_value = t
        values.append(v)
    out = ir.Value(name="y", shape=ir.Shape([sizes[0]]), type=ir.TensorType(ir.DataType.FLOAT))
    node = ir.Node("", "Identity", inputs=[values[0]], outputs=[out])
    graph = ir.Graph(inputs=[], outputs=[out], nodes=[node], initializers=values, name="g",
                     opset_imports={"": 20})
    return ir.Model(graph, ir_version=10), tensors


class CallbackProbe:
    def __init__(self):
        self.lock = threading.Lock()
        self.calls = []
        self.concurrent = False

    def __call__(self, tensor, info):
        if not self.lock.acquire(blocking=False):
            self.concurrent = True
            self.lock.acquire()
        try:
            time.sleep(0.0005)
            self.calls.append((info.index, info.total, tensor.name, info.filename, info.offset))
        finally:
            self.lock.release()


def listing(directory):
    return sorted(os.listdir(directory))


def save(model, directory, **kwargs):
    os.makedirs(directory, exist_ok=True)
    ir.save(model, os.path.join(directory, "m.onnx"), external_data="m.data",
            size_threshold_bytes=0, **kwargs)


def check(cond, message):
    if not cond:
        print("FAIL:", message)
        sys.exit(1)


def same_dirs(a, b):
    check(listing(a) == listing(b), f"file sets differ: {listing(a)} vs {listing(b)}")
    for name in listing(a):
        check(filecmp.cmp(os.path.join(a, name), os.path.join(b, name), shallow=False),
              f"{name} differs between serial and concurrent save")


def main():
    logging.getLogger("onnx_ir").setLevel(logging.ERROR)  # oversized-shard warnings
    sizes = [300, 5000, 17, 2600, 2600, 1, 4096, 900, 7000, 64]  # elements; *4 bytes
    largest = max(sizes) * 4
    root = tempfile.mkdtemp(prefix="c09_to_")

    # --- 1. single file: serial reference against many (workers, budget) combinations
    model, _ = make_model(sizes, shared_pairs=[(3, 4)])
    reset_state()
    serial_cb = CallbackProbe()
    save(model, os.path.join(root, "serial"), callback=serial_cb)
    check([c[0] for c in serial_cb.calls] == list(range(len(sizes))), "serial callback order")
    case = 0
    for workers in (2, 3, 8, 32):
        for budget in (1, 4000, 12000, 1 << 30):  # 1 and 4000: several tensors exceed the budget
            case += 1
            model, _ = make_model(sizes, shared_pairs=[(3, 4)])
            reset_state()
            cb = CallbackProbe()
            out = os.path.join(root, f"par{case}")
            save(model, out, callback=cb, max_workers=workers, max_in_flight_bytes=budget)
            same_dirs(os.path.join(root, "serial"), out)
            check(sorted(c[0] for c in cb.calls) == list(range(len(sizes))),
                  f"callback once per tensor (workers={workers}, budget={budget})")
            check(all(c[1] == len(sizes) and c[3] == "m.data" for c in cb.calls), "callback info")
            check({(c[0], c[4]) for c in cb.calls} == {(c[0], c[4]) for c in serial_cb.calls},
                  "callback offsets equal the serial ones")
            check(not cb.concurrent, "callback entered by two threads at once")
            check(not OVERLAPPING_SAME_OBJECT, "shared tensor object evaluated by two threads at once")
            check(PEAK <= budget + largest, f"peak {PEAK} > budget {budget} + largest {largest}")
            check(IN_FLIGHT == 0 and EVENTS == len(sizes), "every tensor written exactly once")
            # The model is left unchanged and usable.
            check(all(isinstance(v.const_value, ProbeTensor) for v in model.graph.initializers.values()),
                  "model restored")

    # --- 2. sharded: serial reference against the concurrent shard driver
    model, _ = make_model(sizes, shared_pairs=[(3, 4)])
    reset_state()
    shard_serial_cb = CallbackProbe()
    save(model, os.path.join(root, "shard_serial"), max_shard_size_bytes=16000, callback=shard_serial_cb)
    check(len(listing(os.path.join(root, "shard_serial"))) > 3, "several shards expected")
    for workers in (2, 4, 9, 16):
        for budget in (1, 9000, 1 << 30):
            case += 1
            model, _ = make_model(sizes, shared_pairs=[(3, 4)])
            reset_state()
            cb = CallbackProbe()
            out = os.path.join(root, f"shard{case}")
            save(model, out, callback=cb, max_workers=workers, max_in_flight_bytes=budget,
                 max_shard_size_bytes=16000)
            same_dirs(os.path.join(root, "shard_serial"), out)
            check(sorted(c[0] for c in cb.calls) == list(range(len(sizes))),
                  f"sharded callback once per tensor (workers={workers})")
            check(sorted(cb.calls) == sorted(shard_serial_cb.calls), "sharded callback infos equal serial")
            check(not cb.concurrent, "sharded callback entered concurrently")
            check(not OVERLAPPING_SAME_OBJECT, "shared tensor evaluated concurrently across shards")
            check(PEAK <= budget + largest, f"sharded peak {PEAK} > {budget} + {largest}")
            check(IN_FLIGHT == 0 and EVENTS == len(sizes), "sharded: every tensor written once")

    # --- 3. failing tensors: the error arrives after all workers stopped, nothing is left behind
    for shard_size in (None, 16000):
        for workers, failing in ((3, {1}), (8, {0, 6, 9}), (2, {9})):
            case += 1
            model, _ = make_model(sizes, failing=failing)
            reset_state()
            out = os.path.join(root, f"fail{case}")
            os.makedirs(out)
            try:
                ir.save(model, os.path.join(out, "m.onnx"), external_data="m.data",
                        size_threshold_bytes=0, max_workers=workers, max_in_flight_bytes=4000,
                        max_shard_size_bytes=shard_size)
            except RuntimeError as e:
                check("boom in w" in str(e), "the worker's exception is re-raised unchanged")
            else:
                check(False, "expected RuntimeError")
            with STATE_LOCK:
                events_at_raise, in_flight_at_raise = EVENTS, IN_FLIGHT
            check(in_flight_at_raise == 0, "a worker was still writing when the error arrived")
            time.sleep(0.05)
            check(EVENTS == events_at_raise, "a worker started a tensor after the error arrived")
            if shard_size is None:
                check(listing(out) == [], f"leftovers after failed save: {listing(out)}")
            else:
                check(all(not n.startswith(".") and n != "m.onnx" for n in listing(out)),
                      f"temporary leftovers after failed sharded save: {listing(out)}")
            check(all(isinstance(v.const_value, ProbeTensor) for v in model.graph.initializers.values()),
                  "model restored after failure")

    # --- 4. unusual inputs
    model, _ = make_model(sizes)
    for bad in (dict(max_workers=0), dict(max_workers=-2), dict(max_workers=4, max_in_flight_bytes=0)):
        try:
            save(model, os.path.join(root, "rejected"), **bad)
        except ValueError:
            pass
        else:
            check(False, f"{bad} must be rejected")
    check(listing(os.path.join(root, "rejected")) == [], "rejected call wrote something")
    # Sharded save never overwrites existing shard files, also when concurrent.
    try:
        save(model, os.path.join(root, "shard_serial"), max_workers=4, max_shard_size_bytes=16000)
    except FileExistsError:
        pass
    else:
        check(False, "existing shards must be refused")
    # Nothing above the threshold: the concurrent writer gets an empty tensor list.
    os.makedirs(os.path.join(root, "empty"))
    ir.save(model, os.path.join(root, "empty", "m.onnx"), external_data="m.data",
            size_threshold_bytes=1 << 20, max_workers=4)
    check("m.onnx" in listing(os.path.join(root, "empty")), "empty external save")
    # Every initializer shares ONE tensor object (all duplicates), two workers per tensor.
    reset_state()
    model, tensors = make_model([2000] * 6, shared_pairs=[(0, j) for j in range(1, 6)])
    cb = CallbackProbe()
    save(model, os.path.join(root, "dups"), max_workers=6, max_in_flight_bytes=100, callback=cb)
    check(not OVERLAPPING_SAME_OBJECT and EVENTS == 6 and PEAK == 8000, "duplicates serialised")
    check(len(cb.calls) == 6, "one callback per use of the shared tensor")
    loaded = ir.load(os.path.join(root, "dups", "m.onnx"))
    for v in loaded.graph.initializers.values():
        np.testing.assert_array_equal(v.const_value.numpy(), tensors[0].numpy())

    check(threading.active_count() == 1, "worker threads still alive at the end")
    shutil.rmtree(root)
    print("OK", case, "cases")


if __name__ == "__main__":
    main()
