"""Demo for C07: re-saving already-external initializers (ExternalTensor.tofile / tobytes).

Round 1 saves a model with in-memory initializers to external data, round 2 loads
it (the initializers are now ExternalTensor objects) and saves it again with many
option combinations, so that every byte goes through ExternalTensor.tofile.
"""

from __future__ import annotations

import io
import logging
import itertools
import os
import tempfile
import unittest.mock

import ml_dtypes
import numpy as np

import onnx_ir as ir


def make_model() -> ir.Model:
    rng = np.random.default_rng(7)
    shared = ir.Tensor(rng.integers(0, 255, size=(33,), dtype=np.uint8), name="shared")
    tensors = [
        ir.Tensor(rng.standard_normal((3, 5)).astype(np.float16), name="half"),
        ir.Tensor(rng.standard_normal((5000,)).astype(np.float32), name="big"),
        ir.Tensor(np.zeros((0, 4), dtype=np.float32), name="empty"),
        ir.Tensor(
            rng.integers(-8, 7, size=(7, 3)).astype(ml_dtypes.int4), name="int4_odd"
        ),
        shared,
        ir.Tensor(np.array(3, dtype=np.int64), name="scalar"),
        ir.LazyTensor(
            lambda: ir.Tensor(np.arange(300, dtype=np.int32)),
            dtype=ir.DataType.INT32,
            shape=ir.Shape([300]),
            name="lazy",
        ),
    ]
    main_inits = [ir.Value(name=t.name, const_value=t) for t in tensors]
    # The same tensor object under a second initializer name
    main_inits.append(ir.Value(name="shared_again", const_value=shared))

    sub_tensor = ir.Tensor(rng.standard_normal((70,)).astype(np.float64), name="sub_w")
    sub_init = ir.Value(name="sub_w", const_value=sub_tensor)
    sub_out = ir.Value(name="sub_out")
    sub_node = ir.Node("", "Identity", [sub_init], outputs=[sub_out])
    then_graph = ir.Graph([], [sub_out], nodes=[sub_node], initializers=[sub_init], name="then")
    else_tensor = ir.Tensor(np.arange(70, dtype=np.float64), name="else_w")
    else_init = ir.Value(name="else_w", const_value=else_tensor)
    else_out = ir.Value(name="else_out")
    else_node = ir.Node("", "Identity", [else_init], outputs=[else_out])
    else_graph = ir.Graph(
        [], [else_out], nodes=[else_node], initializers=[else_init], name="else"
    )
    cond = ir.Value(
        name="cond", type=ir.TensorType(ir.DataType.BOOL), shape=ir.Shape([])
    )
    out = ir.Value(name="out")
    if_node = ir.Node(
        "",
        "If",
        [cond],
        attributes=[
            ir.AttrGraph("then_branch", then_graph),
            ir.AttrGraph("else_branch", else_graph),
        ],
        outputs=[out],
    )
    graph = ir.Graph(
        [cond],
        [out],
        nodes=[if_node],
        initializers=main_inits,
        opset_imports={"": 20},
        name="main",
    )
    return ir.Model(graph, ir_version=10)


def snapshot(model: ir.Model) -> dict[str, tuple]:
    result = {}
    for graph in model.graphs():
        for name, value in graph.initializers.items():
            tensor = value.const_value
            key = f"{graph.name}/{name}"
            result[key] = (tensor.dtype, tuple(tensor.shape), tensor.tobytes())
    return result


def tensor_objects(model: ir.Model) -> list:
    return [v.const_value for g in model.graphs() for v in g.initializers.values()]


def check_layout(model: ir.Model, base_dir: str, threshold: int, alignment, align_threshold):
    per_file: dict[str, list[tuple[int, int]]] = {}
    for graph in model.graphs():
        for value in graph.initializers.values():
            tensor = value.const_value
            if tensor.nbytes > threshold:
                assert isinstance(tensor, ir.ExternalTensor), (value.name, type(tensor))
                offset = tensor.offset or 0
                length = tensor.length if tensor.length is not None else tensor.nbytes
                assert length == tensor.nbytes
                per_file.setdefault(os.fspath(tensor.location), []).append((offset, length))
                if alignment is not None and tensor.nbytes > align_threshold:
                    assert offset % max(4096, alignment) == 0, (value.name, offset)
            else:
                assert not isinstance(tensor, ir.ExternalTensor), value.name
    for location, ranges in per_file.items():
        size = os.path.getsize(os.path.join(base_dir, location))
        end = 0
        for offset, length in ranges:
            assert offset >= end, (location, ranges)
            end = offset + length
        assert end <= size, (location, end, size)
    return per_file


def main() -> None:
    logging.disable(logging.WARNING)  # oversized-shard and invalidation warnings are expected
    original = make_model()
    expected = snapshot(original)
    with tempfile.TemporaryDirectory() as root:
        # Round 1: in-memory / lazy tensors -> external data, with a non-zero offset for most
        first_dir = os.path.join(root, "first")
        os.makedirs(first_dir)
        first_path = os.path.join(first_dir, "m.v1.onnx")
        before = tensor_objects(original)
        ir.save(
            original,
            first_path,
            external_data="m.v1.data",
            size_threshold_bytes=0,
            alignment=4096,
            align_threshold=100,
        )
        after = tensor_objects(original)
        assert all(a is b for a, b in zip(before, after, strict=True))
        assert snapshot(ir.load(first_path)) == expected

        # Round 2: every initializer is an ExternalTensor; re-save through tofile
        combos = itertools.product(
            (0, 40, 10**9),  # size_threshold_bytes
            (None, 4096),  # alignment
            (None, 600, 1),  # max_shard_size_bytes
            (None, 3),  # max_workers
            (False, True),  # kernel copy allowed?
        )
        for n, (threshold, alignment, shard, workers, kernel_copy) in enumerate(combos):
            loaded = ir.load(first_path)
            held = tensor_objects(loaded)
            # (the zero-size initializer is not above any threshold, so it stayed inline)
            assert all(isinstance(t, ir.ExternalTensor) for t in held if t.nbytes > 0)
            out_dir = os.path.join(root, f"out{n}", "nested.dir")
            os.makedirs(out_dir)
            out_path = os.path.join(out_dir, "m.v2.onnx")
            kwargs = dict(
                external_data=os.path.join("weights", "m.v2.data"),
                size_threshold_bytes=threshold,
                alignment=alignment,
                align_threshold=64,
                max_shard_size_bytes=shard,
                max_workers=workers,
            )
            os.makedirs(os.path.join(out_dir, "weights"))
            if kernel_copy:
                ir.save(loaded, out_path, **kwargs)
            else:
                # A platform without os.copy_file_range: the chunked userspace copy is used
                real = getattr(os, "copy_file_range", None)
                if real is not None:
                    with unittest.mock.patch.object(os, "copy_file_range", None):
                        ir.save(loaded, out_path, **kwargs)
                else:
                    ir.save(loaded, out_path, **kwargs)
            assert all(a is b for a, b in zip(held, tensor_objects(loaded), strict=True))
            assert all(t.valid() for t in held if isinstance(t, ir.ExternalTensor))
            reloaded = ir.load(out_path)
            assert snapshot(reloaded) == expected, (threshold, alignment, shard, workers)
            files = check_layout(reloaded, out_dir, threshold, alignment, 64)
            if shard is not None and threshold < 10**9:
                for location, ranges in files.items():
                    total = ranges[-1][0] + ranges[-1][1]
                    assert total <= shard or len(ranges) == 1, (location, ranges, shard)

        # Direct use of the changed methods
        loaded = ir.load(first_path)
        inits = loaded.graph.initializers
        big = inits["big"].const_value
        assert isinstance(big, ir.ExternalTensor) and (big.offset or 0) > 0
        # (a) destination without fileno: userspace copy; the position advances like write()
        buffer = io.BytesIO()
        buffer.write(b"head")
        big.tofile(buffer)
        inits["int4_odd"].const_value.tofile(buffer)
        inits["empty"].const_value.tofile(buffer)
        buffer.write(b"tail")
        assert buffer.getvalue() == (
            b"head" + expected["main/big"][2] + expected["main/int4_odd"][2] + b"tail"
        )
        # (b) regular file at a non-zero position, consecutive writes
        target = os.path.join(root, "direct.bin")
        with open(target, "wb") as f:
            f.write(b"xy")
            big.tofile(f)
            assert f.tell() == 2 + big.nbytes
            inits["shared"].const_value.tofile(f)
            inits["shared_again"].const_value.tofile(f)
        with open(target, "rb") as f:
            data = f.read()
        assert data == b"xy" + expected["main/big"][2] + expected["main/shared"][2] * 2
        assert big.tobytes() == expected["main/big"][2]
        assert inits["empty"].const_value.tobytes() == b""

        # (c) unusual: an ExternalTensor without offset/length (whole file), and one whose
        # data file is shorter than declared -> OSError naming the missing bytes
        raw_path = os.path.join(root, "raw.bin")
        payload = np.arange(10, dtype=np.int32)
        with open(raw_path, "wb") as f:
            f.write(payload.tobytes())
        whole = ir.ExternalTensor(
            "raw.bin", None, None, ir.DataType.INT32, shape=ir.Shape([10]), name="w", base_dir=root
        )
        sink = io.BytesIO()
        whole.tofile(sink)
        assert sink.getvalue() == payload.tobytes() == whole.tobytes()
        too_long = ir.ExternalTensor(
            "raw.bin", 8, 64, ir.DataType.INT32, shape=ir.Shape([16]), name="t", base_dir=root
        )
        for make_sink in (io.BytesIO, lambda: open(os.path.join(root, "short.bin"), "wb")):
            with make_sink() as short_sink:
                try:
                    too_long.tofile(short_sink)
                except OSError as e:
                    message = str(e)
                    assert "shorter than expected" in message, message
                    assert "could not read 32 more byte(s) at offset 40." in message, message
                else:
                    raise AssertionError("expected OSError")

        # (d) unusual: saving over the file that backs the loaded tensors. The bytes are
        # streamed from the old file, the model keeps its tensor objects, and those that
        # referred to the overwritten file are invalidated afterwards.
        loaded = ir.load(first_path)
        held = tensor_objects(loaded)
        ir.save(loaded, first_path, external_data="m.v1.data", size_threshold_bytes=0)
        assert all(a is b for a, b in zip(held, tensor_objects(loaded), strict=True))
        assert not any(t.valid() for t in held if isinstance(t, ir.ExternalTensor))
        assert snapshot(ir.load(first_path)) == expected
        stale = next(t for t in held if t.name == "big")
        for call in (lambda: stale.tofile(io.BytesIO()), stale.tobytes):
            try:
                call()
            except ValueError as e:
                assert "invalidated" in str(e)
            else:
                raise AssertionError("expected ValueError")

        # (e) rejected call: nothing is written, the model keeps its tensors
        loaded = ir.load(first_path)
        held = tensor_objects(loaded)
        try:
            ir.save(loaded, os.path.join(root, "rej.onnx"), external_data="rej.data", max_workers=0)
        except ValueError:
            pass
        else:
            raise AssertionError("expected ValueError")
        assert all(a is b for a, b in zip(held, tensor_objects(loaded), strict=True))
        assert not os.path.exists(os.path.join(root, "rej.data"))
        assert not os.path.exists(os.path.join(root, "rej.onnx"))

    print("C07 demo OK")


if __name__ == "__main__":
    main()
