"""Demo for C11: recursive graph iteration (forwards / backwards, through GRAPH and GRAPHS
attributes) stays well defined while graphs are edited.

Run: PYTHONPATH=<tree>/src python demo.py
"""

from __future__ import annotations

import sys

import onnx_ir as ir
from onnx_ir.traversal import RecursiveGraphIterator


def mk_node(name: str, attrs=()) -> ir.Node:
    return ir.Node("", "Op", inputs=[], attributes=list(attrs), name=name, num_outputs=1)


def mk_graph(name: str, nodes=()) -> ir.Graph:
    return ir.Graph([], [], nodes=list(nodes), name=name)


def names(it) -> list[str]:
    return [n.name for n in it]


def drain(it) -> list[str]:
    """Exhaust a started iterator with next() (iter() on a RecursiveGraphIterator restarts it)."""
    out = []
    while True:
        try:
            out.append(next(it).name)
        except StopIteration:
            return out


def build():
    """main: a, b(then=[t1, t2(body=[d1])], else=[]), c(branches=(g1[x1,x2], g2[], g3[y1])), e(ref graph attr)"""
    d1 = mk_node("d1")
    deep = mk_graph("deep", [d1])
    t1 = mk_node("t1")
    t2 = mk_node("t2", [ir.AttrGraph("body", deep)])
    then_g = mk_graph("then", [t1, t2])
    else_g = mk_graph("else", [])
    x1, x2, y1 = mk_node("x1"), mk_node("x2"), mk_node("y1")
    g1, g2, g3 = mk_graph("g1", [x1, x2]), mk_graph("g2", []), mk_graph("g3", [y1])
    a = mk_node("a")
    b = mk_node(
        "b",
        [
            ir.AttrInt64("k", 3),
            ir.AttrGraph("then_branch", then_g),
            ir.AttrGraph("else_branch", else_g),
        ],
    )
    c = mk_node("c", [ir.AttrGraphs("branches", [g1, g2, g3]), ir.AttrGraphs("none", [])])
    # A reference attribute of graph type holds no graph: it must be skipped
    e = mk_node("e", [ir.RefAttr("g", "outer_g", ir.AttributeType.GRAPH)])
    main = mk_graph("main", [a, b, c, e])
    return main, locals()


def check(cond: bool, msg: str) -> None:
    if not cond:
        print("FAIL:", msg)
        sys.exit(1)


def main() -> None:
    # ---- 1. static traversal, forwards and backwards, with enter/exit trace -------------
    g, o = build()
    fwd = ["a", "b", "t1", "t2", "d1", "c", "x1", "x2", "y1", "e"]
    check(names(RecursiveGraphIterator(g)) == fwd, "forward order")
    check(names(g.all_nodes()) == fwd, "all_nodes")
    bwd = ["e", "c", "y1", "x2", "x1", "b", "t2", "d1", "t1", "a"]
    check(names(RecursiveGraphIterator(g, reverse=True)) == bwd, "backward order")
    check(names(reversed(RecursiveGraphIterator(g))) == bwd, "reversed()")
    check(names(reversed(reversed(RecursiveGraphIterator(g)))) == fwd, "reversed twice")

    trace: list[str] = []
    it = RecursiveGraphIterator(
        g,
        enter_graph=lambda gr: trace.append("+" + gr.name),
        exit_graph=lambda gr: trace.append("-" + gr.name),
    )
    for n in it:
        trace.append(n.name)
    # The bracket structure must be balanced, and every graph is entered before its nodes
    depth = 0
    for t in trace:
        if t.startswith("+"):
            depth += 1
        elif t.startswith("-"):
            depth -= 1
            check(depth >= 0, "exit before enter")
    check(depth == 0, "unbalanced enter/exit")
    core = [t for t in trace if t[0] not in "+-"]
    check(core == fwd, "trace nodes")
    for gname, first in [("then", "t1"), ("deep", "d1"), ("g1", "x1"), ("g3", "y1")]:
        check(trace.index("+" + gname) < trace.index(first), f"enter {gname} before its nodes")
        check(trace.index("-" + gname) > trace.index(first), f"exit {gname} after its nodes")
    # Empty subgraphs are entered too, in attribute order; g2 lies between g1 and g3
    check("+else" in trace and "+g2" in trace, "empty graphs entered")
    check(trace.index("-g1") < trace.index("+g2") < trace.index("+g3"), "GRAPHS order forward")
    check(trace.index("-then") < trace.index("+else"), "attribute order forward")
    # The same iterator object can be restarted
    check(names(it) == fwd, "restart")

    rtrace: list[str] = []
    for n in RecursiveGraphIterator(
        g, reverse=True, enter_graph=lambda gr: rtrace.append("+" + gr.name)
    ):
        rtrace.append(n.name)
    # Backwards the graphs of one GRAPHS attribute are visited last to first, but the
    # attributes of one node are still taken in their stored order
    check(rtrace.index("+g3") < rtrace.index("+g2") < rtrace.index("+g1"), "GRAPHS reversed")
    check(rtrace.index("+then") < rtrace.index("+else"), "attributes order unchanged")

    # subgraphs(): every subgraph once, empty ones included
    check(
        [s.name for s in g.subgraphs()] == ["then", "deep", "else", "g1", "g2", "g3"],
        "subgraphs()",
    )

    # recursive= callback prunes
    check(
        names(RecursiveGraphIterator(g, recursive=lambda n: n.name != "b"))
        == ["a", "b", "c", "x1", "x2", "y1", "e"],
        "pruned",
    )

    # ---- 2. edits while several recursive iterators are running ---------------------------
    g, o = build()
    f_it = iter(RecursiveGraphIterator(g))
    b_it = iter(RecursiveGraphIterator(g, reverse=True))
    seen_f, seen_b = [], []
    seen_f.append(next(f_it).name)  # a
    seen_f.append(next(f_it).name)  # b
    seen_f.append(next(f_it).name)  # t1 (inside then)
    seen_b.append(next(b_it).name)  # e
    seen_b.append(next(b_it).name)  # c
    seen_b.append(next(b_it).name)  # y1 (inside g3)
    then_g, g1, g3 = o["then_g"], o["g1"], o["g3"]
    # remove the current node of the forward iterator; insert after and before it first
    new_after, new_before = mk_node("t1_after"), mk_node("t1_before")
    then_g.insert_after(o["t1"], new_after)
    then_g.insert_before(o["t1"], [new_before])
    then_g.remove(o["t1"])
    check(o["t1"].graph is None, "t1 detached")
    # move x2 (not yet reached by anyone) to the front of g1: append existing node / insert_before
    g1.insert_before(o["x1"], o["x2"])
    check(names(g1) == ["x2", "x1"] and len(g1) == 2, "moved x2")
    # a rejected edit: anchor from another graph -> ValueError, nothing changes
    stranger = mk_node("stranger")
    try:
        g1.insert_after(o["y1"], stranger)
    except ValueError:
        pass
    else:
        check(False, "foreign anchor accepted")
    check(stranger.graph is None and names(g1) == ["x2", "x1"], "rejected edit left traces")
    # a rejected edit: node of another graph -> ValueError
    try:
        g3.append(o["x1"])
    except ValueError:
        pass
    else:
        check(False, "node of other graph accepted")
    # extend with duplicates: 'dup' mentioned twice ends up once, at the last position
    dup, z = mk_node("dup"), mk_node("z")
    g3.extend([dup, z, dup])
    check(names(g3) == ["y1", "z", "dup"], f"extend with duplicates: {names(g3)}")
    check(len(g3) == 3 and g3[-1] is dup and g3[0] is o["y1"] and dup in g3, "len/index/in")
    # add a node at the end of main carrying a fresh nested subgraph
    late_inner = mk_graph("late_inner", [mk_node("li")])
    late = mk_node("late", [ir.AttrGraphs("gs", [mk_graph("empty_late"), late_inner])])
    g.append(late)
    # remove 'a' (already passed forwards, not yet reached backwards)
    g.remove(o["a"])

    seen_f += drain(f_it)
    seen_b += drain(b_it)
    check(
        seen_f
        == ["a", "b", "t1", "t1_after", "t2", "d1", "c", "x2", "x1", "y1", "z", "dup", "e", "late", "li"],
        f"forward under edits: {seen_f}",
    )
    # backwards: current node y1 stays; z/dup were appended behind it -> skipped; late is
    # behind the position -> skipped; x2 moved in front of x1; t1 gone, a gone.
    check(
        seen_b == ["e", "c", "y1", "x1", "x2", "b", "t2", "d1", "t1_after", "t1_before"],
        f"backward under edits: {seen_b}",
    )
    for it_ in (f_it, b_it):
        try:
            next(it_)
        except StopIteration:
            pass
        else:
            check(False, "iterator not exhausted")
    check(
        names(g.all_nodes())
        == ["b", "t1_before", "t1_after", "t2", "d1", "c", "x2", "x1", "y1", "z", "dup", "e", "late", "li"],
        f"final recursive order: {names(g.all_nodes())}",
    )
    check(names(reversed(g)) == ["late", "e", "c", "b"], "top-level reversed")

    # ---- 3. a Function iterates the same way; sort while iterating -------------------------
    g, o = build()
    func = ir.Function("dom", "fn", graph=g, attributes=[])
    check(names(RecursiveGraphIterator(func)) == fwd, "function forward")
    check(names(RecursiveGraphIterator(func, reverse=True)) == bwd, "function backward")
    check([s.name for s in func.subgraphs()][:2] == ["then", "deep"], "function subgraphs")
    it = iter(func.all_nodes())
    first = next(it)
    func.sort()  # no data dependencies: order is kept, every node is re-linked
    rest = drain(it)
    check(first.name == "a", "first")
    # 'a' was current and has been moved: iteration resumes after its original place, which
    # now is the end of the old chain -> nothing of the old chain is left, but never an error
    check(set(rest) <= set(fwd), f"only member nodes after sort: {rest}")
    check(len(rest) == len(set(rest)), "no node twice after sort")
    check(names(func.all_nodes()) == fwd, "sorted order")

    # ---- 4. empty graph ----------------------------------------------------------------------
    empty = mk_graph("empty")
    events: list[str] = []
    check(
        names(
            RecursiveGraphIterator(
                empty,
                enter_graph=lambda gr: events.append("+"),
                exit_graph=lambda gr: events.append("-"),
            )
        )
        == [],
        "empty graph",
    )
    check(events == ["+", "-"], f"empty graph events {events}")
    check(list(empty.subgraphs()) == [] and len(empty) == 0, "empty subgraphs")
    try:
        empty[0]
    except IndexError:
        pass
    else:
        check(False, "index into empty graph")

    print("OK")


if __name__ == "__main__":
    main()
