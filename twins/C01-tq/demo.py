"""Demo for C01: Graph.remove keeps use-def and ownership links consistent."""
import onnx_ir as ir


def check(graphs, nodes, values):
    """Both directions of every link agree."""
    for g in graphs:
        seq = list(g)
        assert len(seq) == len({id(n) for n in seq}) == len(g)
        for n in seq:
            assert n.graph is g
    for n in nodes:
        owners = [g for g in graphs if any(m is n for m in g)]
        assert owners == ([n.graph] if n.graph is not None else []), n
        for i, v in enumerate(n.inputs):
            if v is not None:
                assert (n, i) in set(v.uses()), (n, i)
        for i, o in enumerate(n.outputs):
            assert o.producer() is n and o.index() == i
    for v in values:
        for user, i in v.uses():
            assert user.inputs[i] is v, (v, user, i)
        assert len(list(v.uses())) == len(set(v.uses()))


def build():
    x = ir.val("x")
    a = ir.Node("", "A", [x, x], name="a")
    b = ir.Node("", "B", [a.outputs[0], None, x], name="b")
    c = ir.Node("", "C", [b.outputs[0], a.outputs[0]], name="c")
    inner_n = ir.Node("", "Inner", [a.outputs[0]], name="inner")
    inner = ir.Graph([], [inner_n.outputs[0]], nodes=[inner_n], name="inner_g")
    d = ir.Node("", "If", [c.outputs[0]], attributes=[ir.AttrGraph("body", inner)], name="d")
    g = ir.Graph([x], [d.outputs[0]], nodes=[a, b, c, d], name="g")
    other_n = ir.Node("", "O", [x], name="o")
    other = ir.Graph([], [], nodes=[other_n], name="other")
    nodes = [a, b, c, d, inner_n, other_n]
    values = [x] + [o for n in nodes for o in n.outputs]
    return g, inner, other, nodes, values


def snapshot(graphs, nodes, values):
    return (
        [[id(n) for n in g] for g in graphs],
        [(id(n.graph), tuple(id(v) for v in n.inputs)) for n in nodes],
        [sorted((id(u), i) for u, i in v.uses()) for v in values],
    )


def expect_rejected(call, graphs, nodes, values):
    before = snapshot(graphs, nodes, values)
    try:
        call()
    except ValueError:
        pass
    else:
        raise AssertionError("call was expected to raise ValueError")
    assert snapshot(graphs, nodes, values) == before, "rejected call modified state"
    check(graphs, nodes, values)


g, inner, other, nodes, values = build()
a, b, c, d, inner_n, other_n = nodes
x = values[0]
graphs = [g, inner, other]
check(graphs, nodes, values)

# Rejected: node of another graph, alone and after valid ones (nothing may change)
expect_rejected(lambda: g.remove(other_n), graphs, nodes, values)
expect_rejected(lambda: g.remove([b, other_n]), graphs, nodes, values)
expect_rejected(lambda: g.remove([b, inner_n], safe=True), graphs, nodes, values)
# Rejected (safe): still used by c / inner; contributes to a graph output
expect_rejected(lambda: g.remove(a, safe=True), graphs, nodes, values)
expect_rejected(lambda: g.remove([a, b, c], safe=True), graphs, nodes, values)  # inner_n uses a
expect_rejected(lambda: g.remove(d, safe=True), graphs, nodes, values)
# Rejected: unhashable / non-node element
try:
    g.remove([[b]])
except TypeError:
    pass
else:
    raise AssertionError
check(graphs, nodes, values)

# Empty input: nothing happens
g.remove([])
g.remove((), safe=True)
assert list(g) == [a, b, c, d]
check(graphs, nodes, values)

# Duplicates in the iterable are removed once; a generator is accepted
g.remove((n for n in [b, b]))
assert list(g) == [a, c, d] and b.graph is None
# unsafe removal keeps the inputs of b (it is still a user)
assert b.inputs[0] is a.outputs[0] and (b, 2) in set(x.uses())
check(graphs, nodes, values)

# Removing again is rejected, the node can be re-added, then removed safely
expect_rejected(lambda: g.remove(b), graphs, nodes, values)
expect_rejected(lambda: g.remove([c, b], safe=True), graphs, nodes, values)
g.insert_after(a, b)
assert list(g) == [a, b, c, d]
check(graphs, nodes, values)

# Safe removal of the tail d (after it stops being an output) and c, b together
g.outputs.clear()
g.remove([d, c, b, d], safe=True)
assert list(g) == [a]
for n in (b, c, d):
    assert n.graph is None and all(v is None for v in n.inputs)
assert len(b.inputs) == 3 and len(c.inputs) == 2
assert set(x.uses()) == {(a, 0), (a, 1), (other_n, 0)}
assert set(a.outputs[0].uses()) == {(inner_n, 0)}
check(graphs, nodes, values)

# Nested graph: remove its node through the subgraph, both modes
expect_rejected(lambda: inner.remove(inner_n, safe=True), graphs, nodes, values)  # output of inner
inner.outputs.pop()
inner.remove(inner_n, safe=True)
assert len(inner) == 0 and inner_n.graph is None and not a.outputs[0].uses()
check(graphs, nodes, values)
g.remove(a, safe=True)
assert len(g) == 0 and a.inputs == (None, None)
assert set(x.uses()) == {(other_n, 0)}
check(graphs, nodes, values)

# Function.remove delegates to the same code
f_n = ir.Node("", "F", [x], name="f")
func = ir.Function("dom", "fn", graph=ir.Graph([], [], nodes=[f_n]), attributes=[])
nodes.append(f_n); values.extend(f_n.outputs); graphs.append(func.graph)
expect_rejected(lambda: func.remove(other_n, safe=True), graphs, nodes, values)
func.remove(f_n, safe=True)
assert f_n.graph is None and f_n.inputs == (None,) and set(x.uses()) == {(other_n, 0)}
check(graphs, nodes, values)
print("OK")
