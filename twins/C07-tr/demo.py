"""Demo for C07: external-data save/load round trip, seen from the code that RECORDS the
byte ranges in the model file (serde) and from the code that RE-ATTACHES loaded external
tensors to their directory (load -> set_base_dir -> _all_tensors).

Run: PYTHONPATH=<tree>/src python demo.py
"""

from __future__ import annotations

import os
import sys
import tempfile

import numpy as np
import onnx

import onnx_ir as ir
from onnx_ir import serde


def check(cond, msg):
    if not cond:
        print("FAIL:", msg)
        sys.exit(1)


def build_model():
    rng = np.random.default_rng(7)
    big = ir.Tensor(rng.integers(0, 255, size=(40, 50), dtype=np.uint8), name="big")
    mid = ir.Tensor(rng.standard_normal((30, 10)).astype(np.float32), name="mid")
    small = ir.Tensor(np.arange(4, dtype=np.int64), name="small")
    empty = ir.Tensor(np.zeros((0, 3), dtype=np.float32), name="empty")
    packed = ir.Tensor(
        np.array([1, 2, 3, 4, 5, 6, 7, 0] * 80, dtype=np.uint8).reshape(640),
        name="packed",
    )
    lazy_src = rng.standard_normal((64, 8)).astype(np.float16)
    lazy = ir.LazyTensor(
        lambda: ir.Tensor(lazy_src), dtype=ir.DataType.FLOAT16, shape=ir.Shape((64, 8)), name="lazy"
    )
    proto_backed = serde.TensorProtoTensor(
        onnx.numpy_helper.from_array(rng.standard_normal((20, 20)).astype(np.float64), "pb")
    )
    # The same tensor object is the value of two initializers (main graph and subgraph)
    shared = ir.Tensor(rng.standard_normal((16, 16)).astype(np.float32), name="shared")

    def init(tensor, name=None):
        v = ir.Value(name=name or tensor.name, const_value=tensor)
        return v

    sub_inits = [init(shared, "shared_in_sub"), init(ir.Tensor(np.ones(300, np.float32), name="sub_w"))]
    sub_in = ir.Value(name="sub_x")
    sub_node = ir.Node("", "Add", [sub_in, sub_inits[1]], num_outputs=1)
    sub_node.outputs[0].name = "sub_y"
    subgraph = ir.Graph(
        [sub_in], sub_node.outputs, nodes=[sub_node], initializers=sub_inits, name="body"
    )
    # nested subgraph through a GRAPHS attribute
    deep_inits = [init(ir.Tensor(np.full(500, 3, np.int16), name="deep_w"))]
    deep_node = ir.Node("", "Identity", [deep_inits[0]], num_outputs=1)
    deep_node.outputs[0].name = "deep_y"
    deep = ir.Graph([], deep_node.outputs, nodes=[deep_node], initializers=deep_inits, name="deep")

    main_inits = [
        init(t) for t in (big, mid, small, empty, packed, lazy, proto_backed, shared)
    ]
    # an initializer without a tensor: skipped by everything
    hollow = ir.Value(name="hollow")
    x = ir.Value(name="x")
    n1 = ir.Node(
        "",
        "If",
        [x],
        attributes=[ir.AttrGraph("then_branch", subgraph), ir.AttrGraphs("others", [deep])],
        num_outputs=1,
    )
    n1.outputs[0].name = "y"
    # a tensor attribute (stays inline on save, must survive)
    n2 = ir.Node(
        "",
        "Constant",
        [],
        attributes=[ir.AttrTensor("value", ir.Tensor(np.arange(6, dtype=np.int32), name="c"))],
        num_outputs=1,
    )
    n2.outputs[0].name = "cst"
    graph = ir.Graph(
        [x],
        [n1.outputs[0]],
        nodes=[n1, n2],
        initializers=main_inits,
        name="main",
        opset_imports={"": 20},
    )
    graph.initializers["hollow"] = hollow
    return ir.Model(graph, ir_version=10)


def all_initializers(model):
    out = []
    for g in model.graphs():
        for v in g.initializers.values():
            out.append(v)
    return out


def snapshot(model):
    return [(v.name, v.const_value) for v in all_initializers(model)]


def expected_bytes(model):
    res = {}
    for v in all_initializers(model):
        t = v.const_value
        if t is None:
            continue
        res[v.name] = (t.dtype, tuple(t.shape.numpy()), t.tobytes())
    return res


def check_layout(loaded, base_dir, alignment, align_threshold, limit):
    """Recorded ranges per file: declaration order, disjoint, inside the file, aligned."""
    per_file: dict[str, list] = {}
    for v in all_initializers(loaded):
        t = v.const_value
        if isinstance(t, ir.ExternalTensor):
            check(os.path.normpath(os.fspath(t.base_dir)) == os.path.normpath(base_dir),
                  f"base_dir of {v.name}: {t.base_dir!r}")
            per_file.setdefault(os.fspath(t.location), []).append(t)
    for location, tensors in per_file.items():
        size = os.path.getsize(os.path.join(base_dir, location))
        end = 0
        seen = set()
        for t in tensors:
            if (t.offset, t.length) in seen and t.name in ("shared",):
                continue
            check(t.offset is not None and t.length is not None, "offset/length recorded")
            check(t.offset >= end, f"{location}: {t.name} at {t.offset} before end {end}")
            check(t.offset + t.length <= size, f"{location}: {t.name} outside the file")
            if alignment is not None and t.nbytes > align_threshold:
                check(t.offset % max(4096, alignment) == 0, f"{t.name} not aligned")
            end = t.offset + t.length
            seen.add((t.offset, t.length))
        if limit is not None and end > limit:
            check(len(tensors) == 1, f"shard {location} over the limit with {len(tensors)} tensors")
    return per_file


def roundtrip(tmp, sub, external, threshold, **kw):
    model = build_model()
    want = expected_bytes(model)
    before = snapshot(model)
    directory = os.path.join(tmp, sub)
    os.makedirs(directory, exist_ok=True)
    path = os.path.join(directory, "m.v1.onnx")
    ir.save(model, path, external_data=external, size_threshold_bytes=threshold, **kw)
    after = snapshot(model)
    check(len(before) == len(after) and all(a[0] == b[0] and a[1] is b[1] for a, b in zip(before, after)),
          "model holds other tensor objects after save")
    loaded = ir.load(path)
    got = {}
    for v in all_initializers(loaded):
        t = v.const_value
        if t is None:
            continue
        dtype, shape, data = want[v.name]
        check(t.name == v.name, f"name of {v.name}: {t.name}")
        check(t.dtype == dtype, f"dtype of {v.name}")
        check(tuple(t.shape.numpy()) == shape, f"shape of {v.name}")
        check(t.tobytes() == data, f"bytes of {v.name}")
        check(isinstance(t, ir.ExternalTensor) == (len(data) > threshold),
              f"{v.name}: {len(data)} bytes, threshold {threshold}, {type(t).__name__}")
        got[v.name] = t
    check(set(got) == set(want), "initializer sets differ")
    per_file = check_layout(
        loaded, directory, kw.get("alignment"), kw.get("align_threshold", 1048576),
        kw.get("max_shard_size_bytes"),
    )
    # The recorded entries in the proto are exactly location/offset/length, in this order
    proto = onnx.load(path, load_external_data=False)
    for tp in proto.graph.initializer:
        if tp.data_location == onnx.TensorProto.EXTERNAL:
            check([e.key for e in tp.external_data] == ["location", "offset", "length"],
                  f"entries of {tp.name}: {[e.key for e in tp.external_data]}")
            check(not tp.HasField("raw_data"), "external tensor carries raw data")
    for t in got.values():
        if isinstance(t, ir.ExternalTensor):
            t.release()
    return loaded, per_file, path


def main():
    with tempfile.TemporaryDirectory() as tmp:
        # 1. single file, several thresholds / alignment / workers, dotted stem, sub-directory
        roundtrip(tmp, "a", "m.v1.data", 0)
        roundtrip(tmp, "b", "m.v1.data", 256, max_workers=4)
        os.makedirs(os.path.join(tmp, "c", "w"))
        roundtrip(tmp, "c", os.path.join("w", "m.v1.data"), 1000, alignment=4096, align_threshold=1024)
        roundtrip(tmp, "d", "m.v1.data", 10**9)  # nothing external
        # 2. shards
        _, per_file, _ = roundtrip(tmp, "e", "m.v1.data", 0, max_shard_size_bytes=2500)
        check(len(per_file) > 2, f"expected several shards, got {sorted(per_file)}")
        _, per_file, path_f = roundtrip(tmp, "f", "m.v1.data", 100, max_shard_size_bytes=1500,
                                        max_workers=3, alignment=8192, align_threshold=0)

        # 3. unusual: a rejected call. Shards exist already -> FileExistsError, model untouched
        model = build_model()
        before = snapshot(model)
        listing = sorted(os.listdir(os.path.dirname(path_f)))
        try:
            ir.save(model, path_f, external_data="m.v1.data", size_threshold_bytes=100,
                    max_shard_size_bytes=1500, alignment=8192, align_threshold=0)
        except FileExistsError:
            pass
        else:
            check(False, "overwriting shards was accepted")
        check(all(a[1] is b[1] for a, b in zip(before, snapshot(model))), "rejected save changed the model")
        check(sorted(os.listdir(os.path.dirname(path_f))) == listing, "rejected save changed the directory")

        # 4. loaded model (already-external + proto-backed tensors) saved again elsewhere,
        #    loaded from a bare file name (base_dir must become '.')
        loaded = ir.load(path_f)
        want = expected_bytes(loaded)
        for v in all_initializers(loaded):
            if isinstance(v.const_value, ir.ExternalTensor):
                v.const_value.release()
        d2 = os.path.join(tmp, "g")
        os.makedirs(d2)
        before = snapshot(loaded)
        ir.save(loaded, os.path.join(d2, "again.onnx"), external_data="again.bin", size_threshold_bytes=700)
        check(all(a[1] is b[1] for a, b in zip(before, snapshot(loaded))), "re-save changed the model")
        cwd = os.getcwd()
        os.chdir(d2)
        try:
            again = ir.load("again.onnx")
            for v in all_initializers(again):
                t = v.const_value
                if t is None:
                    continue
                dtype, shape, data = want[v.name]
                check((t.dtype, tuple(t.shape.numpy()), t.tobytes()) == (dtype, shape, data),
                      f"second round trip of {v.name}")
                if isinstance(t, ir.ExternalTensor):
                    check(os.fspath(t.base_dir) == os.curdir, f"base_dir {t.base_dir!r}")
                    check(len(data) > 700, "threshold on re-save")
                    t.release()
        finally:
            os.chdir(cwd)

        # 5. external tensors in ATTRIBUTES and in FUNCTIONS get their directory on load, too
        d3 = os.path.join(tmp, "h")
        os.makedirs(d3)
        payload = np.arange(24, dtype=np.float32)
        with open(os.path.join(d3, "attr.bin"), "wb") as f:
            f.write(b"\0" * 8 + payload.tobytes())
        ext_full = ir.ExternalTensor("attr.bin", 8, payload.nbytes, ir.DataType.FLOAT, name="ca",
                                     shape=ir.Shape((24,)), base_dir="/nonexistent")
        # no offset / length recorded: only the location entry must be written
        with open(os.path.join(d3, "whole.bin"), "wb") as f:
            f.write(payload.tobytes())
        ext_bare = ir.ExternalTensor("whole.bin", None, None, ir.DataType.FLOAT, name="cb",
                                     shape=ir.Shape((24,)), base_dir="/nonexistent")
        tp = serde.serialize_tensor(ext_bare)
        check([(e.key, e.value) for e in tp.external_data] == [("location", "whole.bin")],
              f"bare reference: {[(e.key, e.value) for e in tp.external_data]}")
        tp = serde.serialize_tensor(ext_full)
        check([(e.key, e.value) for e in tp.external_data]
              == [("location", "attr.bin"), ("offset", "8"), ("length", str(payload.nbytes))], "full reference")
        check(tp.data_location == onnx.TensorProto.EXTERNAL and tp.name == "ca", "proto fields")
        back = serde.deserialize_tensor(tp, base_path=d3)
        check(isinstance(back, ir.ExternalTensor) and back.offset == 8 and back.length == payload.nbytes
              and os.fspath(back.base_dir) == d3 and back.tobytes() == payload.tobytes(), "deserialize_tensor")
        back.release()

        def const_node(tensor, out, attr="value"):
            n = ir.Node("", "Constant", [], attributes=[ir.AttrTensor(attr, tensor)], num_outputs=1)
            n.outputs[0].name = out
            return n

        inner = const_node(ext_bare, "inner_c")
        inner_graph = ir.Graph([], inner.outputs, nodes=[inner], name="inner")
        holder = ir.Node("", "Loop", [], attributes=[ir.AttrGraph("body", inner_graph)], num_outputs=1)
        holder.outputs[0].name = "h"
        multi = ir.Node("", "Custom", [], attributes=[ir.AttrTensors("ts", [ext_full, ext_bare, ext_full])],
                        num_outputs=1)
        multi.outputs[0].name = "mo"
        top = const_node(ext_full, "top_c")
        g = ir.Graph([], [top.outputs[0]], nodes=[top, holder, multi], name="withattrs",
                     opset_imports={"": 20})
        fn_node = const_node(ext_full, "fo")
        fgraph = ir.Graph([], fn_node.outputs, nodes=[fn_node], name="fg", opset_imports={"": 20})
        func = ir.Function("dom", "F", "", graph=fgraph, attributes=[])
        m = ir.Model(g, ir_version=10, functions=[func])
        p3 = os.path.join(d3, "attrs.onnx")
        ir.save(m, p3)  # no external_data: external references are stored as they are
        lm = ir.load(p3)
        found = []
        for node in ir.traversal.RecursiveGraphIterator(lm.graph):
            for attr in node.attributes.values():
                if attr.type == ir.AttributeType.TENSOR:
                    found.append(attr.value)
                elif attr.type == ir.AttributeType.TENSORS:
                    found.extend(attr.value)
        for f_ in lm.functions.values():
            for node in f_:
                for attr in node.attributes.values():
                    if attr.type == ir.AttributeType.TENSOR:
                        found.append(attr.value)
        check(len(found) == 6, f"found {len(found)} attribute tensors")
        for t in found:
            check(isinstance(t, ir.ExternalTensor), "attribute tensor stays external")
            check(os.fspath(t.base_dir) == d3, f"attribute tensor base_dir {t.base_dir!r}")
            check(t.tobytes() == payload.tobytes(), f"attribute tensor bytes of {t.name}")
            check((t.offset, t.length) in ((8, payload.nbytes), (None, None)), "offset/length kept")
            t.release()

        # 6. unusual: serialization that fails is reported under the public function's name
        class Broken(ir.ExternalTensor):
            failures = 1

            @property
            def offset(self):
                if Broken.failures:  # only the first read fails (repr reads it again)
                    Broken.failures -= 1
                    raise RuntimeError("no offset today")
                return super().offset

        broken = Broken("whole.bin", 0, 4, ir.DataType.FLOAT, name="bad", shape=ir.Shape((1,)), base_dir=d3)
        target = onnx.TensorProto()
        try:
            serde.serialize_tensor_into(target, from_=broken)
        except serde.SerdeError as e:
            check("serialize_tensor_into" in str(e), f"message: {e}")
            check(isinstance(e.__cause__, RuntimeError), "cause")
        else:
            check(False, "broken tensor serialized")
        # nothing was recorded for the half-serialized tensor
        check(len(target.external_data) == 0, "entries recorded before the failure")
        check(target.data_location == onnx.TensorProto.EXTERNAL, "data_location")

        # 7. safetensors backend goes through the same recording code
        d4 = os.path.join(tmp, "s")
        os.makedirs(d4)
        sm = build_model()
        # names must be unique for safetensors: drop the duplicated object in the subgraph
        want = expected_bytes(sm)
        before = snapshot(sm)
        try:
            ir.save_safetensors(sm, os.path.join(d4, "st.onnx"), size_threshold_bytes=300)
        except Exception as e:  # same outcome expected with and without the change
            print("safetensors save raised", type(e).__name__, "-", str(e)[:80])
            check(all(a[1] is b[1] for a, b in zip(before, snapshot(sm))), "failed safetensors save changed model")
        else:
            check(all(a[1] is b[1] for a, b in zip(before, snapshot(sm))), "safetensors save changed model")
            ls = ir.load(os.path.join(d4, "st.onnx"))
            for v in all_initializers(ls):
                t = v.const_value
                if t is None:
                    continue
                dtype, shape, data = want[v.name]
                check(t.dtype == dtype and tuple(t.shape.numpy()) == shape and t.tobytes() == data,
                      f"safetensors round trip of {v.name}")
                if isinstance(t, ir.ExternalTensor):
                    check(t.offset is not None and t.length == len(data), "safetensors range")
                    t.release()
    print("OK")


if __name__ == "__main__":
    main()
