"""Demo for C14 (passes honour their contract) around ShapeInferencePass.

Exits 0 when every check holds.
"""

from __future__ import annotations

import logging
from unittest import mock

import numpy as np
import onnx

import onnx_ir as ir
from onnx_ir.passes.common import shape_inference
from onnx_ir.passes.common.shape_inference import ShapeInferencePass, infer_shapes

FLOAT = ir.DataType.FLOAT


def snapshot(model: ir.Model) -> bytes:
    return ir.serde.serialize_model(model).SerializeToString(deterministic=True)


def structure(model: ir.Model, with_info: bool = True):
    g = model.graph
    return (
        [id(v) for v in g.inputs],
        [(k, id(v), id(v.const_value)) for k, v in g.initializers.items()],
        [(id(v), v.shape, v.type) for v in g.initializers.values()] if with_info else None,
        [id(v) for v in g.outputs],
        [id(n) for n in g],
    )


def check_links(model: ir.Model) -> None:
    for graph in model.graphs():
        for node in graph:
            assert node.graph is graph
            for i, out in enumerate(node.outputs):
                assert out.producer() is node and out.index() == i
            for i, inp in enumerate(node.inputs):
                if inp is not None:
                    assert (node, i) in inp.uses()


def make_model(big: bool = True, with_if: bool = True) -> ir.Model:
    x = ir.Value(name="x", shape=ir.Shape([2, 3]), type=ir.TensorType(FLOAT))
    cond = ir.Value(name="cond", shape=ir.Shape([]), type=ir.TensorType(ir.DataType.BOOL))
    w_arr = np.ones((2, 3) if not big else (200, 2, 3), dtype=np.float32)
    w = ir.Value(name="w", const_value=ir.tensor(w_arr, name="w"))  # no shape / type set
    small = ir.Value(
        name="small",
        shape=ir.Shape([3]),
        type=ir.TensorType(FLOAT),
        const_value=ir.tensor(np.arange(3, dtype=np.float32), name="small"),
    )
    add = ir.Node("", "Add", [x, w], outputs=[ir.Value(name="a")])
    mul = ir.Node("", "Mul", [add.outputs[0], small], outputs=[ir.Value(name="m")])
    nodes = [add, mul]
    out = mul.outputs[0]
    if with_if:
        # Nested graphs: both branches use the outer value "m"
        t = ir.Node("", "Relu", [out], outputs=[ir.Value(name="t_out")])
        e = ir.Node("", "Neg", [out], outputs=[ir.Value(name="e_out")])
        then_g = ir.Graph([], [t.outputs[0]], nodes=[t], name="then_g")
        else_g = ir.Graph([], [e.outputs[0]], nodes=[e], name="else_g")
        if_node = ir.Node(
            "",
            "If",
            [cond],
            attributes=[
                ir.AttrGraph("then_branch", then_g),
                ir.AttrGraph("else_branch", else_g),
            ],
            outputs=[ir.Value(name="y")],
        )
        nodes.append(if_node)
        out = if_node.outputs[0]
    graph = ir.Graph(
        [x, cond],
        [out],
        nodes=nodes,
        initializers=[w, small],
        opset_imports={"": 20},
        name="main",
    )
    return ir.Model(graph, ir_version=10)


def test_normal_and_fixpoint() -> None:
    for big in (False, True):
        for with_if in (False, True):
            model = make_model(big, with_if)
            struct = structure(model, with_info=False)
            p = ShapeInferencePass()
            r1 = p(model)
            assert r1.model is model, "in-place pass must return its input"
            assert r1.modified is True
            assert structure(model, False) == struct, "inputs / initializers must be restored"
            check_links(model)
            values = ir.convenience.create_value_mapping(model.graph)
            exp = [200, 2, 3] if big else [2, 3]
            assert list(values["a"].shape) == exp and values["a"].dtype == FLOAT
            assert list(values["m"].shape) == exp and values["m"].dtype == FLOAT
            if with_if:
                assert values["t_out"].dtype == FLOAT and list(values["t_out"].shape) == exp
                assert values["e_out"].dtype == FLOAT and list(values["e_out"].shape) == exp
                assert values["y"].dtype == FLOAT
            # w had no shape / type: the merge fills them in from the inferred model
            assert list(model.graph.initializers["w"].shape) == exp
            assert model.graph.initializers["w"].dtype == FLOAT
            # Fixpoint within a bounded number of rounds
            before = snapshot(model)
            for _ in range(3):
                r = p(model)
                assert r.model is model
                if not r.modified:
                    break
                before = snapshot(model)
            assert r.modified is False
            assert snapshot(model) == before, "modified=False but serialization differs"
            assert structure(model, False) == struct
            # convenience wrapper returns the same object
            assert infer_shapes(model) is model
            assert snapshot(model) == before


def test_known_info_not_erased() -> None:
    """Inferred None never overwrites, and a differing shape does overwrite."""
    model = make_model(False, False)
    values = ir.convenience.create_value_mapping(model.graph)
    values["a"].shape = ir.Shape(["N", 3])  # compatible but less precise
    values["m"].dtype = FLOAT  # dtype already right; only shape missing
    r = ShapeInferencePass()(model)
    assert r.modified is True
    assert list(values["a"].shape) == [2, 3]
    assert list(values["m"].shape) == [2, 3]
    # graph input x has full info: identical afterwards
    assert list(values["x"].shape) == [2, 3] and values["x"].dtype == FLOAT


def test_value_missing_in_inferred() -> None:
    """Unusual: the inferred model lacks a value; it is skipped with a warning, the rest merges."""
    model = make_model(False, False)
    real = onnx.shape_inference.infer_shapes

    def drop_value_info(proto, **kwargs):
        inferred = real(proto, **kwargs)
        # rename the last node's output and the graph output: "m" disappears
        inferred.graph.node[-1].output[0] = "renamed"
        inferred.graph.output[0].name = "renamed"
        kept = [vi for vi in inferred.graph.value_info if vi.name != "m"]
        del inferred.graph.value_info[:]
        inferred.graph.value_info.extend(kept)
        return inferred

    records: list[logging.LogRecord] = []

    class Handler(logging.Handler):
        def emit(self, record):
            records.append(record)

    handler = Handler(level=logging.WARNING)
    shape_inference.logger.addHandler(handler)
    try:
        with mock.patch.object(onnx.shape_inference, "infer_shapes", drop_value_info):
            r = ShapeInferencePass()(model)
    finally:
        shape_inference.logger.removeHandler(handler)
    values = ir.convenience.create_value_mapping(model.graph)
    assert r.model is model and r.modified is True
    assert list(values["a"].shape) == [2, 3] and values["a"].dtype == FLOAT
    assert values["m"].shape is None and values["m"].type is None, "m must be untouched"
    msgs = [rec.getMessage() for rec in records]
    assert any("Value m not found in inferred graph" in m for m in msgs), msgs
    check_links(model)


def test_options_forwarded() -> None:
    model = make_model(False, False)
    seen = {}
    real = onnx.shape_inference.infer_shapes

    def spy(proto, **kwargs):
        seen.update(kwargs)
        assert isinstance(proto, onnx.ModelProto)
        return real(proto, **kwargs)

    p = ShapeInferencePass(check_type=False, strict_mode=False, data_prop=True)
    p.data_prop = False  # options are read at call time
    with mock.patch.object(onnx.shape_inference, "infer_shapes", spy):
        p(model)
    assert seen == {"check_type": False, "strict_mode": False, "data_prop": False}, seen


def test_inference_failure_leaves_model_unchanged() -> None:
    for with_if in (False, True):
        model = make_model(True, with_if)
        struct = structure(model)
        before = snapshot(model)

        def boom(proto, **kwargs):
            raise onnx.shape_inference.InferenceError("injected")

        with mock.patch.object(onnx.shape_inference, "infer_shapes", boom):
            r = ShapeInferencePass()(model)
        assert r.model is model and r.modified is False
        assert structure(model) == struct
        assert snapshot(model) == before
        check_links(model)

        # Genuine strict-mode failure: incompatible declared shapes
        bad = make_model(False, with_if)
        ir.convenience.create_value_mapping(bad.graph)["x"].shape = ir.Shape([5, 7])
        struct_bad = structure(bad)
        before_bad = snapshot(bad)
        r = ShapeInferencePass()(bad)
        assert r.model is bad and r.modified is False
        assert structure(bad) == struct_bad and snapshot(bad) == before_bad


def test_serialization_failure_leaves_model_unchanged() -> None:
    """Fault at the ONNX boundary: a lazy tensor that cannot be materialized."""
    model = make_model(True, True)
    calls = []

    def fail():
        calls.append(1)
        raise RuntimeError("cannot load")

    lazy = ir.LazyTensor(fail, dtype=FLOAT, shape=ir.Shape([4]), name="lazy")
    lazy_value = ir.Value(name="lazy", const_value=lazy)  # small: kept for serialization
    model.graph.initializers.add(lazy_value)
    struct = structure(model)
    order = list(model.graph.initializers)
    r = ShapeInferencePass()(model)
    assert calls, "the lazy tensor should have been asked for its data"
    assert r.model is model and r.modified is False
    assert structure(model) == struct
    assert list(model.graph.initializers) == order == ["w", "small", "lazy"]
    assert model.graph.initializers["lazy"].const_value is lazy
    assert lazy_value.shape is None and lazy_value.type is None
    assert [v.name for v in model.graph.inputs] == ["x", "cond"]
    for v in ir.convenience.create_value_mapping(model.graph).values():
        if v.name in ("a", "m", "y", "t_out", "e_out"):
            assert v.shape is None and v.type is None
    check_links(model)


def test_empty_graph_and_manager() -> None:
    empty = ir.Model(ir.Graph([], [], nodes=[], opset_imports={"": 20}, name="e"), ir_version=10)
    before = snapshot(empty)
    r = ShapeInferencePass()(empty)
    assert r.model is empty and r.modified is False and snapshot(empty) == before

    # In a pass manager: two steps requested, second one reports no change -> early stop
    model = make_model(True, True)
    counting = []
    real = onnx.shape_inference.infer_shapes

    def spy(proto, **kwargs):
        counting.append(1)
        return real(proto, **kwargs)

    pm = ir.passes.PassManager(
        [ShapeInferencePass(), ir.passes.common.CheckerPass()], steps=5, early_stop=True
    )
    assert pm.in_place
    with mock.patch.object(onnx.shape_inference, "infer_shapes", spy):
        r = pm(model)
    assert r.model is model and r.modified is True
    assert len(counting) == 2, counting
    final = snapshot(model)
    r2 = pm(model)
    assert r2.model is model and r2.modified is False and snapshot(model) == final
    check_links(model)


def main() -> None:
    logging.getLogger("onnx_ir").setLevel(logging.ERROR)
    shape_inference.logger.setLevel(logging.WARNING)
    shape_inference.logger.propagate = False
    shape_inference.logger.addHandler(logging.NullHandler())  # keep the output quiet
    test_normal_and_fixpoint()
    test_known_info_not_erased()
    test_value_missing_in_inferred()
    test_options_forwarded()
    test_inference_failure_leaves_model_unchanged()
    test_serialization_failure_leaves_model_unchanged()
    test_empty_graph_and_manager()
    print("C14 demo: all checks passed")


if __name__ == "__main__":
    main()
