"""Demo for C18: region extraction and implicit-capture analysis."""

import numpy as np

import onnx_ir as ir
from onnx_ir import analysis, convenience


def fval(name):
    return ir.val(name, dtype=ir.DataType.FLOAT, shape=[2])


def build():
    x = fval("x")
    y = fval("y")
    cond = ir.val("cond", dtype=ir.DataType.BOOL, shape=[])
    w = ir.val("w", dtype=ir.DataType.FLOAT, shape=[2],
               const_value=ir.tensor(np.array([1, 2], dtype=np.float32), name="w"))
    k = ir.val("k", dtype=ir.DataType.FLOAT, shape=[2],
               const_value=ir.tensor(np.array([3, 4], dtype=np.float32), name="k"))
    a = ir.node("Add", [x, w], outputs=[fval("a")], name="n_add")
    b = ir.node("Mul", [a.outputs[0], y], outputs=[fval("b")], name="n_mul")

    # innermost graph captures `a` (two levels up) and `mid_in` (one level up)
    mid_in = fval("mid_in")
    inner_n = ir.node("Sub", [a.outputs[0], mid_in], outputs=[fval("inner_out")], name="n_inner")
    inner = ir.Graph([], [inner_n.outputs[0]], nodes=[inner_n], name="inner")
    inner2_n = ir.node("Neg", [k], outputs=[fval("inner2_out")], name="n_inner2")
    inner2 = ir.Graph([], [inner2_n.outputs[0]], nodes=[inner2_n], name="inner2")
    multi = ir.node(
        "Multi", [None, mid_in], outputs=[fval("multi_out")], name="n_multi", domain="custom",
        attributes={"bodies": ir.Attr("bodies", ir.AttributeType.GRAPHS, [inner, inner2, inner])},
    )
    mid = ir.Graph([mid_in], [multi.outputs[0]], nodes=[multi], name="mid")
    else_n = ir.node("Identity", [b.outputs[0]], outputs=[fval("else_out")], name="n_else")
    else_g = ir.Graph([], [else_n.outputs[0]], nodes=[else_n], name="else_g")
    if_n = ir.node(
        "If", [cond], outputs=[fval("r")], name="n_if",
        attributes={"then_branch": ir.Attr("then_branch", ir.AttributeType.GRAPH, mid),
                    "else_branch": ir.Attr("else_branch", ir.AttributeType.GRAPH, else_g)},
    )
    unused = ir.node("Relu", [x], outputs=[fval("u")], name="n_unused")
    out = ir.node("Abs", [if_n.outputs[0]], outputs=[fval("out")], name="n_abs")
    g = ir.Graph(
        [x, y, cond], [out.outputs[0], unused.outputs[0]],
        nodes=[a, unused, b, if_n, out], initializers=[w, k], name="main",
        opset_imports={"": 20, "custom": 1},
    )
    return g, dict(x=x, y=y, cond=cond, w=w, k=k, a=a, b=b, if_n=if_n, out=out,
                   mid=mid, inner=inner, inner2=inner2, else_g=else_g, mid_in=mid_in)


def names(vals):
    return sorted(v.name for v in vals)


def all_objects(graph):
    objs = set()
    for v in list(graph.inputs) + list(graph.outputs) + list(graph.initializers.values()):
        objs.add(id(v))
    for n in ir.traversal.RecursiveGraphIterator(graph):
        objs.add(id(n))
        for v in list(n.inputs) + list(n.outputs):
            if v is not None:
                objs.add(id(v))
    return objs


def expect_value_error(fn, fragment):
    try:
        fn()
    except ValueError as e:
        assert fragment in str(e), str(e)
    else:
        raise AssertionError("expected ValueError: " + fragment)


def main():
    g, o = build()

    # --- implicit-capture analysis: exact sets, keyed by every nested graph -------------
    usage = analysis.analyze_implicit_usage(g)
    assert set(usage) == {o["mid"], o["inner"], o["inner2"], o["else_g"]}, usage
    assert g not in usage
    assert names(usage[o["inner"]]) == ["a", "mid_in"]
    assert names(usage[o["inner2"]]) == ["k"]
    assert names(usage[o["mid"]]) == ["a", "k"]          # mid_in is mid's own input
    assert names(usage[o["else_g"]]) == ["b"]
    # analysis started at a nested graph: the start graph is the (entry-less) bottom of the stack
    usage_mid = analysis.analyze_implicit_usage(o["mid"])
    assert set(usage_mid) == {o["inner"], o["inner2"]}
    assert names(usage_mid[o["inner"]]) == ["a", "mid_in"]
    assert names(usage_mid[o["inner2"]]) == ["k"]
    # a graph without nodes / without sub-graphs has no entries
    assert analysis.analyze_implicit_usage(ir.Graph([], [], nodes=[], name="empty")) == {}
    assert analysis.analyze_implicit_usage(o["inner2"]) == {}

    # --- unbounded extraction of `out`, mixing names and objects, with a duplicate input --
    before = [n.name for n in g]
    sub = convenience.extract(g, inputs=["x", o["y"], "cond", "x"], outputs=[o["out"].outputs[0]])
    assert [n.name for n in sub] == ["n_add", "n_mul", "n_if", "n_abs"], [n.name for n in sub]
    assert [v.name for v in sub.inputs] == ["x", "y", "cond", "x"]
    assert [v.name for v in sub.outputs] == ["out"]
    assert sorted(sub.initializers) == ["k", "w"], sorted(sub.initializers)
    assert not (all_objects(sub) & all_objects(g)), "extracted graph shares objects with the source"
    assert [n.name for n in g] == before and sub.name == "main"
    np.testing.assert_array_equal(sub.initializers["k"].const_value.numpy(), [3, 4])
    # nested captures are rebound to the clone
    sub_if = [n for n in sub if n.name == "n_if"][0]
    sub_usage = analysis.analyze_implicit_usage(sub)
    assert names(sub_usage[sub_if.attributes["then_branch"].as_graph()]) == ["a", "k"]
    assert all(v.graph is sub for vs in sub_usage.values() for v in vs if v.name in ("a", "b", "k"))

    # --- bounded region: cut at `a` and `b`; w is no longer needed, k still is -----------
    sub2 = convenience.extract(g, inputs=["a", "b", "cond"], outputs=["r"])
    assert [n.name for n in sub2] == ["n_if"]
    assert sorted(sub2.initializers) == ["k"]
    # only the else branch's capture is cut: `a` is still required through the then branch
    expect_value_error(lambda: convenience.extract(g, inputs=["b", "cond", "y"], outputs=["r"]),
                       "required but not provided: x")
    # missing graph inputs are listed sorted by name
    expect_value_error(lambda: convenience.extract(g, inputs=[], outputs=["out"]),
                       "required but not provided: cond, x, y")

    # --- rejected calls: order of the checks ------------------------------------------
    expect_value_error(lambda: convenience.extract(g, inputs=["nope"], outputs=[]),
                       "Value with name 'nope' not found")
    expect_value_error(lambda: convenience.extract(g, inputs=["x"], outputs=[]),
                       "At least one output must be provided")
    expect_value_error(lambda: convenience.extract(g, inputs=["x"], outputs=["inner_out"]),
                       "Value with name 'inner_out' not found")
    foreign = o["mid_in"]
    expect_value_error(lambda: convenience.extract(g, inputs=[foreign, "nope"], outputs=["out"]),
                       "does not belong to the given Graph (main)")
    expect_value_error(lambda: convenience.extract(g, inputs=["nope", foreign], outputs=["out"]),
                       "Value with name 'nope' not found")
    # a graph view accepts values by object without the ownership check
    view = ir.GraphView([o["x"], o["y"], o["cond"]], [o["out"].outputs[0]],
                        nodes=list(g), initializers=[o["w"], o["k"]], name="view")
    sub3 = convenience.extract(view, inputs=[o["a"].outputs[0], "y"], outputs=[o["b"].outputs[0]])
    assert [n.name for n in sub3] == ["n_mul"] and len(sub3.initializers) == 0
    assert not (all_objects(sub3) & all_objects(g))
    # the source is untouched by all of the above
    assert [n.name for n in g] == before
    assert names(analysis.analyze_implicit_usage(g)[o["mid"]]) == ["a", "k"]
    print("C18 demo OK")


if __name__ == "__main__":
    main()
