"""C06 demo: rejected edits of the node list and of the initializers leave everything as it was."""

import numpy as np

import onnx_ir as ir
from onnx_ir._linked_list import DoublyLinkedSet


def snapshot(*graphs):
    """Everything observable about the graphs, their nodes and their values."""
    snap = []
    for g in graphs:
        values = list(g.inputs) + list(g.outputs) + list(g.initializers.values())
        for n in g:
            values.extend(v for v in n.inputs if v is not None)
            values.extend(n.outputs)
        snap.append(
            (
                g.name,
                [id(v) for v in g.inputs],
                [id(v) for v in g.outputs],
                [(k, id(v)) for k, v in g.initializers.items()],
                [
                    (id(n), n.name, n.op_type, id(n.graph), [id(v) for v in n.inputs],
                     [id(v) for v in n.outputs])
                    for n in g
                ],
                [id(n) for n in reversed(g)],
                len(g),
                [
                    (id(v), v.name, id(v.graph), id(v.producer()), v.index(),
                     v.is_graph_input(), v.is_graph_output(), v.is_initializer(),
                     [(id(u.node), u.idx) for u in v.uses()], id(v.const_value))
                    for v in values
                ],
            )
        )
    return snap


def rejected(exc_type, fn, *graphs, extra=()):
    before = snapshot(*graphs)
    extra_before = [(id(n.graph), n.name, [v.name for v in n.outputs]) for n in extra]
    try:
        fn()
    except exc_type:
        pass
    else:
        raise AssertionError("call was expected to be rejected")
    assert snapshot(*graphs) == before, "a rejected call changed the graph"
    assert [(id(n.graph), n.name, [v.name for v in n.outputs]) for n in extra] == extra_before
    # ... and can be retried with the same outcome
    try:
        fn()
    except exc_type:
        pass
    else:
        raise AssertionError("retry was expected to be rejected")
    assert snapshot(*graphs) == before


def build(name):
    x = ir.Value(name=f"{name}_x")
    a = ir.Node("", "A", [x], name=f"{name}_a")
    b = ir.Node("", "B", [a.outputs[0]], name=f"{name}_b")
    c = ir.Node("", "C", [b.outputs[0], a.outputs[0]], name=f"{name}_c")
    w = ir.Value(name=f"{name}_w", const_value=ir.tensor(np.array([1.0], dtype=np.float32)))
    g = ir.Graph([x], [c.outputs[0]], nodes=[a, b, c], initializers=[w], name=name)
    return g, (a, b, c), x, w


# ---------------------------------------------------------------- the linked set itself
class Item:
    def __init__(self, tag):
        self.tag = tag

    def __repr__(self):
        return f"Item({self.tag})"


items = [Item(i) for i in range(4)]
stranger = Item("stranger")
ls = DoublyLinkedSet(items)
for call in (
    lambda: ls.remove(stranger),
    lambda: ls.insert_after(stranger, [Item("n1"), Item("n2")]),
    lambda: ls.insert_before(stranger, [items[0]]),
    lambda: ls.insert_after(stranger, []),
):
    try:
        call()
    except ValueError as e:
        assert "is not in the list" in str(e) and e.__context__ is None
    else:
        raise AssertionError
    assert list(ls) == items and list(reversed(ls)) == items[::-1] and len(ls) == 4
# empty input, duplicates, and moving an existing element
ls.insert_after(items[1], [])
ls.insert_before(items[0], ())
assert list(ls) == items
ls.insert_after(items[0], [items[3], items[3]])
assert list(ls) == [items[0], items[3], items[1], items[2]] and len(ls) == 4
ls.insert_before(items[0], [items[2]])
assert list(ls) == [items[2], items[0], items[3], items[1]]
ls.remove(items[0])
try:
    ls.remove(items[0])  # second removal is rejected
except ValueError:
    pass
else:
    raise AssertionError
assert list(ls) == [items[2], items[3], items[1]] and len(ls) == 3
empty = DoublyLinkedSet()
try:
    empty.remove(items[0])
except ValueError:
    pass
else:
    raise AssertionError
assert list(empty) == [] and len(empty) == 0

# ---------------------------------------------------------------- node list of a graph
g1, (a1, b1, c1), x1, w1 = build("g1")
g2, (a2, b2, c2), x2, w2 = build("g2")
free = ir.Node("", "Free", [], name="free")
free2 = ir.Node("", "Free2", [], name=None)

# removal of nodes that are not in this graph, at every position of the argument
rejected(ValueError, lambda: g1.remove(a2), g1, g2)
rejected(ValueError, lambda: g1.remove(free), g1, g2, extra=[free])
rejected(ValueError, lambda: g1.remove([c1, b1, free], safe=True), g1, g2, extra=[free])
rejected(ValueError, lambda: g1.remove([c1, a2]), g1, g2)
# unsafe removal
rejected(ValueError, lambda: g1.remove(a1, safe=True), g1, g2)
rejected(ValueError, lambda: g1.remove(c1, safe=True), g1, g2)
# anchors that are not in the graph, new nodes that belong elsewhere
rejected(ValueError, lambda: g1.insert_after(free, [free2]), g1, g2, extra=[free, free2])
rejected(ValueError, lambda: g1.insert_before(a2, [free2]), g1, g2, extra=[free2])
rejected(ValueError, lambda: g1.insert_after(a1, [free2, b2]), g1, g2, extra=[free2])
rejected(ValueError, lambda: g1.insert_before(a1, [free, free2, free, c2]), g1, g2, extra=[free, free2])
rejected(ValueError, lambda: g1.extend([free2, a2]), g1, g2, extra=[free2])
rejected(ValueError, lambda: free.append(free2), g1, g2, extra=[free, free2])
rejected(ValueError, lambda: free.prepend(free2), g1, g2, extra=[free, free2])
rejected(IndexError, lambda: g1.node(3), g1, g2)
rejected(IndexError, lambda: g1[-4], g1, g2)
assert free2.name is None and free2.graph is None and free2.outputs[0].name is None

# accepted edits still work: empty, duplicates, moves
g1.insert_after(a1, [])
g1.insert_before(a1, ())
assert list(g1) == [a1, b1, c1]
g1.insert_after(a1, [free, free])
assert list(g1) == [a1, free, b1, c1] and free.graph is g1
g1.insert_before(a1, c1)
assert list(g1) == [c1, a1, free, b1]
g1.remove(free)
assert free.graph is None and list(g1) == [c1, a1, b1]
rejected(ValueError, lambda: g1.remove(free), g1, g2, extra=[free])
g1.sort()
assert list(g1) == [a1, b1, c1]

# a function delegates to its graph
fg, (fa, fb, fc), fx, fw = build("f")
fn = ir.Function("dom", "fn", graph=fg, attributes=[])
rejected(ValueError, lambda: fn.remove(a1), fg, g1)
rejected(ValueError, lambda: fn.insert_after(a1, [free]), fg, g1, extra=[free])
rejected(ValueError, lambda: fn.insert_before(fa, [free, a1]), fg, g1, extra=[free])
rejected(ValueError, lambda: fn.remove([fb, fa], safe=True), fg, g1)

# a cycle is rejected by sort
y = ir.Value(name="cy_in")
p = ir.Node("", "P", [y], name="p")
q = ir.Node("", "Q", [p.outputs[0]], name="q")
gc = ir.Graph([y], [q.outputs[0]], nodes=[q, p], name="cyc")
p.replace_input_with(0, q.outputs[0])
rejected(ValueError, gc.sort, gc)

# ---------------------------------------------------------------- register_initializer
t = ir.tensor(np.array([2.0], dtype=np.float32))
same_name = ir.Value(name="g1_w", const_value=t)
unnamed = ir.Value(name=None, const_value=t)
empty_name = ir.Value(name="", const_value=t)
no_tensor = ir.Value(name="fresh")
produced = a1.outputs[0]
foreign = w2
rejected(ValueError, lambda: g1.register_initializer(same_name), g1, g2)
assert same_name.graph is None and not same_name.is_initializer()
rejected(ValueError, lambda: g1.register_initializer(unnamed), g1, g2)
assert unnamed.name is None and unnamed.graph is None
rejected(ValueError, lambda: g1.register_initializer(empty_name), g1, g2)
rejected(ValueError, lambda: g1.register_initializer(no_tensor), g1, g2)
assert no_tensor.graph is None and not no_tensor.is_initializer()
rejected(ValueError, lambda: g1.register_initializer(produced), g1, g2)
rejected(ValueError, lambda: g1.register_initializer(foreign), g1, g2)
# both a name collision and no tensor: the collision is reported
collide_no_tensor = ir.Value(name="g1_w")
try:
    g1.register_initializer(collide_no_tensor)
except ValueError as e:
    assert "already registered" in str(e), e
    assert "existing={self._initializers[value.name]!r}" in str(e)  # message kept verbatim
else:
    raise AssertionError
try:
    g1.register_initializer(no_tensor)
except ValueError as e:
    assert "const_value" in str(e), e
# registering the very same object again is accepted and changes nothing
before = snapshot(g1, g2)
g1.register_initializer(w1)
assert snapshot(g1, g2) == before
# and an accepted registration
ok = ir.Value(name="ok", const_value=t)
g1.register_initializer(ok)
assert g1.initializers["ok"] is ok and ok.graph is g1 and ok.is_initializer()
rejected(ValueError, lambda: g1.register_initializer(ir.Value(name="ok", const_value=t)), g1, g2)
rejected(KeyError, lambda: g1.initializers.pop("missing"), g1, g2)
rejected(ValueError, lambda: setattr(ok, "name", "g1_w"), g1, g2)

print("C06 demo OK")
