"""Demo for C12: Graph.sort / Function.sort across scopes, stable, deterministic, atomic.

Exercises the sort bookkeeping (predecessor recording, priority queue entries) and the
node container (move-to-end on extend, lookup of anchors, removal) through the public API.
"""

from __future__ import annotations

import itertools
import random

import onnx_ir as ir


def val(name: str) -> ir.Value:
    return ir.Value(name=name)


def node(op: str, inputs, name: str, attrs=(), num_outputs: int = 1) -> ir.Node:
    return ir.Node("", op, inputs, attrs, num_outputs=num_outputs, name=name)


def names(graph) -> list[str]:
    return [n.name for n in graph]


def _subgraphs(n: ir.Node) -> list[ir.Graph]:
    result = []
    for attr in n.attributes.values():
        if attr.is_ref():
            continue
        if attr.type == ir.AttributeType.GRAPH:
            result.append(attr.value)
        elif attr.type == ir.AttributeType.GRAPHS:
            result.extend(attr.value)
    return result


def _nested_nodes(n: ir.Node) -> list[ir.Node]:
    """All nodes nested inside ``n`` at any depth."""
    result = []
    for sub in _subgraphs(n):
        for inner in sub:
            result.append(inner)
            result.extend(_nested_nodes(inner))
    return result


def check_sorted(graph: ir.Graph) -> None:
    """Every node comes after the same-graph producers of all values it or its nested nodes use."""
    position = {n: i for i, n in enumerate(graph)}
    assert len(position) == len(graph)
    for n in graph:
        assert n.graph is graph
        used = list(n.inputs)
        for inner in _nested_nodes(n):
            used.extend(inner.inputs)
        for v in used:
            if v is None:
                continue
            producer = v.producer()
            if producer is not None and producer.graph is graph and producer is not n:
                assert position[producer] < position[n], (producer.name, n.name)
        for sub in _subgraphs(n):
            check_sorted(sub)


def build_diamond(order):
    """x -> a -> (b, c) -> d ; e is independent; f has an optional and a repeated input."""
    x = val("x")
    a = node("A", [x], "a", num_outputs=2)
    b = node("B", [a.outputs[0]], "b")
    c = node("C", [a.outputs[1], None], "c")
    d = node("D", [b.outputs[0], c.outputs[0], b.outputs[0]], "d")
    e = node("E", [], "e")
    f = node("F", [d.outputs[0], None, d.outputs[0], e.outputs[0]], "f")
    table = {"a": a, "b": b, "c": c, "d": d, "e": e, "f": f}
    graph = ir.Graph([x], [f.outputs[0]], nodes=[table[k] for k in order], name="diamond")
    return graph, table


def test_all_permutations() -> None:
    results = {}
    for order in itertools.permutations("abcdef"):
        graph, table = build_diamond(order)
        graph.sort()
        assert sorted(names(graph)) == sorted(order)
        assert len(graph) == 6
        check_sorted(graph)
        first = names(graph)
        # Deterministic: an identical graph in an identical order sorts identically
        graph2, _ = build_diamond(order)
        graph2.sort()
        assert names(graph2) == first
        # Idempotent / stable: an already sorted graph is left exactly as it was
        graph.sort()
        assert names(graph) == first
        results[order] = first
    # Already sorted permutations are untouched
    for order, result in results.items():
        pos = {k: i for i, k in enumerate(order)}
        ok = (
            pos["a"] < pos["b"] < pos["d"] < pos["f"]
            and pos["a"] < pos["c"] < pos["d"]
            and pos["e"] < pos["f"]
        )
        if ok:
            assert result == list(order), (order, result)
    # Spot values pinned from the stable algorithm
    assert results[tuple("abcdef")] == list("abcdef")
    assert results[tuple("eacbdf")] == list("eacbdf")


def build_nested(shuffle_seed: int | None):
    """Main graph with an If node whose branches capture outer values, nested two deep."""
    x = val("x")
    p = node("P", [x], "p")
    q = node("Q", [p.outputs[0]], "q")
    r = node("R", [], "r")

    # innermost graph captures q (two levels up) and t1 (one level up)
    t1 = node("T1", [p.outputs[0]], "t1")
    i1 = node("I1", [q.outputs[0], t1.outputs[0]], "i1")
    i2 = node("I2", [i1.outputs[0], i1.outputs[0]], "i2")
    inner_nodes = [i2, i1]
    inner = ir.Graph([], [i2.outputs[0]], nodes=inner_nodes, name="inner")
    loop = node("Loop", [t1.outputs[0]], "loop", [ir.AttrGraph("body", inner)])
    t2 = node("T2", [loop.outputs[0], r.outputs[0]], "t2")
    then_nodes = [t2, loop, t1]
    then_graph = ir.Graph([], [t2.outputs[0]], nodes=then_nodes, name="then")

    e1 = node("E1", [r.outputs[0]], "e1")
    else_graph = ir.Graph([], [e1.outputs[0]], nodes=[e1], name="else")
    empty_graph = ir.Graph([], [], nodes=[], name="empty")

    cond = node(
        "If",
        [x],
        "cond",
        [
            ir.AttrGraphs("branches", [then_graph, else_graph]),
            ir.AttrGraph("unused", empty_graph),
            ir.RefAttr("ref", "outer_attr", ir.AttributeType.GRAPH),
        ],
    )
    s = node("S", [cond.outputs[0]], "s")
    main_nodes = [s, cond, r, q, p]
    if shuffle_seed is not None:
        random.Random(shuffle_seed).shuffle(main_nodes)
    main = ir.Graph([x], [s.outputs[0]], nodes=main_nodes, name="main")
    return main, then_graph, else_graph, inner, empty_graph


def test_nested() -> None:
    main, then_graph, else_graph, inner, empty_graph = build_nested(None)
    main.sort()
    assert names(main) == ["p", "q", "r", "cond", "s"], names(main)
    assert names(then_graph) == ["t1", "loop", "t2"], names(then_graph)
    assert names(else_graph) == ["e1"]
    assert names(inner) == ["i1", "i2"]
    assert names(empty_graph) == []
    check_sorted(main)
    # cond comes after the producers of everything captured inside it, at any depth
    pos = {n.name: i for i, n in enumerate(main)}
    assert pos["p"] < pos["cond"] and pos["q"] < pos["cond"] and pos["r"] < pos["cond"]
    for g in (main, then_graph, else_graph, inner):
        for n in g:
            assert n.graph is g
    before = [names(g) for g in (main, then_graph, else_graph, inner)]
    main.sort()
    assert before == [names(g) for g in (main, then_graph, else_graph, inner)]

    for seed in range(30):
        main, then_graph, else_graph, inner, _ = build_nested(seed)
        start = names(main)
        main.sort()
        assert sorted(names(main)) == sorted(start)
        check_sorted(main)
        again, *_rest = build_nested(seed)
        again.sort()
        assert names(again) == names(main)


def test_cycle_is_atomic() -> None:
    # Cycle located in a nested graph; the outer graphs are out of order too.
    x = val("x")
    a = node("A", [x], "a")
    b = node("B", [a.outputs[0]], "b")
    ph = val("placeholder")
    c1 = node("C1", [ph, b.outputs[0]], "c1")
    c2 = node("C2", [c1.outputs[0]], "c2")
    c1.replace_input_with(0, c2.outputs[0])
    k = node("K", [], "k")
    sub = ir.Graph([], [c2.outputs[0]], nodes=[c2, k, c1], name="sub")
    holder = node("H", [], "h", [ir.AttrGraph("g", sub)])
    main = ir.Graph([x], [holder.outputs[0]], nodes=[holder, b, a], name="main")
    before_main, before_sub = names(main), names(sub)
    try:
        main.sort()
    except ValueError as exc:
        assert "cycle" in str(exc)
    else:
        raise AssertionError("cycle not detected")
    assert names(main) == before_main == ["h", "b", "a"]
    assert names(sub) == before_sub == ["c2", "k", "c1"]
    assert len(main) == 3 and len(sub) == 3
    # Sorting the nested graph alone fails as well and changes nothing
    try:
        sub.sort()
    except ValueError:
        pass
    else:
        raise AssertionError("cycle not detected")
    assert names(sub) == before_sub
    # Break the cycle: now everything sorts
    c1.replace_input_with(0, k.outputs[0])
    main.sort()
    assert names(main) == ["a", "b", "h"], names(main)
    assert names(sub) == ["k", "c1", "c2"], names(sub)

    # Self loop
    n = node("N", [val("tmp")], "n")
    n.replace_input_with(0, n.outputs[0])
    m = node("M", [], "m")
    g = ir.Graph([], [], nodes=[n, m])
    try:
        g.sort()
    except ValueError:
        pass
    else:
        raise AssertionError("self loop not detected")
    assert names(g) == ["n", "m"]


def test_function_and_empty() -> None:
    empty = ir.Graph([], [], nodes=[])
    empty.sort()
    assert len(empty) == 0 and list(empty) == []

    graph, _ = build_diamond("fdbcae")
    func = ir.Function("dom", "fn", graph=graph, attributes=[])
    func.sort()
    assert names(func) == names(graph)
    check_sorted(graph)
    single = ir.Graph([], [], nodes=[node("Z", [], "z")])
    single.sort()
    assert names(single) == ["z"]


def test_container_after_sort() -> None:
    """The node container stays consistent after the reordering done by sort."""
    graph, table = build_diamond("fedcba")
    graph.sort()
    order = names(graph)
    assert graph[0].name == order[0] and graph[-1].name == order[-1]
    assert [n.name for n in reversed(graph)] == order[::-1]
    assert [n.name for n in graph[1:3]] == order[1:3]

    # Extending with members (and duplicates) moves them to the end, keeping the set property
    graph.extend([table["a"], table["b"], table["a"]])
    assert names(graph) == [k for k in order if k not in "ab"] + ["b", "a"]
    assert len(graph) == 6
    graph.sort()
    check_sorted(graph)
    assert len(graph) == 6

    # Rejected calls: anchors / nodes that are not members
    stranger = node("W", [], "w")
    for call in (
        lambda: graph.insert_after(stranger, [node("V", [], "v")]),
        lambda: graph.insert_before(stranger, [node("V", [], "v")]),
        lambda: graph.remove(stranger),
    ):
        snapshot = names(graph)
        try:
            call()
        except ValueError:
            pass
        else:
            raise AssertionError("expected ValueError")
        assert names(graph) == snapshot

    other = ir.Graph([], [], nodes=[stranger])
    try:
        graph.extend([node("U", [], "u"), stranger])
    except ValueError:
        pass
    else:
        raise AssertionError("expected ValueError")
    assert len(graph) == 6 and names(other) == ["w"]

    # insert_before / insert_after then sort again
    g1 = node("G1", [table["f"].outputs[0]], "g1")
    graph.insert_before(graph[0], [g1])
    g2 = node("G2", [], "g2")
    graph.insert_after(graph[-1], g2)
    assert names(graph)[0] == "g1" and names(graph)[-1] == "g2"
    graph.sort()
    check_sorted(graph)
    assert names(graph)[-1] == "g2" and len(graph) == 8
    assert names(graph).index("g1") > names(graph).index("f")

    # Removing and sorting
    graph.remove([g1, g2])
    assert g1.graph is None and g2.graph is None and len(graph) == 6
    try:
        graph.remove(g1)
    except ValueError:
        pass
    else:
        raise AssertionError("expected ValueError")
    graph.sort()
    check_sorted(graph)

    # Sort while iterating does not lose nodes
    graph2, _ = build_diamond("fedcba")
    seen = []
    for i, n in enumerate(graph2):
        seen.append(n.name)
        if i == 0:
            graph2.sort()
    assert len(graph2) == 6
    check_sorted(graph2)


def main() -> None:
    test_all_permutations()
    test_nested()
    test_cycle_is_atomic()
    test_function_and_empty()
    test_container_after_sort()
    print("OK")


if __name__ == "__main__":
    main()
