"""Demo for C07: sharded external-data save/load keeps every initializer and a well-formed layout.

Exercises the sharding plan (shard grouping, per-shard jobs and the per-shard callbacks that
report global indices) through the public API ir.save / ir.load / external_data.unload_from_model.
"""

from __future__ import annotations

import collections
import os
import tempfile

import numpy as np

import onnx_ir as ir
from onnx_ir import external_data as ext


def build_model() -> tuple[ir.Model, list[ir.Value]]:
    rng = np.random.default_rng(7)
    specs = [
        ("w0", (100,), np.float32),  # 400
        ("w1", (50,), np.float32),  # 200
        ("empty", (0,), np.float32),  # 0 bytes: stays inline (not > threshold)
        ("big", (5000,), np.uint8),  # 5000: oversized for a 1200-byte shard
        ("w2", (300,), np.int8),  # 300
        ("w3", (64,), np.float64),  # 512
        ("tiny", (2,), np.int16),  # 4
    ]
    values = []
    for name, shape, dtype in specs:
        array = (rng.random(shape) * 100).astype(dtype)
        values.append(ir.Value(name=name, const_value=ir.tensor(array, name=name)))
    # The very same tensor object held by two initializers (duplicate tensor object).
    shared = values[1].const_value
    values.append(ir.Value(name="w1_again", const_value=shared))
    # A lazy tensor.
    lazy_array = np.arange(150, dtype=np.float32)
    values.append(
        ir.Value(
            name="lazy",
            const_value=ir.LazyTensor(
                lambda: ir.tensor(lazy_array, name="lazy"),
                dtype=ir.DataType.FLOAT,
                shape=ir.Shape([150]),
                name="lazy",
            ),
        )
    )

    # Subgraphs with their own initializers.
    subgraphs = []
    sub_values = []
    for branch, count in (("then", 200), ("else", 90)):
        sub_value = ir.Value(
            name=f"{branch}_w",
            const_value=ir.tensor(np.arange(count, dtype=np.float32), name=f"{branch}_w"),
        )
        sub_out = ir.Value(name=f"{branch}_out")
        sub_node = ir.Node("", "Identity", inputs=[sub_value], outputs=[sub_out])
        subgraphs.append(
            ir.Graph(
                inputs=[],
                outputs=[sub_out],
                nodes=[sub_node],
                initializers=[sub_value],
                name=branch,
            )
        )
        sub_values.append(sub_value)
    cond = ir.Value(name="cond", type=ir.TensorType(ir.DataType.BOOL), shape=ir.Shape([]))
    if_out = ir.Value(name="if_out")
    if_node = ir.Node(
        "",
        "If",
        inputs=[cond],
        attributes=[
            ir.AttrGraph("then_branch", subgraphs[0]),
            ir.AttrGraph("else_branch", subgraphs[1]),
        ],
        outputs=[if_out],
    )
    graph = ir.Graph(
        inputs=[cond],
        outputs=[if_out],
        nodes=[if_node],
        initializers=values,
        opset_imports={"": 20},
        name="main",
    )
    model = ir.Model(graph, ir_version=10)
    return model, [*values, *sub_values]


def snapshot(model: ir.Model):
    return [
        (v.name, v.const_value)
        for g in model.graphs()
        for v in g.initializers.values()
    ]


def expected_bytes(model: ir.Model):
    return {
        v.name: (v.const_value.dtype, tuple(v.const_value.shape), v.const_value.tobytes())
        for g in model.graphs()
        for v in g.initializers.values()
    }


def check_roundtrip(path, expected, threshold, limit, alignment, align_threshold):
    loaded = ir.load(path)
    per_file = collections.defaultdict(list)
    seen = {}
    for g in loaded.graphs():
        for v in g.initializers.values():
            t = v.const_value
            assert v.name not in seen, v.name
            seen[v.name] = t
            dtype, shape, data = expected[v.name]
            assert t.dtype == dtype and tuple(t.shape) == shape, v.name
            assert t.tobytes() == data, v.name
            if len(data) > threshold:
                assert isinstance(t, ir.ExternalTensor), v.name
                per_file[t.location].append((t.offset, t.length, v.name))
            else:
                assert not isinstance(t, ir.ExternalTensor), v.name
    assert set(seen) == set(expected)
    base = os.path.dirname(path)
    for location, ranges in per_file.items():
        size = os.path.getsize(os.path.join(base, location))
        end = 0
        for offset, length, name in ranges:  # declaration order
            assert offset >= end, (location, name, "overlap / out of order")
            assert offset + length <= size, (location, name, "outside file")
            if alignment is not None and length > align_threshold:
                assert offset % max(4096, alignment) == 0, (location, name)
            end = offset + length
        if limit is not None and end > limit:
            assert len(ranges) == 1, (location, "only a single oversized tensor may exceed")
    return per_file


def check_callbacks(calls, per_file, n_external):
    # Global indices are contiguous over all shards; shard-local ones per file.
    assert sorted(info.index for _, info in calls) == list(range(n_external))
    assert all(info.total == n_external for _, info in calls)
    by_file = collections.defaultdict(list)
    for tensor, info in calls:
        by_file[info.filename].append((info.index, info.shard_index, info.shard_total, info.offset, tensor.name))
    assert set(by_file) == {os.path.basename(k) for k in per_file}
    first = 0
    for location in sorted(per_file):  # shard names sort in shard order
        entries = sorted(by_file[os.path.basename(location)])
        ranges = per_file[location]
        assert len(entries) == len(ranges)
        for k, (index, shard_index, shard_total, offset, _) in enumerate(entries):
            assert index == first + k and shard_index == k and shard_total == len(ranges)
            assert offset == ranges[k][0]
        first += len(entries)


def main() -> None:
    configs = [
        # threshold, limit, workers, alignment, align_threshold
        (0, 1200, None, None, 1 << 20),
        (0, 1200, 4, None, 1 << 20),
        (250, 700, 1, 4096, 256),
        (250, 700, 8, 65536, 0),
        (0, 10**9, 3, None, 1 << 20),  # everything fits one shard -> plain name
        (0, 1, 2, None, 1 << 20),  # every tensor oversized -> one shard each
        (10**9, 1200, 2, None, 1 << 20),  # nothing external: empty plan
    ]
    refused = 0
    shard_counts = []
    with tempfile.TemporaryDirectory() as tmp:
        for i, (threshold, limit, workers, alignment, align_threshold) in enumerate(configs):
            model, _ = build_model()
            before = snapshot(model)
            expected = expected_bytes(model)
            out_dir = os.path.join(tmp, f"run{i}")
            os.makedirs(os.path.join(out_dir, "weights.d"))
            path = os.path.join(out_dir, "my.model.onnx")
            calls = []
            ir.save(
                model,
                path,
                external_data=os.path.join("weights.d", "my.model.v1.data"),
                size_threshold_bytes=threshold,
                max_shard_size_bytes=limit,
                max_workers=workers,
                alignment=alignment,
                align_threshold=align_threshold,
                callback=lambda t, info: calls.append((t, info)),
            )
            after = snapshot(model)
            assert [(n, id(t)) for n, t in before] == [(n, id(t)) for n, t in after]
            per_file = check_roundtrip(path, expected, threshold, limit, alignment, align_threshold)
            shard_counts.append(len(per_file))
            n_external = sum(1 for _, _, data in expected.values() if len(data) > threshold)
            assert len(calls) == n_external
            if n_external:
                check_callbacks(calls, per_file, n_external)
            else:
                # Empty input: a single empty shard under the plain name.
                data_path = os.path.join(out_dir, "weights.d", "my.model.v1.data")
                assert os.path.getsize(data_path) == 0
            if i == 0:
                files = sorted(os.listdir(os.path.join(out_dir, "weights.d")))
                assert all(f.startswith("my-0000") and f.endswith(".model.v1.data") for f in files), files
                assert len(files) == len(per_file) >= 3

            # Rejected call: saving again onto existing shards must refuse, and
            # the model must still hold the same tensor objects.
            if n_external and len(per_file) > 1:
                listing = sorted(os.listdir(os.path.join(out_dir, "weights.d")))
                sizes = [os.path.getsize(os.path.join(out_dir, "weights.d", f)) for f in listing]
                calls2 = []
                try:
                    ir.save(
                        model,
                        path,
                        external_data=os.path.join("weights.d", "my.model.v1.data"),
                        size_threshold_bytes=threshold,
                        max_shard_size_bytes=limit,
                        max_workers=workers,
                        callback=lambda t, info: calls2.append(info),
                    )
                except FileExistsError:
                    pass
                else:
                    raise AssertionError("expected FileExistsError")
                assert not calls2
                refused += 1
                assert [(n, id(t)) for n, t in snapshot(model)] == [(n, id(t)) for n, t in before]
                assert sorted(os.listdir(os.path.join(out_dir, "weights.d"))) == listing
                assert sizes == [os.path.getsize(os.path.join(out_dir, "weights.d", f)) for f in listing]

        # Rejected options.
        model, _ = build_model()
        before = snapshot(model)
        for kwargs, exc in [
            (dict(external_data="x.data", max_shard_size_bytes=0), ValueError),
            (dict(max_shard_size_bytes=10), ValueError),
            (dict(external_data="x.data", max_shard_size_bytes=10, max_workers=0), ValueError),
        ]:
            try:
                ir.save(model, os.path.join(tmp, "rej.onnx"), **kwargs)
            except exc:
                pass
            else:
                raise AssertionError(kwargs)
            assert [(n, id(t)) for n, t in snapshot(model)] == [(n, id(t)) for n, t in before]
        assert not os.path.exists(os.path.join(tmp, "x.data"))

        # A callback raising half-way through a sharded save: save raises, model unchanged.
        class Boom(Exception):
            pass

        def bad_callback(tensor, info):
            if info.index == 3:
                raise Boom

        for workers in (None, 4):
            out_dir = os.path.join(tmp, f"boom{workers}")
            os.makedirs(out_dir)
            try:
                ir.save(
                    model,
                    os.path.join(out_dir, "m.onnx"),
                    external_data="m.data",
                    max_shard_size_bytes=1200,
                    max_workers=workers,
                    callback=bad_callback,
                )
            except Boom:
                pass
            else:
                raise AssertionError("expected Boom")
            assert [(n, id(t)) for n, t in snapshot(model)] == [(n, id(t)) for n, t in before]
            assert not any(f.startswith(".") for f in os.listdir(out_dir)), os.listdir(out_dir)

        # unload_from_model directly (in place), sharded, with a duplicate object.
        model, _ = build_model()
        expected = expected_bytes(model)
        out_dir = os.path.join(tmp, "direct")
        os.makedirs(out_dir)
        calls = []
        ext.unload_from_model(
            model,
            out_dir,
            "d.data",
            max_shard_size_bytes=900,
            callback=lambda t, info: calls.append((t, info)),
        )
        # Serial writes deliver callbacks in index order.
        assert [info.index for _, info in calls] == list(range(len(calls)))
        for g in model.graphs():
            for v in g.initializers.values():
                dtype, shape, data = expected[v.name]
                if data:
                    assert isinstance(v.const_value, ir.ExternalTensor)
                assert v.const_value.tobytes() == data
    assert refused == 5 and shard_counts == [5, 5, 7, 7, 1, 10, 0], (refused, shard_counts)
    print("C07 demo OK", shard_counts)


if __name__ == "__main__":
    main()
