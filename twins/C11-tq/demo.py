"""Demo for C11: graph iteration stays well defined while the graph is edited.

Exercises, through the public API, the code paths behind indexing
(DoublyLinkedSet.__getitem__), multi-node insertion (_insert_many_after) and
removal (_LinkBox.erase) while iterators are live.
"""
import random

import onnx_ir as ir


def mk(name):
    return ir.Node("", "Op", inputs=[], num_outputs=1, name=name)


def names(seq):
    return [n.name for n in seq]


def check_indexing(g, model):
    """Indexing, length and membership describe the current sequence."""
    n = len(model)
    assert len(g) == n and g.num_nodes() == n, (len(g), names(g), names(model))
    assert list(g) == model and list(reversed(g)) == model[::-1]
    for i in range(-n, n):
        assert g[i] is model[i], (i, names(g), names(model))
        assert g.node(i) is model[i]
    for bad in (n, n + 3, -n - 1):
        try:
            g[bad]
        except IndexError:
            pass
        else:
            raise AssertionError(f"g[{bad}] accepted")
    assert list(g[1:]) == model[1:] and list(g[::-2]) == model[::-2]
    assert list(g[-2:]) == model[-2:]
    for node in model:
        assert node in g


# ---- 1. empty graph (unusual input): everything is out of range
g = ir.Graph([], [], nodes=[], name="g")
check_indexing(g, [])
assert list(g) == [] and list(reversed(g)) == [] and g[:] == ()
g.extend([])  # empty extend is a no-op
assert len(g) == 0

# ---- 2. remove / move the current node during forward and backward iteration
a, b, c, d, e = (mk(x) for x in "abcde")
g = ir.Graph([], [], nodes=[a, b, c, d, e], name="g")
seen = []
x, y = mk("x"), mk("y")
for node in g:
    seen.append(node.name)
    if node is b and seen.count("b") == 1:
        g.remove(b)  # current removed -> resumes with c, its follower at the original place
        g.insert_before(c, [x])  # not reachable from the removed position: skipped
        check_indexing(g, [a, x, c, d, e])
    if node is c:
        g.insert_before(a, c)  # move current to the front: resumes at d
        g.insert_after(d, [y, b])  # after position: visited, b re-enters
        check_indexing(g, [c, a, x, d, y, b, e])
assert seen == ["a", "b", "c", "d", "y", "b", "e"], seen
check_indexing(g, [c, a, x, d, y, b, e])

seen = []
for node in reversed(g):
    seen.append(node.name)
    if node is y:
        g.remove([y, d])  # current and the one before it
        check_indexing(g, [c, a, x, b, e])
    if node is x:
        g.append(x)  # move current to the end; backward resumes at a
        check_indexing(g, [c, a, b, e, x])
assert seen == ["e", "b", "y", "x", "a", "c"], seen

# ---- 3. duplicates in a single insertion and insertion of the anchor itself
p, q = mk("p"), mk("q")
g.insert_after(a, [p, q, p])  # duplicate: p ends after q
check_indexing(g, [c, a, q, p, b, e, x])
g.insert_after(a, [a])  # anchor itself: no-op
g.insert_before(a, a)
check_indexing(g, [c, a, q, p, b, e, x])
g.insert_after(a, [b, a, e])  # a is both anchor and payload
check_indexing(g, [c, b, a, e, q, p, x])
g.insert_before(c, [x, q])
check_indexing(g, [x, q, c, b, a, e, p])
g.extend([q, q, x])
check_indexing(g, [c, b, a, e, p, q, x])

# ---- 4. rejected calls leave everything as it was, also with live iterators
other = ir.Graph([], [], nodes=[mk("o1"), mk("o2")], name="other")
foreign = other[0]
stray = mk("stray")
it_f, it_b = iter(g), reversed(g)
assert next(it_f) is c and next(it_b) is x
before = list(g)
for call in (
    lambda: g.insert_after(a, [stray, foreign]),
    lambda: g.insert_before(a, [stray, foreign]),
    lambda: g.extend([stray, foreign]),
    lambda: g.append(foreign),
    lambda: g.insert_after(foreign, [stray]),
    lambda: g.insert_before(stray, [mk("z")]),
    lambda: g.remove(foreign),
    lambda: g.remove([a, stray]),
):
    try:
        call()
    except ValueError:
        pass
    else:
        raise AssertionError("call accepted")
    check_indexing(g, before)
    assert stray.graph is None and foreign.graph is other
check_indexing(other, [foreign, other[1]])
assert names(it_f) == ["b", "a", "e", "p", "q", "x"]
assert names(it_b) == ["q", "p", "e", "a", "b", "c"]

# ---- 5. nesting: recursive iteration through a subgraph edited while iterating
s1, s2, s3 = mk("s1"), mk("s2"), mk("s3")
sub = ir.Graph([], [], nodes=[s1, s2, s3], name="sub")
holder = ir.Node("", "If", inputs=[], attributes=[ir.AttrGraph("then_branch", sub)], name="if")
h0, h1 = mk("h0"), mk("h1")
outer = ir.Graph([], [], nodes=[h0, holder, h1], name="outer")
seen = []
s4 = mk("s4")
for node in outer.all_nodes():
    seen.append(node.name)
    if node is s1:
        sub.remove(s2)
        sub.insert_after(s3, [s4, s2])
        check_indexing(sub, [s1, s3, s4, s2])
    if node is s3:
        sub.remove(s3)
        outer.insert_before(h0, s3)  # moved into the outer graph before position
        check_indexing(outer, [s3, h0, holder, h1])
assert seen == ["h0", "if", "s1", "s3", "s4", "s2", "h1"], seen
check_indexing(sub, [s1, s4, s2])

# ---- 6. Function delegates to the same mechanism
fa, fb, fc = mk("fa"), mk("fb"), mk("fc")
fn = ir.Function("dom", "fn", graph=ir.Graph([], [], nodes=[fa, fb, fc], name="fg"), attributes=[])
seen = []
for node in fn:
    seen.append(node.name)
    if node is fa:
        fn.remove(fb)
        fn.insert_after(fc, [fb])
assert seen == ["fa", "fc", "fb"], seen
assert fn[0] is fa and fn[-1] is fb and fn[1] is fc and len(fn) == 3
try:
    fn[3]
except IndexError:
    pass
else:
    raise AssertionError

# ---- 7. randomized schedules against a reference model
def run(seed):
    rng = random.Random(seed)
    pool = [mk(f"n{i}") for i in range(12)]
    start = pool[: rng.randint(0, 8)]
    g = ir.Graph([], [], nodes=start, name="r")
    model = list(start)
    touched = set()
    iters = []  # (iterator, direction, yielded list)
    for _ in range(rng.randint(1, 4)):
        fwd = rng.random() < 0.5
        iters.append((iter(g) if fwd else reversed(g), fwd, []))
    for _ in range(60):
        op = rng.choice(["step", "step", "append", "extend", "ia", "ib", "remove", "index"])
        if op == "step":
            it, fwd, out = rng.choice(iters)
            try:
                node = next(it)
            except StopIteration:
                continue
            assert node in model and node.graph is g, "yielded a node not in the graph"
            out.append(node)
        elif op == "index":
            check_indexing(g, model)
        elif op == "remove":
            if not model:
                continue
            k = rng.sample(model, rng.randint(1, min(3, len(model))))
            g.remove(k if len(k) > 1 or rng.random() < 0.5 else k[0])
            for n in k:
                model.remove(n)
                touched.add(n)
        else:
            payload = [rng.choice(pool) for _ in range(rng.randint(0, 3))]
            touched.update(payload)
            if op == "append":
                if not payload:
                    continue
                payload = payload[:1]
                g.append(payload[0])
                anchor, after = None, True
            elif op == "extend":
                g.extend(payload)
                anchor, after = None, True
            else:
                if not model:
                    continue
                anchor = rng.choice(model)
                after = op == "ia"
                (g.insert_after if after else g.insert_before)(anchor, payload)
            # reference semantics: values are placed one by one, each after the previous one
            if anchor is None:
                for v in payload:
                    if model and model[-1] is v:
                        continue
                    if v in model:
                        model.remove(v)
                    model.append(v)
            else:
                if after:
                    cur = anchor
                else:
                    i = model.index(anchor)
                    cur = model[i - 1] if i > 0 else None  # None = head sentinel
                for v in payload:
                    if cur is v:
                        continue
                    if v in model:
                        model.remove(v)
                    i = model.index(cur) + 1 if cur is not None else 0
                    model.insert(i, v)
                    cur = v
        assert list(g) == model, (seed, op, names(g), names(model))
    # edits stopped: every iterator terminates
    for it, fwd, out in iters:
        for node in it:
            assert node in model
            out.append(node)
        untouched = [n for n in start if n not in touched]
        if not fwd:
            untouched.reverse()
        got = [n for n in out if n not in touched]
        assert got == untouched, (seed, names(got), names(untouched))
    check_indexing(g, model)


for seed in range(400):
    run(seed)

print("OK")
