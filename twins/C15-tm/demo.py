"""Demo for property C15 (name fixing yields unique names only) around NameFixPass."""

from __future__ import annotations

import numpy as np

import onnx_ir as ir
from onnx_ir.passes.common.naming import NameFixPass


def val(name=None):
    return ir.Value(name=name, type=ir.TensorType(ir.DataType.FLOAT), shape=ir.Shape([2]))


def init(name):
    return ir.Value(name=name, const_value=ir.tensor(np.ones(2, dtype=np.float32), name=name))


def all_graphs(root):
    """Yield (graph, enclosing_graphs) for root and all nested subgraphs."""
    stack = [(root, ())]
    while stack:
        g, parents = stack.pop()
        yield g, parents
        for node in g:
            for attr in node.attributes.values():
                if attr.type == ir.AttributeType.GRAPH:
                    stack.append((attr.value, (*parents, g)))
                elif attr.type == ir.AttributeType.GRAPHS:
                    stack.extend((sub, (*parents, g)) for sub in attr.value)


def own_values(g):
    seen = []
    def add(v):
        if v is not None and not any(v is s for s in seen):
            seen.append(v)
    for v in g.inputs:
        add(v)
    if isinstance(g, ir.Graph):
        for v in g.initializers.values():
            add(v)
    for node in g:
        for v in node.outputs:
            add(v)
    return seen


def structure(root):
    """Everything except names: ops, wiring by identity index, initializer identities."""
    out = []
    for g, _ in all_graphs(root):
        ids = {id(v): i for i, v in enumerate(own_values(g))}
        out.append(
            (
                [n.op_type for n in g],
                [[ids.get(id(v), "outer") if v is not None else None for v in n.inputs] for n in g],
                [ids.get(id(v), "outer") for v in g.inputs],
                [ids.get(id(v), "outer") for v in g.outputs],
                sorted(ids.get(id(v)) for v in g.initializers.values())
                if isinstance(g, ir.Graph)
                else None,
            )
        )
    return out


def check_fixed(root):
    for g, parents in all_graphs(root):
        values = own_values(g)
        names = [v.name for v in values]
        assert all(names), names
        assert len(set(names)) == len(names), names
        node_names = [n.name for n in g]
        assert all(node_names), node_names
        assert len(set(node_names)) == len(node_names), node_names
        for p in parents:
            outer = {v.name for v in own_values(p)}
            # a value of this graph that is not itself an outer value must differ from outer names
            outer_ids = {id(v) for v in own_values(p)}
            for v in values:
                if id(v) not in outer_ids:
                    assert v.name not in outer, (v.name, outer)
        if isinstance(g, ir.Graph):
            for key, v in g.initializers.items():
                assert key == v.name, (key, v.name)


def build_model():
    # inner graph: duplicates an outer name ("x"), has an unnamed value, duplicate node names
    ix = val("x")  # collides with outer input
    iw = init("w")  # collides with outer initializer
    inner_n1 = ir.Node("", "Add", [ix, iw], outputs=[val(None)], name="n")
    inner_n2 = ir.Node("", "Relu", [inner_n1.outputs[0]], outputs=[val("x")], name="n")
    inner = ir.Graph(
        [ix], [inner_n2.outputs[0]], nodes=[inner_n1, inner_n2], initializers=[iw], name="inner"
    )

    x = val("x")
    dup_in = val("x")  # second input with the same name
    w = init("w")  # initializer that is also a graph input
    b = init("val_0")  # initializer shaped like a generated name
    keep = val("keep_me")
    n1 = ir.Node("", "Add", [x, w], outputs=[keep], name="n")
    n2 = ir.Node("", "Add", [keep, b], outputs=[val(None)], name=None)
    n3 = ir.Node(
        "", "If", [dup_in, None], outputs=[val("x")],
        attributes=[ir.AttrGraph("then_branch", inner)], name="n",
    )
    n4 = ir.Node("", "Mul", [n2.outputs[0], n3.outputs[0]], outputs=[val("")], name="")
    graph = ir.Graph(
        [x, dup_in, w], [n4.outputs[0], keep], nodes=[n1, n2, n3, n4],
        initializers=[w, b], name="main", opset_imports={"": 20},
    )

    fa, fb = val("a"), val("a")
    f1 = ir.Node("", "Add", [fa, fb], outputs=[val("a")], name=None)
    f2 = ir.Node("", "Neg", [f1.outputs[0]], outputs=[val(None)], name=None)
    func = ir.Function(
        "dom", "F", graph=ir.Graph([fa, fb], [f2.outputs[0]], nodes=[f1, f2], opset_imports={"": 20}),
        attributes=[],
    )
    model = ir.Model(graph, ir_version=10, functions=[func])
    return model, keep, b, x


def main():
    # 1. model with duplicates / missing names / nesting / function
    model, keep, b, x = build_model()
    before = [structure(model.graph)] + [structure(f) for f in model.functions.values()]
    result = NameFixPass()(model)
    assert result.modified is True
    after = [structure(model.graph)] + [structure(f) for f in model.functions.values()]
    assert before == after, "something other than names changed"
    check_fixed(model.graph)
    for f in model.functions.values():
        check_fixed(f)
    # names that were already unique are kept
    assert keep.name == "keep_me" and b.name == "val_0" and x.name == "x"
    assert model.graph.initializers["val_0"] is b
    print("main values:", [v.name for v in own_values(model.graph)])
    print("main nodes :", [n.name for n in model.graph])
    inner = model.graph[2].attributes["then_branch"].value
    print("inner values:", [v.name for v in own_values(inner)], list(inner.initializers))
    print("inner nodes :", [n.name for n in inner])
    for f in model.functions.values():
        print("func values:", [v.name for v in own_values(f)], [n.name for n in f])

    # 2. idempotence: a second run changes nothing
    snapshot = [v.name for v in own_values(model.graph)] + [n.name for n in model.graph]
    again = NameFixPass()(model)
    assert again.modified is False
    assert snapshot == [v.name for v in own_values(model.graph)] + [n.name for n in model.graph]

    # 3. empty graph: nothing to do
    empty = ir.Model(ir.Graph([], [], nodes=[], opset_imports={"": 20}), ir_version=10)
    assert NameFixPass()(empty).modified is False

    # 4. initializer renamed while the boundary is processed: two initializers stored under
    # distinct keys whose Values later share a name with an input
    i_in = val("p")
    i1 = init("p")
    i2 = init("q")
    node = ir.Node("", "Add", [i_in, i1], outputs=[val("q")], name="k")
    g = ir.Graph([i_in], [node.outputs[0]], nodes=[node], initializers=[i1, i2],
                 opset_imports={"": 20})
    assert NameFixPass()(ir.Model(g, ir_version=10)).modified is True
    check_fixed(g)
    assert i_in.name == "p" and node.outputs[0].name == "q", "inputs/outputs take precedence"
    assert i1.name == "p_1" and i2.name == "q_1", (i1.name, i2.name)
    assert list(g.initializers) == ["p_1", "q_1"], list(g.initializers)

    # 5. unusual: a name generator that rejects a value -> the error propagates unchanged,
    # and what was processed before the failure (inputs first) is already fixed
    class Picky:
        def generate_node_name(self, node):
            return node.name or "node"

        def generate_value_name(self, value):
            if value.const_value is not None:
                raise RuntimeError("no initializers please")
            return value.name or "v"

    a1, a2 = val(None), val("o")
    c = init("o")  # duplicate of the output name -> generator is asked -> raises
    nd = ir.Node("", "Add", [a1, c], outputs=[a2], name=None)
    g2 = ir.Graph([a1], [a2], nodes=[nd], initializers=[c], opset_imports={"": 20})
    try:
        NameFixPass(name_generator=Picky())(ir.Model(g2, ir_version=10))
    except Exception as e:  # PassError wrapping or the RuntimeError itself
        chain = []
        while e is not None:
            chain.append(type(e).__name__)
            e = e.__cause__ or e.__context__
        print("rejected:", chain)
        assert "RuntimeError" in chain
    else:
        raise AssertionError("expected failure")
    print("after rejection:", a1.name, a2.name, c.name, nd.name)
    assert a1.name == "val_0" and a2.name == "o" and c.name == "o"
    assert list(g2.initializers) == ["o"]

    print("OK")


if __name__ == "__main__":
    main()
