"""Demo for C11: graph iteration stays well defined while the graph is edited.

Exercises Graph/Function.extend, insert_after, insert_before (and remove / sort)
while forward, backward and recursive iterators are live.
"""
import onnx_ir as ir


def mk(name, inputs=(), **kw):
    return ir.Node("", "Op", inputs=list(inputs), name=name, num_outputs=1, **kw)


def names(it):
    return [n.name for n in it]


def fresh(n=5, prefix="n"):
    nodes = [mk(f"{prefix}{i}") for i in range(n)]
    g = ir.Graph([], [], nodes=nodes, name="g_" + prefix)
    return g, nodes


def check_consistent(g, expected):
    assert names(g) == expected, (names(g), expected)
    assert len(g) == len(expected) == g.num_nodes()
    assert names(reversed(g)) == expected[::-1]
    for i, e in enumerate(expected):
        assert g[i].name == e and g[i - len(expected)].name == e
        assert g[i] in g
    assert names(g[:]) == expected
    for n in g:
        assert n.graph is g


# 1. insert after / before the current node during forward iteration (single Node argument)
g, ns = fresh()
seen = []
for n in g:
    seen.append(n.name)
    if n.name == "n1":
        g.insert_after(n, mk("after1"))          # single node, later -> yielded
        g.insert_before(n, mk("before1"))        # earlier -> skipped
    if n.name == "n3":
        g.insert_before(ns[4], (mk(f"gen{i}") for i in range(2)))  # generator, later
assert seen == ["n0", "n1", "after1", "n2", "n3", "gen0", "gen1", "n4"], seen
check_consistent(g, ["n0", "before1", "n1", "after1", "n2", "n3", "gen0", "gen1", "n4"])

# 2. backward iteration mirrors the rules
g, ns = fresh()
seen = []
for n in reversed(g):
    seen.append(n.name)
    if n.name == "n3":
        g.insert_before(n, [mk("b3a"), mk("b3b")])  # "after" in backward direction -> yielded
        g.insert_after(n, [mk("a3")])               # already passed -> skipped
assert seen == ["n4", "n3", "b3b", "b3a", "n2", "n1", "n0"], seen
check_consistent(g, ["n0", "n1", "n2", "b3a", "b3b", "n3", "a3", "n4"])

# 3. moving the current node (insert of a node that is already in the graph):
#    iteration resumes at the original place; several iterators independent
g, ns = fresh()
it1, it2 = iter(g), iter(g)
assert next(it1).name == "n0" and next(it1).name == "n1"
assert next(it2).name == "n0"
g.insert_after(ns[4], ns[1])       # move current node of it1 to the end
assert names(g) == ["n0", "n2", "n3", "n4", "n1"]
assert names(it1) == ["n2", "n3", "n4", "n1"]   # resumes after original place, meets n1 again later
assert names(it2) == ["n2", "n3", "n4", "n1"]
g.insert_before(ns[0], [ns[1]])    # move back to the front
check_consistent(g, ["n1", "n0", "n2", "n3", "n4"])
g.extend([ns[0]])                  # extend with a present node == move to end
check_consistent(g, ["n1", "n2", "n3", "n4", "n0"])

# 4. duplicates in one batch, empty batches, self-anchored insert
g, ns = fresh(3)
d = mk("dup")
g.insert_after(ns[0], [d, d])
check_consistent(g, ["n0", "dup", "n1", "n2"])
e = mk("e")
g.extend([e, e])
check_consistent(g, ["n0", "dup", "n1", "n2", "e"])
g.extend([]); g.extend(iter(())); g.insert_after(ns[1], []); g.insert_before(ns[1], ())
check_consistent(g, ["n0", "dup", "n1", "n2", "e"])
g.insert_after(ns[1], ns[1]); g.insert_before(ns[1], [ns[1]])
check_consistent(g, ["n0", "dup", "n1", "n2", "e"])
f = mk("f")
g.insert_before(ns[1], [f, ns[0], f])   # mixes new node, moved node and a duplicate
check_consistent(g, ["dup", "n0", "f", "n1", "n2", "e"])

# 5. rejected calls leave everything untouched, also during a live iteration
g, ns = fresh(4)
other, ons = fresh(2, prefix="o")
it = iter(g)
assert next(it).name == "n0"
good = ir.Node("", "Op", inputs=[], num_outputs=1)   # unnamed
assert good.name is None
for call in (
    lambda: g.extend([good, ons[0]]),
    lambda: g.insert_after(ns[0], [good, ons[1]]),
    lambda: g.insert_before(ns[0], (good, ons[1])),
    lambda: g.insert_after(ons[0], [good]),        # anchor in another graph
    lambda: g.insert_before(mk("loose"), good),    # anchor in no graph
    lambda: g.insert_after(ons[0], ons[1]),        # anchor reported before new nodes
    lambda: g.append(ons[0]),
):
    try:
        call()
    except ValueError:
        pass
    else:
        raise AssertionError("expected ValueError")
    assert good.graph is None and good.name is None and good.outputs[0].name is None
    check_consistent(g, ["n0", "n1", "n2", "n3"])
    check_consistent(other, ["o0", "o1"])
try:
    g.insert_after(ns[0], 5)       # not a node, not iterable
except TypeError:
    pass
else:
    raise AssertionError("expected TypeError")


def boom():
    yield good
    raise KeyError("boom")


for call in (lambda: g.extend(boom()), lambda: g.insert_after(ons[0], boom())):
    try:
        call()
    except KeyError:      # the iterable is consumed before any validation / adoption
        pass
    else:
        raise AssertionError("expected KeyError")
    assert good.graph is None and good.name is None
assert names(it) == ["n1", "n2", "n3"]
g.insert_after(ns[3], good)        # accepted now: gets adopted and named
assert good.graph is g and good.name and good.outputs[0].name
assert len(g) == 5 and g[-1] is good

# 6. removal of current node + insertion, then exhaustion terminates
g, ns = fresh(6)
seen = []
for n in g:
    seen.append(n.name)
    if n.name == "n2":
        g.remove(n)
        g.insert_before(ns[3], mk("x"))   # the removed node's successor stays n3 -> x skipped
        g.remove(ns[4])
assert seen == ["n0", "n1", "n2", "n3", "n5"], seen
check_consistent(g, ["n0", "n1", "x", "n3", "n5"])
assert ns[2].graph is None and ns[2] not in g

# 7. nesting: recursive iteration through a subgraph that is edited meanwhile; Function API
sub, sns = fresh(3, prefix="s")
g, ns = fresh(2)
holder = mk("holder", attributes=[ir.AttrGraph("body", sub)])
g.insert_after(ns[0], holder)
seen = []
for n in g.all_nodes():
    seen.append(n.name)
    if n.name == "s0":
        sub.insert_after(sns[0], [mk("s0+")])
        sub.insert_before(sns[0], [mk("s0-")])
        g.extend([mk("tail")])
assert seen == ["n0", "holder", "s0", "s0+", "s1", "s2", "n1", "tail"], seen
check_consistent(sub, ["s0-", "s0", "s0+", "s1", "s2"])
try:
    g.insert_after(ns[0], [sns[1]])    # node of the nested graph cannot be adopted by the outer one
except ValueError:
    pass
else:
    raise AssertionError("expected ValueError")
check_consistent(sub, ["s0-", "s0", "s0+", "s1", "s2"])

fg, fns = fresh(3, prefix="f")
fn = ir.Function("d", "F", "", graph=fg, attributes=[])
seen = []
for n in fn:
    seen.append(n.name)
    if n.name == "f1":
        fn.insert_after(n, mk("fa"))
        fn.insert_before(n, [mk("fb")])
        fn.extend([mk("fe")])
assert seen == ["f0", "f1", "fa", "f2", "fe"], seen
check_consistent(fg, ["f0", "fb", "f1", "fa", "f2", "fe"])
assert names(reversed(fn)) == ["fe", "f2", "fa", "f1", "fb", "f0"] and len(fn) == 6

# 8. sort (which re-extends every graph) while an iterator is parked
a = mk("a")
b = mk("b", inputs=[a.outputs[0]])
c = mk("c", inputs=[b.outputs[0]])
g = ir.Graph([], [], nodes=[c, a, b], name="t")
it = iter(g)
assert next(it) is c
g.sort()
check_consistent(g, ["a", "b", "c"])
assert names(it) == ["a", "b", "c"]     # resumes after c's original place

print("C11 demo OK")
