"""Demo for property C20: journaling observes without interfering and restores the classes.

Exercises the __init__ wrappers and property-setter wrappers of onnx_ir.journaling through
the public API: same state / return values / exceptions inside and outside a journal, one
entry per instrumented operation in program order, nesting up to depth 3 (including
re-entering the same journal), exceptions leaving the block, restoration of every class
attribute, and no strong references from entries.
"""

import gc
import re
import weakref

import numpy as np

import onnx_ir as ir
from onnx_ir import _core, _graph_containers
from onnx_ir.journaling import Journal, get_current_journal

WATCHED = {
    _core.TensorBase: ["__init__"],
    _core.Node: [
        "__init__", "name", "domain", "version", "op_type", "overload", "resize_inputs",
        "prepend", "append", "resize_outputs", "graph",
    ],
    _core.Value: [
        "__init__", "name", "type", "shape", "const_value", "replace_all_uses_with",
        "merge_shapes",
    ],
    _core.Graph: [
        "__init__", "register_initializer", "append", "extend", "remove", "insert_after",
        "insert_before", "sort",
    ],
    _core.Model: ["__init__"],
    _core.Function: ["__init__", "name", "domain", "overload"],
    _core.Attr: ["__init__"],
    _graph_containers._GraphIO: [
        "append", "extend", "insert", "pop", "remove", "clear", "__setitem__",
    ],
    _graph_containers.GraphInitializers: ["__setitem__", "__delitem__"],
    _graph_containers.Attributes: ["__setitem__"],
}


def snapshot_classes():
    snap = {}
    for cls, names in WATCHED.items():
        for name in names:
            attr = cls.__dict__[name]
            if isinstance(attr, property):
                snap[cls.__name__, name] = (attr.fget, attr.fset, attr.fdel, attr.__doc__)
            else:
                snap[cls.__name__, name] = attr
    return snap


def scenario():
    """A sequence of IR operations; returns (observations, live objects)."""
    obs = []

    def attempt(label, fn):
        try:
            obs.append((label, "ok", repr(fn())))
        except Exception as e:  # noqa: BLE001
            obs.append((label, type(e).__name__, str(e)))

    x = ir.Value(name="x", type=ir.TensorType(ir.DataType.FLOAT), shape=ir.Shape([1, "N"]))
    y = ir.Value(name="y")
    tensor = ir.tensor(np.array([1.0, 2.0], dtype=np.float32), name="w")
    w = ir.Value(name="w", const_value=tensor)
    attr = ir.Attr("alpha", ir.AttributeType.FLOAT, 0.5)
    n1 = ir.Node("", "Add", [x, w], attributes=[attr], name="n1")
    n2 = ir.Node("custom", "Mul", [n1.outputs[0], y], name="n2", version=3)
    graph = ir.Graph([x, y], [n2.outputs[0]], nodes=[n1, n2], initializers=[w], name="g")
    empty_graph = ir.Graph([], [], nodes=[], name=None)  # empty input, name None
    model = ir.Model(graph, ir_version=10)

    # Setters (Node)
    n1.name = "n1_renamed"
    n1.name = "n1_renamed"  # duplicate: same value twice
    n1.name = None
    n1.domain = "ai.onnx"
    n1.version = 18
    n1.op_type = "Sub"
    n1.overload = "ov"
    # Setters (Value)
    y.name = "y2"
    y.type = ir.TensorType(ir.DataType.INT64)
    y.shape = ir.Shape([2, 3])
    y.shape = None
    y.const_value = tensor
    y.const_value = None
    # Rejected calls
    attempt("value.name=None on initializer", lambda: setattr(w, "name", None))
    attempt("Node() with bad num_outputs", lambda: ir.Node("", "Op", [], num_outputs=2, outputs=[ir.Value(name="o")]))
    attempt("Value with bad shape type", lambda: setattr(y, "shape", [1, 2]))
    attempt("Attr init", lambda: ir.Attr("k", ir.AttributeType.INT, 3).value)
    attempt("graph.sort", graph.sort)
    # Function
    f_in = ir.Value(name="fi")
    f_node = ir.Node("", "Relu", [f_in], name="fn")
    func_graph = ir.Graph([f_in], [f_node.outputs[0]], nodes=[f_node], name="fg")
    func = ir.Function("dom", "fname", "", graph=func_graph, attributes=[])
    func.name = "fname2"
    func.domain = "dom2"
    func.overload = "o2"

    obs.append(("final", str(model), repr(func), repr(empty_graph.name), repr(n1), repr(y)))
    keep = [model, func, empty_graph, x, y, w, tensor, attr]
    return obs, keep


def normalize(entries):
    # Scrub id()-derived numbers and addresses (anonymous names, iterator reprs) so that runs are comparable
    return [
        (e.operation, e.class_name, None if e.details is None else re.sub(r"\d{9,}|0x[0-9a-f]+", "ID", e.details))
        for e in entries
    ]


def main():
    baseline_classes = snapshot_classes()

    # 1. Reference run outside any journal
    ref_obs, _ = scenario()
    assert get_current_journal() is None

    # 2. Same run inside a journal: same observations, entries in program order
    with Journal() as j1:
        assert get_current_journal() is j1
        in_obs, keep = scenario()
    assert in_obs == ref_obs, "journal interfered with results"
    assert get_current_journal() is None
    assert snapshot_classes() == baseline_classes, "classes not restored"

    ops = normalize(j1.entries)
    tensor_repr = "Tensor<FLOAT,[2]>(array([1., 2.], dtype=float32), name='w')"
    # Details of the changed area: TensorBase init has no details, Graph init has str(name)
    tensor_inits = [d for op, cls, d in ops if op == "init" and cls == "Tensor"]
    assert tensor_inits and all(d is None for d in tensor_inits), tensor_inits
    graph_inits = [d for op, cls, d in ops if op == "init" and cls == "Graph"]
    assert graph_inits == ["g", "None", "fg"], graph_inits
    node_name_sets = [d for op, cls, d in ops if op == "set_name" and cls == "Node"]
    assert node_name_sets == [
        "'n1' -> 'n1_renamed'",
        "'n1_renamed' -> 'n1_renamed'",
        "'n1_renamed' -> None",
        # graph.sort() re-registers the nodes; the name authority names the unnamed node
        # through the (instrumented) property setter
        "None -> 'node_Sub_0'",
    ], node_name_sets
    value_sets = [(op, d) for op, cls, d in ops if cls == "Value" and op.startswith("set_")]
    # (graph construction first names the anonymous node outputs through the setter)
    start = value_sets.index(("set_name", "'y' -> 'y2'"))
    assert value_sets[:start] == [
        ("set_name", "None -> 'val_0'"), ("set_name", "None -> 'val_1'"),
    ], value_sets
    assert value_sets[start + 1 : start + 9] == [
        ("set_type", "None -> Tensor(INT64)"),
        ("set_shape", "None -> Shape([2, 3])"),
        ("set_shape", "Shape([2, 3]) -> None"),
        ("set_const_value", f"None -> {tensor_repr}"),
        ("set_const_value", f"{tensor_repr} -> None"),
        # rejected calls are recorded before the original setter rejects them
        ("set_name", "'w' -> None"),
        ("set_shape", "None -> [1, 2]"),
        ("set_name", "None -> 'val_0'"),  # function graph construction
    ], value_sets
    func_sets = [(op, d) for op, cls, d in ops if cls == "Function" and op.startswith("set_")]
    assert func_sets == [
        ("set_name", "'fname' -> 'fname2'"),
        ("set_domain", "'dom' -> 'dom2'"),
        ("set_overload", "'' -> 'o2'"),
    ], func_sets
    # Entries' stack traces end in user code (this file), not in journaling internals
    for e in j1.entries:
        assert e.stack_trace, e
        assert "journaling" not in e.stack_trace[-1].filename.replace("\\", "/")

    # 3. Determinism: another journal gives the same normalized log
    with Journal() as j2:
        scenario()
    assert normalize(j2.entries) == ops

    # 4. Nesting depth 3, including re-entering the same journal; every level records
    outer, mid = Journal(), Journal()
    with outer:
        with mid:
            with outer:  # re-entrant
                assert get_current_journal() is outer
                nested_obs, _ = scenario()
            assert get_current_journal() is mid
            v = ir.Value(name="only_mid_and_outer")
            v.name = "renamed"
        assert get_current_journal() is outer
        g_only_outer = ir.Graph([], [], nodes=[], name="outer_only")
    assert get_current_journal() is None
    assert nested_obs == ref_obs
    assert snapshot_classes() == baseline_classes, "classes not restored after nesting"
    mid_ops = normalize(mid.entries)
    assert mid_ops == ops + [
        ("init", "Value", mid_ops[-2][2]),
        ("set_name", "Value", "'only_mid_and_outer' -> 'renamed'"),
    ], mid_ops[-3:]
    outer_ops = normalize(outer.entries)
    # outer is installed twice in the innermost block, so it sees each of those ops twice
    assert sum(1 for o in outer_ops if o == ("init", "Graph", "outer_only")) == 1
    assert sum(1 for o in outer_ops if o == ("set_name", "Value", "'only_mid_and_outer' -> 'renamed'")) == 1
    assert sum(1 for o in outer_ops if o == ("init", "Graph", "fg")) == 2
    # + Value init / set_name in the middle block + Graph extend (from __init__) / init
    assert len(outer_ops) == 2 * len(ops) + 2 + 2, (len(outer_ops), len(ops))
    assert outer_ops[-2:] == [("extend", "Graph", "[]"), ("init", "Graph", "outer_only")], outer_ops[-2:]

    # 5. Exceptions thrown from inside nested blocks restore everything
    class Boom(Exception):
        pass

    ja, jb, jc = Journal(), Journal(), Journal()
    try:
        with ja:
            with jb:
                try:
                    with jc:
                        ir.Value(name="in_c")
                        raise Boom("inner")
                except Boom:
                    assert get_current_journal() is jb
                t = ir.Value(name="in_b")
                t.shape = ir.Shape([])  # empty shape
                raise Boom("outer")
    except Boom as e:
        assert str(e) == "outer"
    assert get_current_journal() is None
    assert snapshot_classes() == baseline_classes, "classes not restored after exceptions"
    assert [o[0] for o in normalize(jc.entries)] == ["init"]
    assert [o[:2] for o in normalize(jb.entries)] == [
        ("init", "Value"), ("init", "Value"), ("set_shape", "Value"),
    ], normalize(jb.entries)
    assert normalize(jb.entries)[-1] == ("set_shape", "Value", "None -> Shape([])"), normalize(jb.entries)
    assert normalize(ja.entries) == normalize(jb.entries)

    # A rejected setter inside a journal: exception identical, entry still recorded before
    # the call (as before), state unchanged
    init_val = ir.Value(name="init", const_value=ir.tensor([1], name="init"))
    gi = ir.Graph([], [], nodes=[], initializers=[init_val])
    with Journal() as jr:
        try:
            init_val.name = None
        except ValueError as e:
            msg_in = str(e)
        else:
            raise AssertionError("expected ValueError")
    try:
        init_val.name = None
    except ValueError as e:
        assert str(e) == msg_in
    assert init_val.name == "init" and gi.initializers["init"] is init_val
    assert normalize(jr.entries) == [("set_name", "Value", "'init' -> None")]

    # 6. After leaving, nothing is recorded any more
    before = len(j1.entries), len(outer.entries), len(jr.entries)
    scenario()
    assert (len(j1.entries), len(outer.entries), len(jr.entries)) == before

    # 7. Entries keep no strong references
    with Journal() as jw:
        node = ir.Node("", "Identity", [ir.Value(name="a")], name="tmp")
        node.name = "tmp2"
        g = ir.Graph([], [], nodes=[node], name="tmpg")
        t = ir.tensor([1, 2, 3], name="tt")
    refs = [weakref.ref(node), weakref.ref(g), weakref.ref(t)]
    assert all(e.obj is not None for e in jw.entries if e.class_name in ("Node", "Graph", "Tensor"))
    del node, g, t
    gc.collect()
    assert all(r() is None for r in refs), "journal entries keep IR objects alive"
    assert all(e.obj is None for e in jw.entries if e.class_name in ("Node", "Graph", "Tensor"))
    assert [e.operation for e in jw.entries if e.class_name == "Graph"] == ["extend", "init"]
    assert [e.details for e in jw.entries if e.class_name == "Graph"][-1] == "tmpg"

    print("OK", len(ops), "entries per scenario")


if __name__ == "__main__":
    main()
