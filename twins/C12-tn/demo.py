"""Demo for property C12: topological sort across scopes, stable, deterministic, atomic.

Exercises Graph.sort / Function.sort and the node adoption methods sort relies on
(Graph.extend, Graph.insert_before, Graph.insert_after) through the public API.
Exits 0 when every check passes.
"""

from __future__ import annotations

import itertools
import random
import sys

import onnx_ir as ir


def check(cond: bool, msg: str) -> None:
    if not cond:
        print("FAIL:", msg)
        sys.exit(1)


def all_graphs(graph: ir.Graph) -> list[ir.Graph]:
    return [graph, *graph.subgraphs()]


def snapshot(graph: ir.Graph) -> dict[int, list[int]]:
    return {id(g): [id(n) for n in g] for g in all_graphs(graph)}


def names(graph) -> list[str]:
    return [n.name for n in graph]


def assert_topological(root: ir.Graph) -> None:
    """Every node comes after the same-graph producers of values used by it or nested in it."""
    for g in all_graphs(root):
        position = {id(n): i for i, n in enumerate(g)}
        for node in g:
            check(node.graph is g, f"{node.name} lost its graph")
            used = [node, *_nested_nodes(node)]
            for user in used:
                for value in user.inputs:
                    if value is None:
                        continue
                    producer = value.producer()
                    if producer is None or producer.graph is not g or producer is node:
                        continue
                    check(
                        position[id(producer)] < position[id(node)],
                        f"{producer.name} must precede {node.name} in {g.name}",
                    )


def _nested_nodes(node: ir.Node):
    for attr in node.attributes.values():
        if attr.is_ref():
            continue
        if attr.type == ir.AttributeType.GRAPH:
            for inner in attr.value:
                yield inner
                yield from _nested_nodes(inner)
        elif attr.type == ir.AttributeType.GRAPHS:
            for sub in attr.value:
                for inner in sub:
                    yield inner
                    yield from _nested_nodes(inner)


def build_nested(order: list[int] | None = None, inner_order: list[int] | None = None):
    """Main graph with an If node whose branches capture outer values, nested two deep."""
    x = ir.Value(name="x")
    a = ir.Node("", "A", [x], name="a")
    b = ir.Node("", "B", [a.outputs[0], a.outputs[0], None], name="b")  # repeated + optional
    split = ir.Node("", "Split", [b.outputs[0]], num_outputs=2, name="split")
    late = ir.Node("", "Late", [split.outputs[1]], name="late")

    # innermost graph captures `late` of the main graph
    deep1 = ir.Node("", "D1", [late.outputs[0]], name="deep1")
    deep2 = ir.Node("", "D2", [deep1.outputs[0]], name="deep2")
    deepest = ir.Graph([], [deep2.outputs[0]], nodes=[deep2, deep1], name="deepest")

    # then-branch: captures `split` from main, contains a Loop-like node holding `deepest`
    t1 = ir.Node("", "T1", [split.outputs[0]], name="t1")
    holder = ir.Node(
        "", "Holder", [t1.outputs[0]], attributes=[ir.AttrGraph("body", deepest)], name="holder"
    )
    t3 = ir.Node("", "T3", [holder.outputs[0], t1.outputs[0]], name="t3")
    then_nodes = [t3, holder, t1]
    if inner_order is not None:
        then_nodes = [[t1, holder, t3][i] for i in inner_order]
    then_g = ir.Graph([], [t3.outputs[0]], nodes=then_nodes, name="then")

    # else-branch: empty graph, plus a GRAPHS attribute and a reference attribute
    else_g = ir.Graph([], [], nodes=[], name="else")
    e1 = ir.Node("", "E1", [a.outputs[0]], name="e1")
    extra_g = ir.Graph([], [e1.outputs[0]], nodes=[e1], name="extra")

    cond = ir.Node(
        "",
        "If",
        [b.outputs[0]],
        attributes=[
            ir.AttrGraph("then_branch", then_g),
            ir.AttrGraph("else_branch", else_g),
            ir.AttrGraphs("more", [extra_g]),
            ir.RefAttr("ref", "outer_graph_attr", ir.AttributeType.GRAPH),
        ],
        name="cond",
    )
    tail = ir.Node("", "Tail", [cond.outputs[0]], name="tail")
    free = ir.Node("", "Free", [], name="free")
    main_nodes = [a, b, split, late, cond, tail, free]
    if order is not None:
        main_nodes = [main_nodes[i] for i in order]
    main = ir.Graph([x], [tail.outputs[0]], nodes=main_nodes, name="main")
    return main


def test_nested_all_permutations() -> None:
    rng = random.Random(12)
    perms = list(itertools.permutations(range(7)))
    rng.shuffle(perms)
    inner_perms = list(itertools.permutations(range(3)))
    for k, perm in enumerate(perms[:150]):
        inner = list(inner_perms[k % len(inner_perms)])
        g1 = build_nested(list(perm), inner)
        g2 = build_nested(list(perm), inner)
        members_before = {
            g.name: sorted(names(g)) for g in all_graphs(g1)
        }
        g1.sort()
        g2.sort()
        assert_topological(g1)
        # each graph keeps exactly its own nodes
        check(
            {g.name: sorted(names(g)) for g in all_graphs(g1)} == members_before,
            "membership changed",
        )
        # deterministic: same structure + same previous order -> same result
        check(
            [names(g) for g in all_graphs(g1)] == [names(g) for g in all_graphs(g2)],
            "sort is not deterministic",
        )
        # `cond` captures `late` (through deepest) and `split`
        main_names = names(g1)
        check(main_names.index("late") < main_names.index("cond"), "captured value ignored")
        check(main_names.index("split") < main_names.index("cond"), "captured value ignored")
        # idempotent / already sorted graph is left exactly as it was
        snap = snapshot(g1)
        g1.sort()
        check(snapshot(g1) == snap, "sorted graph was changed by a second sort")


def test_sorted_input_untouched() -> None:
    g = build_nested(None, [0, 1, 2])
    # deepest is given unsorted on purpose: sort it first
    g.sort()
    snap = snapshot(g)
    expected_main = ["a", "b", "split", "late", "cond", "tail", "free"]
    check(names(g) == expected_main, f"stable order expected, got {names(g)}")
    g.sort()
    check(snapshot(g) == snap, "already sorted graph changed")


def test_cycle_is_atomic() -> None:
    # cycle inside a nested subgraph, while main graph and the other graph are unsorted
    x = ir.Value(name="x")
    p = ir.Node("", "P", [x], name="p")
    q = ir.Node("", "Q", [p.outputs[0]], name="q")
    c1 = ir.Node("", "C1", [None], name="c1")
    c2 = ir.Node("", "C2", [c1.outputs[0]], name="c2")
    c1.replace_input_with(0, c2.outputs[0])
    s1 = ir.Node("", "S1", [q.outputs[0]], name="s1")
    s2 = ir.Node("", "S2", [s1.outputs[0]], name="s2")
    cyc = ir.Graph([], [], nodes=[c1, c2], name="cyc")
    unsorted_sub = ir.Graph([], [], nodes=[s2, s1], name="unsorted_sub")
    holder = ir.Node(
        "",
        "H",
        [],
        attributes=[ir.AttrGraphs("gs", [unsorted_sub, cyc])],
        name="holder",
    )
    main = ir.Graph([x], [], nodes=[holder, q, p], name="main")
    snap = snapshot(main)
    try:
        main.sort()
    except ValueError:
        pass
    else:
        check(False, "cycle not reported")
    check(snapshot(main) == snap, "order changed although a cycle was reported")
    for g in all_graphs(main):
        for n in g:
            check(n.graph is g, "ownership changed on failed sort")

    # cycle through a captured value: node uses, inside its subgraph, the output of its own consumer
    y = ir.Value(name="y")
    outer_user = ir.Node("", "OU", [None], name="outer_user")
    inner = ir.Node("", "IN", [outer_user.outputs[0]], name="inner")
    body = ir.Graph([], [], nodes=[inner], name="body")
    owner = ir.Node("", "OW", [y], attributes=[ir.AttrGraph("body", body)], name="owner")
    outer_user.replace_input_with(0, owner.outputs[0])
    main2 = ir.Graph([y], [], nodes=[outer_user, owner], name="main2")
    snap2 = snapshot(main2)
    try:
        main2.sort()
    except ValueError:
        pass
    else:
        check(False, "cross-scope cycle not reported")
    check(snapshot(main2) == snap2, "order changed on cross-scope cycle")

    # self loop
    s = ir.Node("", "S", [None], name="s")
    s.replace_input_with(0, s.outputs[0])
    r = ir.Node("", "R", [], name="r")
    g3 = ir.Graph([], [], nodes=[s, r], name="g3")
    try:
        g3.sort()
    except ValueError:
        pass
    else:
        check(False, "self loop not reported")
    check(names(g3) == ["s", "r"], "order changed on self loop")


def test_empty_and_function() -> None:
    empty = ir.Graph([], [], nodes=[], name="empty")
    empty.sort()
    check(len(empty) == 0, "empty graph")

    x = ir.Value(name="x")
    n1 = ir.Node("", "N1", [x], name="n1")
    n2 = ir.Node("", "N2", [n1.outputs[0]], name="n2")
    n3 = ir.Node("", "N3", [n2.outputs[0], n1.outputs[0]], name="n3")
    fg = ir.Graph([x], [n3.outputs[0]], nodes=[n3, n2, n1], name="fg")
    func = ir.Function("dom", "f", graph=fg, attributes=[])
    func.sort()
    check(names(func) == ["n1", "n2", "n3"], f"function sort: {names(func)}")
    func.sort()
    check(names(func) == ["n1", "n2", "n3"], "function sort not idempotent")


def test_adoption_paths() -> None:
    """The write-back of sort goes through Graph.extend with nodes the graph already owns."""
    n = [ir.Node("", "Op", [], name=f"n{i}") for i in range(5)]
    g = ir.Graph([], [], nodes=n[:4], name="g")
    # re-extend with own nodes, duplicates and the current last node: moves to the end, no dups
    g.extend(iter([n[1], n[3], n[1], n[0]]))
    check(names(g) == ["n2", "n3", "n1", "n0"], f"extend own nodes: {names(g)}")
    g.extend([])
    g.extend(n for n in ())
    check(names(g) == ["n2", "n3", "n1", "n0"], "empty extend changed the graph")

    # rejected call: one node belongs to another graph -> nothing adopted, nothing moved
    foreign = ir.Node("", "Op", [], name="foreign")
    other = ir.Graph([], [], nodes=[foreign], name="other")
    fresh = ir.Node("", "Op", [])  # unnamed: a name would be assigned on adoption
    for call in (
        lambda: g.extend([n[2], fresh, foreign, n[4]]),
        lambda: g.insert_before(n[2], [n[0], fresh, foreign]),
        lambda: g.insert_after(n[2], (x for x in [fresh, foreign, n[4]])),
    ):
        try:
            call()
        except ValueError as e:
            check("belongs to another graph" in str(e), f"message: {e}")
        else:
            check(False, "foreign node accepted")
        check(names(g) == ["n2", "n3", "n1", "n0"], f"rejected call moved nodes: {names(g)}")
        check(fresh.graph is None and fresh.name is None, "fresh node touched by rejected call")
        check(n[4].graph is None, "n4 adopted by rejected call")
        check(foreign.graph is other and names(other) == ["foreign"], "foreign node stolen")

    # bad anchor is reported before anything else
    try:
        g.insert_after(foreign, [fresh])
    except ValueError as e:
        check("does not belong to this graph" in str(e), f"message: {e}")
    else:
        check(False, "bad anchor accepted")
    check(fresh.graph is None and fresh.name is None, "fresh node touched by bad-anchor call")

    # accepted calls
    g.insert_before(n[2], [n[0], fresh])
    check([x is y for x, y in zip(g, [n[0], fresh, n[2], n[3], n[1]])] == [True] * 5, "insert_before")
    check(fresh.graph is g and fresh.name is not None, "fresh node not adopted / named")
    g.insert_after(n[3], n[4])
    check(list(g)[-2] is n[4] and n[4].graph is g, "insert_after single node")
    g.sort()  # no edges: order must be kept exactly
    check([id(x) for x in g] == [id(x) for x in [n[0], fresh, n[2], n[3], n[4], n[1]]], "edge-free sort")


def main() -> None:
    test_nested_all_permutations()
    test_sorted_input_untouched()
    test_cycle_is_atomic()
    test_empty_and_function()
    test_adoption_paths()
    print("OK")


if __name__ == "__main__":
    main()
