"""Demo for property C05 in the area of constant_manipulation.py.

Exercises LiftConstantsToInitializersPass (all attribute forms), LiftSubgraphInitializersToMainGraphPass
(name collisions), RemoveInitializersFromInputsPass / AddInitializersToInputsPass through the public API
and checks that outputs (computed with the ONNX reference evaluator) and the I/O signature are preserved.
"""

from __future__ import annotations

import sys

import numpy as np
import onnx
import onnx.reference

import onnx_ir as ir
from onnx_ir.passes.common import (
    AddInitializersToInputsPass,
    LiftConstantsToInitializersPass,
    LiftSubgraphInitializersToMainGraphPass,
    RemoveInitializersFromInputsPass,
)

FLOAT = ir.DataType.FLOAT
INT64 = ir.DataType.INT64


def check(cond, msg):
    if not cond:
        print("FAIL:", msg)
        sys.exit(1)


def run(model: ir.Model, feeds):
    proto = ir.to_proto(model)
    onnx.checker.check_model(proto, full_check=True)
    return onnx.reference.ReferenceEvaluator(proto).run(None, feeds)


def _normalise(arr):
    # ONNX strings are bytes; the reference evaluator yields str for Constant(value_string)
    # and bytes/object for string initializers. Compare them as str.
    if arr.dtype.kind in "OUS":
        flat = [v.decode() if isinstance(v, bytes) else str(v) for v in arr.reshape(-1).tolist()]
        return np.array(flat, dtype=str).reshape(arr.shape)
    return arr


def same(a, b):
    check(len(a) == len(b), "number of outputs changed")
    for x, y in zip(a, b):
        x, y = _normalise(np.asarray(x)), _normalise(np.asarray(y))
        check(x.dtype == y.dtype and x.shape == y.shape, f"dtype/shape changed {x.dtype}{x.shape} {y.dtype}{y.shape}")
        check(np.array_equal(x, y), "values changed")


def const(name, attr):
    return ir.Node("", "Constant", inputs=[], attributes=[attr], outputs=[ir.val(name)], name=f"n_{name}")


def build_constants_model() -> ir.Model:
    x = ir.val("x", FLOAT, ir.Shape([3]))
    c_tensor = const("c_tensor", ir.AttrTensor("value", ir.tensor(np.arange(3, dtype=np.float32), name="t")))
    c_float = const("c_float", ir.AttrFloat32("value_float", 2.5))
    c_floats = const("c_floats", ir.AttrFloat32s("value_floats", [1.0, -2.0, 0.5]))
    c_int = const("c_int", ir.AttrInt64("value_int", 7))
    c_ints = const("c_ints", ir.AttrInt64s("value_ints", [3]))
    c_empty = const("c_empty", ir.AttrInt64s("value_ints", []))  # empty list
    c_str = const("c_str", ir.AttrString("value_string", "hello"))
    c_strs = const("c_strs", ir.AttrStrings("value_strings", ["a", "bc"]))
    c_out = const("c_out", ir.AttrFloat32s("value_floats", [9.0, 8.0, 7.0]))  # is a graph output
    # same float constant twice (duplicate subexpression)
    c_float_dup = const("c_float_dup", ir.AttrFloat32("value_float", 2.5))

    add1 = ir.node("Add", [x, c_tensor.outputs[0]], outputs=[ir.val("a1")])
    mul = ir.node("Mul", [add1.outputs[0], c_float.outputs[0]], outputs=[ir.val("m")])
    mul2 = ir.node("Mul", [mul.outputs[0], c_float_dup.outputs[0]], outputs=[ir.val("m2")])
    add2 = ir.node("Add", [mul2.outputs[0], c_floats.outputs[0]], outputs=[ir.val("y")])
    reshaped = ir.node("Reshape", [add2.outputs[0], c_ints.outputs[0]], outputs=[ir.val("r")])
    cast = ir.node("Cast", [reshaped.outputs[0]], attributes={"to": int(INT64)}, outputs=[ir.val("ci")])
    addi = ir.node("Add", [cast.outputs[0], c_int.outputs[0]], outputs=[ir.val("yi")])
    shape_of_empty = ir.node("Shape", [c_empty.outputs[0]], outputs=[ir.val("se")])
    id_str = ir.node("Identity", [c_str.outputs[0]], outputs=[ir.val("s1")])
    id_strs = ir.node("Identity", [c_strs.outputs[0]], outputs=[ir.val("s2")])
    nodes = [
        c_tensor, c_float, c_floats, c_int, c_ints, c_empty, c_str, c_strs, c_out, c_float_dup,
        add1, mul, mul2, add2, reshaped, cast, addi, shape_of_empty, id_str, id_strs,
    ]
    outs = [
        add2.outputs[0], addi.outputs[0], shape_of_empty.outputs[0], id_str.outputs[0],
        id_strs.outputs[0], c_out.outputs[0],
    ]
    out_types = [(FLOAT, [3]), (INT64, [3]), (INT64, [1]), (ir.DataType.STRING, []), (ir.DataType.STRING, [2]), (FLOAT, [3])]
    for out, (dtype, shape) in zip(outs, out_types):
        out.type = ir.TensorType(dtype)
        out.shape = ir.Shape(shape)
    graph = ir.Graph([x], outs, nodes=nodes, opset_imports={"": 20}, name="main")
    return ir.Model(graph, ir_version=10)


def constants_part():
    feeds = {"x": np.array([1.0, 2.0, 3.0], dtype=np.float32)}
    expected = run(build_constants_model(), feeds)

    # default: only `value`, size_limit 16 -> nothing lifted (3 elements < 16)
    m = build_constants_model()
    res = LiftConstantsToInitializersPass()(m)
    check(res.model is m and res.modified is False, "default pass should not modify")
    check(len(m.graph.initializers) == 0, "nothing must be lifted by default")

    # only `value` with size_limit 0
    m = build_constants_model()
    res = LiftConstantsToInitializersPass(size_limit=0)(m)
    check(res.modified is True, "value tensor should be lifted")
    check(list(m.graph.initializers) == ["c_tensor"], f"only c_tensor lifted: {list(m.graph.initializers)}")
    same(expected, run(m, feeds))

    # everything; size_limit=1 keeps the empty one as a node
    for limit, kept in ((0, set()), (1, {"c_empty"}), (2, {"c_empty", "c_float", "c_int", "c_ints", "c_float_dup", "c_str"})):
        m = build_constants_model()
        res = LiftConstantsToInitializersPass(lift_all_constants=True, size_limit=limit)(m)
        check(res.modified is True, "should be modified")
        remaining = {n.outputs[0].name for n in m.graph if n.op_type == "Constant"}
        check(remaining == kept | {"c_out"}, f"limit {limit}: remaining constants {remaining}")
        inits = m.graph.initializers
        all_names = ["c_tensor", "c_float", "c_floats", "c_int", "c_ints", "c_empty", "c_str", "c_strs", "c_float_dup"]
        check(list(inits) == [n for n in all_names if n not in kept], f"limit {limit}: initializer order {list(inits)}")
        if limit == 0:
            check(inits["c_float"].const_value.dtype == FLOAT and inits["c_float"].const_value.shape == ir.Shape([]), "c_float")
            check(inits["c_floats"].const_value.dtype == FLOAT and inits["c_floats"].const_value.shape == ir.Shape([3]), "c_floats")
            check(inits["c_int"].const_value.dtype == INT64 and inits["c_int"].const_value.shape == ir.Shape([]), "c_int")
            check(inits["c_ints"].const_value.dtype == INT64 and inits["c_ints"].const_value.numpy().tolist() == [3], "c_ints")
            check(inits["c_empty"].const_value.dtype == INT64 and inits["c_empty"].const_value.shape == ir.Shape([0]), "c_empty")
            check(inits["c_str"].const_value.dtype == ir.DataType.STRING, "c_str")
            check(inits["c_strs"].const_value.numpy().tolist() == [b"a", b"bc"], "c_strs")
            for n in ("c_float", "c_floats", "c_int", "c_ints", "c_empty", "c_str", "c_strs"):
                check(inits[n].const_value.name == n, f"tensor name of {n}")
                check(inits[n].type == ir.TensorType(inits[n].const_value.dtype), "type")
        check([i.name for i in m.graph.inputs] == ["x"], "inputs changed")
        check([o.name for o in m.graph.outputs] == ["y", "yi", "se", "s1", "s2", "c_out"], "outputs changed")
        same(expected, run(m, feeds))
        # running again is a no-op
        check(LiftConstantsToInitializersPass(lift_all_constants=True, size_limit=limit)(m).modified is False, "idempotent")

    # unusual: rejected / skipped constants
    def single(attrs, name="c"):
        node = ir.Node("", "Constant", [], attributes=attrs, outputs=[ir.val(name)], name="n_c")
        use = ir.node("Identity", [node.outputs[0]], outputs=[ir.val("o", FLOAT)])
        return ir.Model(ir.Graph([], [use.outputs[0]], nodes=[node, use], opset_imports={"": 20}), ir_version=10)

    # unsupported attribute name -> ValueError, nothing changed
    m = single([ir.AttrFloat32("sparse_value", 1.0)])
    try:
        LiftConstantsToInitializersPass(lift_all_constants=True, size_limit=0)(m)
        check(False, "expected ValueError")
    except ValueError as e:
        check(str(e) == "Unsupported constant node 'n_c' attribute 'sparse_value'", f"message: {e}")
    check(len(m.graph.initializers) == 0 and len(m.graph) == 2, "model changed by rejected call")
    # ... but silently skipped when lift_all_constants is False
    check(LiftConstantsToInitializersPass(size_limit=0)(m).modified is False, "skipped")

    # attribute of the wrong type for its name -> TypeError from the accessor
    for attr, tname in (
        (ir.AttrFloat32("value_int", 1.0), "INT"),
        (ir.AttrInt64("value_ints", 1), "INTS"),
        (ir.AttrInt64("value_float", 1), "FLOAT"),
        (ir.AttrFloat32("value_floats", 1.0), "FLOATS"),
        (ir.AttrInt64("value", 1), "TENSOR"),
    ):
        m = single([attr])
        try:
            LiftConstantsToInitializersPass(lift_all_constants=True, size_limit=0)(m)
            check(False, "expected TypeError")
        except TypeError as e:
            check(f"is not of type {tname}." in str(e), f"message: {e}")
        check(len(m.graph.initializers) == 0 and len(m.graph) == 2, "model changed by rejected call")

    # two attributes / no attribute -> skipped
    m = single([ir.AttrFloat32("value_float", 1.0), ir.AttrInt64("value_int", 1)])
    check(LiftConstantsToInitializersPass(lift_all_constants=True, size_limit=0)(m).modified is False, "two attrs")
    m = single([])
    check(LiftConstantsToInitializersPass(lift_all_constants=True, size_limit=0)(m).modified is False, "no attrs")
    # empty graph
    m = ir.Model(ir.Graph([], [], nodes=[], opset_imports={"": 20}), ir_version=10)
    check(LiftConstantsToInitializersPass(lift_all_constants=True, size_limit=0)(m).modified is False, "empty")


def build_subgraph_model() -> ir.Model:
    """If with two branches; both branches own an initializer called 'w' (sibling scopes)."""
    x = ir.val("x", FLOAT, ir.Shape([2]))
    cond = ir.val("cond", ir.DataType.BOOL, ir.Shape([]))
    b0 = ir.val("b0", FLOAT, ir.Shape([2]), const_value=ir.tensor(np.array([1, 1], np.float32), name="b0"))
    w_1 = ir.val("w_1", FLOAT, ir.Shape([2]), const_value=ir.tensor(np.array([5, 5], np.float32), name="w_1"))
    pre = ir.node("Add", [x, b0], outputs=[ir.val("pre", FLOAT, ir.Shape([2]))])
    pre2 = ir.node("Add", [pre.outputs[0], w_1], outputs=[ir.val("pre2", FLOAT, ir.Shape([2]))])

    def branch(scale, gname, extra_name):
        w = ir.val("w", FLOAT, ir.Shape([2]), const_value=ir.tensor(np.array([scale, -scale], np.float32), name="w"))
        e = ir.val(extra_name, FLOAT, ir.Shape([2]), const_value=ir.tensor(np.array([0.5, 0.25], np.float32), name=extra_name))
        n = ir.node("Mul", [pre2.outputs[0], w], outputs=[ir.val(f"{gname}_m", FLOAT, ir.Shape([2]))])  # captured value
        n2 = ir.node("Add", [n.outputs[0], e], outputs=[ir.val(f"{gname}_out", FLOAT, ir.Shape([2]))])
        return ir.Graph([], [n2.outputs[0]], nodes=[n, n2], initializers=[w, e], name=gname)

    then_g = branch(2.0, "then_g", "e")
    # 'post' is also the name of a main-graph node output produced after the If node
    else_g = branch(3.0, "else_g", "post")
    if_node = ir.Node(
        "", "If", [cond],
        attributes=[ir.AttrGraph("then_branch", then_g), ir.AttrGraph("else_branch", else_g)],
        outputs=[ir.val("y_if", FLOAT, ir.Shape([2]))],
    )
    post = ir.node("Add", [if_node.outputs[0], w_1], outputs=[ir.val("post", FLOAT, ir.Shape([2]))])
    graph = ir.Graph(
        [x, cond], [post.outputs[0]], nodes=[pre, pre2, if_node, post],
        initializers=[b0, w_1], opset_imports={"": 20}, name="main",
    )
    return ir.Model(graph, ir_version=10)


def subgraph_part():
    feeds_list = [
        {"x": np.array([1.0, 2.0], np.float32), "cond": np.array(True)},
        {"x": np.array([1.0, 2.0], np.float32), "cond": np.array(False)},
    ]
    expected = [run(build_subgraph_model(), f) for f in feeds_list]
    m = build_subgraph_model()
    res = LiftSubgraphInitializersToMainGraphPass()(m)
    check(res.modified is True, "subgraph initializers should be lifted")
    # then: 'w' is free, 'e' is free; else: 'w' and 'w_1' are taken -> 'w_2'; 'post' is a node output -> 'post_1'
    check(list(m.graph.initializers) == ["b0", "w_1", "w", "e", "w_2", "post_1"], f"names: {list(m.graph.initializers)}")
    for g in m.graphs():
        if g is not m.graph:
            check(len(g.initializers) == 0, "subgraph still has initializers")
    check([i.name for i in m.graph.inputs] == ["x", "cond"], "inputs changed")
    for f, e in zip(feeds_list, expected):
        same(e, run(m, f))
    check(LiftSubgraphInitializersToMainGraphPass()(m).modified is False, "idempotent")

    # composition with input conversion passes
    m = build_subgraph_model()
    res = AddInitializersToInputsPass()(m)
    check(res.modified is True, "initializers added to inputs")
    check([i.name for i in m.graph.inputs] == ["x", "cond", "b0", "w_1"], "main inputs after add")
    # initializers that are subgraph inputs cannot be lifted
    check(LiftSubgraphInitializersToMainGraphPass()(m).modified is False, "nothing liftable")
    res = RemoveInitializersFromInputsPass()(m)
    check(res.modified is True, "initializers removed from inputs")
    check([i.name for i in m.graph.inputs] == ["x", "cond"], "main inputs after remove")
    for g in m.graphs():
        if g is not m.graph:
            check(len(g.inputs) == 0, "subgraph inputs after remove")
    check(RemoveInitializersFromInputsPass()(m).modified is False, "second remove is a no-op")
    LiftSubgraphInitializersToMainGraphPass()(m)
    LiftConstantsToInitializersPass(lift_all_constants=True, size_limit=0)(m)
    for f, e in zip(feeds_list, expected):
        same(e, run(m, f))

    # unusual: interleaved initializer-inputs; ordinary inputs keep their order
    a = ir.val("a", FLOAT, ir.Shape([1]))
    b = ir.val("b", FLOAT, ir.Shape([1]))
    k1 = ir.val("k1", FLOAT, ir.Shape([1]), const_value=ir.tensor(np.array([1], np.float32), name="k1"))
    k2 = ir.val("k2", FLOAT, ir.Shape([1]), const_value=ir.tensor(np.array([2], np.float32), name="k2"))
    s = ir.node("Sum", [a, k1, b, k2], outputs=[ir.val("s", FLOAT, ir.Shape([1]))])
    g = ir.Graph([k1, a, k2, b], [s.outputs[0]], nodes=[s], initializers=[k1, k2], opset_imports={"": 20}, name="g")
    m = ir.Model(g, ir_version=10)
    feeds = {"a": np.array([10], np.float32), "b": np.array([20], np.float32)}
    before = run(m, feeds)
    res = RemoveInitializersFromInputsPass()(m)
    check(res.modified is True and [i.name for i in g.inputs] == ["a", "b"], "interleaved removal")
    same(before, run(m, feeds))
    # empty graph
    m = ir.Model(ir.Graph([], [], nodes=[], opset_imports={"": 20}), ir_version=10)
    check(RemoveInitializersFromInputsPass()(m).modified is False, "empty remove")
    check(AddInitializersToInputsPass()(m).modified is False, "empty add")
    check(LiftSubgraphInitializersToMainGraphPass()(m).modified is False, "empty lift")


if __name__ == "__main__":
    constants_part()
    subgraph_part()
    print("OK")
