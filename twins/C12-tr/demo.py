"""Demo for C12: Graph.sort / Function.sort through the public API.

Checks: producers-first order across scopes, own-node sets kept, already sorted
graphs untouched, stability/determinism against an independent reference
(lexicographically largest reversed order == stable Kahn), and atomicity on cycles.
"""
import itertools
import random
import sys

import onnx_ir as ir


_COUNTER = itertools.count()


def mk_value(name):
    return ir.Value(name=name)


def build(seed, n_nodes=9, depth=2, outer_values=()):
    """Build a random graph (DAG) with nested subgraphs capturing outer values."""
    rng = random.Random(seed)
    graph_input = mk_value(f"in_{seed}_{depth}")
    available = [graph_input, *outer_values]
    nodes = []
    for i in range(n_nodes):
        k = rng.randint(0, 3)
        inputs = [rng.choice(available + [None]) for _ in range(k)]
        if inputs and rng.random() < 0.3:
            inputs.append(inputs[0])  # repeated input
        attrs = []
        if depth > 0 and rng.random() < 0.35:
            sub = build(seed * 31 + i + 1, rng.randint(0, 4), depth - 1, tuple(available))
            attrs.append(ir.AttrGraph("body", sub))
            if rng.random() < 0.5:
                subs = [
                    build(seed * 57 + i + j + 2, rng.randint(0, 3), depth - 1, tuple(available))
                    for j in range(2)
                ]
                attrs.append(ir.AttrGraphs("branches", subs))
        node = ir.Node(
            "", f"Op{i}", inputs, attributes=attrs, num_outputs=rng.randint(1, 2),
            name=f"n_{seed}_{depth}_{i}",
        )
        nodes.append(node)
        available.extend(node.outputs)
    outputs = [nodes[-1].outputs[0]] if nodes else []
    return ir.Graph([graph_input], outputs, nodes=nodes, name=f"g_{next(_COUNTER):06d}")


def all_graphs(graph):
    result = [graph]
    for node in graph:
        for attr in node.attributes.values():
            if attr.type == ir.AttributeType.GRAPH:
                result.extend(all_graphs(attr.value))
            elif attr.type == ir.AttributeType.GRAPHS:
                for g in attr.value:
                    result.extend(all_graphs(g))
    return result


def nested_nodes(node):
    yield node
    for attr in node.attributes.values():
        graphs = []
        if attr.type == ir.AttributeType.GRAPH:
            graphs = [attr.value]
        elif attr.type == ir.AttributeType.GRAPHS:
            graphs = list(attr.value)
        for g in graphs:
            for inner in g:
                yield from nested_nodes(inner)


def local_dependencies(graph):
    """node -> set of nodes of `graph` that must come before it."""
    own = set(graph)
    deps = {}
    for node in graph:
        d = set()
        for inner in nested_nodes(node):
            for v in inner.inputs:
                if v is None:
                    continue
                p = v.producer()
                if p is not None and p in own and p is not node:
                    d.add(p)
        deps[node] = d
    return deps


def is_sorted(graph):
    deps = local_dependencies(graph)
    seen = set()
    for node in graph:
        if not deps[node] <= seen:
            return False
        seen.add(node)
    return True


def shuffle_all(graph, rng):
    for g in all_graphs(graph):
        order = list(g)
        rng.shuffle(order)
        g.extend(order)  # move-to-end of present members reorders the graph
        assert list(g) == order


def snapshot(graph):
    # keyed by graph name (unique here) so that the snapshot order is independent of node order
    return sorted(((g, list(g)) for g in all_graphs(graph)), key=lambda item: item[0].name)


def check_random(seed):
    rng = random.Random(seed)
    graph = build(seed)
    shuffle_all(graph, rng)
    before = snapshot(graph)
    graph.sort()
    after = snapshot(graph)
    assert [g for g, _ in before] == [g for g, _ in after]
    for (g, old), (_, new) in zip(before, after):
        assert len(old) == len(new) and set(old) == set(new), "own nodes kept"
        assert all(n.graph is g for n in new)
        assert is_sorted(g), f"graph {g.name} not sorted"
    # Already sorted => untouched; also deterministic
    graph.sort()
    assert [lst for _, lst in snapshot(graph)] == [lst for _, lst in after]
    # Determinism: restore the previous order and sort again
    for g, old in before:
        g.extend(old)
    graph.sort()
    assert [lst for _, lst in snapshot(graph)] == [lst for _, lst in after]


def check_stable_small():
    """Flat graph: result must be the stable order (largest-index-last greedy from the back)."""
    for perm in itertools.permutations(range(5)):
        x = mk_value("x")
        a = ir.Node("", "A", [x], name="a")
        b = ir.Node("", "B", [a.outputs[0], a.outputs[0]], name="b")
        c = ir.Node("", "C", [x, None], name="c")
        d = ir.Node("", "D", [b.outputs[0], c.outputs[0]], name="d")
        e = ir.Node("", "E", [], name="e")
        base = [a, b, c, d, e]
        order = [base[i] for i in perm]
        g = ir.Graph([x], [d.outputs[0]], nodes=order)
        deps = local_dependencies(g)
        users = {n: {m for m in order if n in deps[m]} for n in order}
        # reference: repeatedly take, from the back, the latest node with all users placed
        placed, rev = set(), []
        while len(rev) < len(order):
            cand = [n for n in order if n not in placed and users[n] <= placed]
            pick = max(cand, key=order.index)
            rev.append(pick)
            placed.add(pick)
        expected = rev[::-1]
        g.sort()
        assert list(g) == expected, (perm, [n.name for n in g])
        if is_sorted_list(order, deps):
            assert list(g) == order


def is_sorted_list(order, deps):
    seen = set()
    for n in order:
        if not deps[n] <= seen:
            return False
        seen.add(n)
    return True


def check_cycle():
    # Cycle that passes through a nested subgraph: p -> q (captures in subgraph) -> p
    x = mk_value("x")
    p = ir.Node("", "P", [x, None], name="p")
    inner = ir.Node("", "Inner", [p.outputs[0]], name="inner")
    sub = ir.Graph([], [inner.outputs[0]], nodes=[inner], name="sub")
    q = ir.Node("", "Q", [], attributes=[ir.AttrGraph("body", sub)], name="q")
    r = ir.Node("", "R", [q.outputs[0]], name="r")
    free1 = ir.Node("", "F", [r.outputs[0]], name="free1")
    free0 = ir.Node("", "F", [x], name="free0")
    p.replace_input_with(1, r.outputs[0])  # p uses r, r uses q, q's body uses p
    g = ir.Graph([x], [r.outputs[0]], nodes=[free1, r, q, p, free0], name="cyc")
    before = snapshot(g)
    try:
        g.sort()
    except ValueError as exc:
        assert "cycle" in str(exc)
    else:
        raise AssertionError("cycle not detected")
    assert [lst for _, lst in snapshot(g)] == [lst for _, lst in before], "order changed"
    # Self loop
    s = ir.Node("", "S", [None], name="s")
    s.replace_input_with(0, s.outputs[0])
    g2 = ir.Graph([], [], nodes=[s])
    try:
        g2.sort()
    except ValueError:
        pass
    else:
        raise AssertionError("self loop not detected")
    assert list(g2) == [s]


def check_empty_and_function():
    g = ir.Graph([], [], nodes=[])
    g.sort()
    assert list(g) == []
    # node with an empty subgraph and a reference attribute
    empty = ir.Graph([], [], nodes=[], name="empty")
    x = mk_value("x")
    n2 = ir.Node("", "Use", [None], name="n2")
    n1 = ir.Node(
        "", "If", [x],
        attributes=[ir.AttrGraph("then", empty), ir.RefAttr("alpha", "alpha", ir.AttributeType.FLOAT)],
        name="n1",
    )
    n2.replace_input_with(0, n1.outputs[0])
    fg = ir.Graph([x], [n2.outputs[0]], nodes=[n2, n1], name="fbody")
    func = ir.Function("dom", "fn", "", graph=fg, attributes=[])
    func.sort()
    assert list(func) == [n1, n2]
    assert list(empty) == []


def main():
    for seed in range(60):
        check_random(seed)
    check_stable_small()
    check_cycle()
    check_empty_and_function()
    print("C12 demo OK")
    return 0


if __name__ == "__main__":
    sys.exit(main())
