"""Demo for C14 on IdentityEliminationPass: identity, modified flag, fixpoint, no damage."""
import sys

import onnx_ir as ir
from onnx_ir.passes.common import IdentityEliminationPass
from onnx_ir.passes.common import identity_elimination as ie

FLOAT = ir.TensorType(ir.DataType.FLOAT)


def val(name, shape=None, typed=True):
    return ir.Value(
        name=name,
        shape=ir.Shape(shape) if shape is not None else None,
        type=FLOAT if typed else None,
    )


def ident(x, out_name, shape=None, typed=True):
    n = ir.node("Identity", inputs=[x], name=f"id_{out_name}")
    n.outputs[0].name = out_name
    n.outputs[0].shape = ir.Shape(shape) if shape is not None else None
    n.outputs[0].type = FLOAT if typed else None
    return n


def ser(model):
    return ir.to_proto(model).SerializeToString(deterministic=True)


def check_links(model):
    graphs = list(model.graphs()) + list(model.functions.values())
    for g in graphs:
        seen = set()
        for node in g:
            if isinstance(g, ir.Function):
                assert node.graph is not None and node.graph.name == "fbody", node
            else:
                assert node.graph is g, node
            for i, v in enumerate(node.inputs):
                if v is None:
                    continue
                assert (node, i) in [(u.node, u.idx) for u in v.uses()], (node, i)
                p = v.producer()
                if p is not None and p.graph is g:
                    assert p in seen, f"not topologically sorted: {node}"
            for o in node.outputs:
                assert o.producer() is node
            seen.add(node)
        for v in getattr(g, "outputs", []):
            assert v.name, "graph output lost its name"
            assert v.is_graph_output()


def run_to_fixpoint(model, bound):
    p = IdentityEliminationPass()
    rounds = 0
    while True:
        before = ser(model)
        res = p(model)
        assert res.model is model, "in-place pass must return its input"
        after = ser(model)
        if not res.modified:
            assert before == after, "modified=False but model changed"
            break
        check_links(model)
        rounds += 1
        assert rounds <= bound, "no convergence"
    # one more round: still nothing
    res = p(model)
    assert res.model is model and not res.modified and ser(model) == after
    check_links(model)
    return rounds


def build_main():
    x = val("x", ["N", 4])
    w = val("w", [4])
    w.const_value = ir.tensor([1.0, 2.0, 3.0, 4.0], name="w")
    # chain of identities, inner one carries better shape; duplicates of the same input
    a = ident(x, "a", [2, 4])
    b = ident(a.outputs[0], "b", [None, 4], typed=False)
    add = ir.node("Add", inputs=[b.outputs[0], b.outputs[0]], name="add")
    add.outputs[0].name = "s"
    add.outputs[0].shape = ir.Shape(["M", 4])
    # Case 2: identity output is a graph output, input is a plain value -> rename
    out1 = ident(add.outputs[0], "y", [2, 4])
    # Case 3: input -> output, must be kept
    keep_in = ident(x, "x_copy", ["N", 4])
    # Case 3: initializer -> output, must be kept
    keep_init = ident(w, "w_copy", [4])
    # Invalid identity (optional/missing input) must be skipped
    none_id = ir.Node("", "Identity", inputs=[None], name="id_none")
    none_id.outputs[0].name = "dangling"
    # Custom domain Identity must be left alone
    custom = ir.Node("my.domain", "Identity", inputs=[add.outputs[0]], name="custom")
    custom.outputs[0].name = "c"
    custom.outputs[0].type = FLOAT

    # Subgraph (nested in If) with identity of an outer value and identity output
    inner_id = ident(add.outputs[0], "inner_a", [2, 4])
    inner_neg = ir.node("Neg", inputs=[inner_id.outputs[0]], name="neg")
    inner_neg.outputs[0].name = "inner_n"
    inner_out = ident(inner_neg.outputs[0], "then_out", [2, 4])
    then_g = ir.Graph([], [inner_out.outputs[0]], nodes=[inner_id, inner_neg, inner_out], name="then")
    e_abs = ir.node("Abs", inputs=[add.outputs[0]], name="abs")
    e_abs.outputs[0].name = "else_abs"
    e_id = ident(e_abs.outputs[0], "else_out", [2, 4])
    # identity of an outer graph *input* feeding a subgraph output: case 3, kept
    e_keep = ident(x, "else_x", ["N", 4])
    else_g = ir.Graph([], [e_id.outputs[0], e_keep.outputs[0]], nodes=[e_abs, e_id, e_keep], name="else")
    cond = val("cond")
    cond.type = ir.TensorType(ir.DataType.BOOL)
    if_node = ir.Node(
        "", "If", inputs=[cond],
        attributes=[ir.AttrGraph("then_branch", then_g), ir.AttrGraph("else_branch", else_g)],
        name="if",
    )
    if_node.outputs[0].name = "z"
    if_node.outputs[0].type = FLOAT

    g = ir.Graph(
        [x, cond],
        [out1.outputs[0], keep_in.outputs[0], keep_init.outputs[0], if_node.outputs[0], custom.outputs[0]],
        nodes=[a, b, add, out1, keep_in, keep_init, none_id, custom, if_node],
        initializers=[w],
        opset_imports={"": 20, "my.domain": 1},
        name="main",
    )

    # A function with an identity chain, called nowhere (still processed)
    fx = val("fx", [3])
    f1 = ident(fx, "f1", [3])
    f2 = ident(f1.outputs[0], "f2", [3])
    frelu = ir.node("Relu", inputs=[f2.outputs[0]], name="frelu")
    frelu.outputs[0].name = "fr"
    fout = ident(frelu.outputs[0], "fout", [3])
    fkeep = ident(fx, "fx_copy", [3])
    fgraph = ir.Graph([fx], [fout.outputs[0], fkeep.outputs[0]], nodes=[f1, f2, frelu, fout, fkeep],
                      opset_imports={"": 20}, name="fbody")
    func = ir.Function("my.domain", "F", graph=fgraph, attributes=[])
    return ir.Model(g, ir_version=10, functions=[func])


def main():
    # 1. rich model
    model = build_main()
    n_nodes = sum(1 for _ in ie.ir.traversal.RecursiveGraphIterator(model.graph))
    n_nodes += sum(len(f) for f in model.functions.values())
    rounds = run_to_fixpoint(model, n_nodes)
    assert rounds >= 1
    names = [n.name for n in model.graph]
    assert "id_a" not in names and "id_b" not in names and "id_y" not in names
    assert "id_x_copy" in names and "id_w_copy" in names, "case 3 nodes must be kept"
    assert "id_none" in names and "custom" in names
    assert [v.name for v in model.graph.outputs] == ["y", "x_copy", "w_copy", "z", "c"]
    add = next(n for n in model.graph if n.name == "add")
    assert add.inputs[0] is add.inputs[1] is model.graph.inputs[0]
    # merged shape: int preferred over symbolic
    assert model.graph.inputs[0].shape == ir.Shape([2, 4]), model.graph.inputs[0].shape
    assert add.outputs[0].name == "y" and add.outputs[0].shape == ir.Shape([2, 4])
    assert list(model.graph.initializers) == ["w"]
    then_g = next(n for n in model.graph if n.name == "if").attributes["then_branch"].value
    assert [n.name for n in then_g] == ["neg"] and then_g.outputs[0].name == "then_out"
    else_g = next(n for n in model.graph if n.name == "if").attributes["else_branch"].value
    assert [n.name for n in else_g] == ["abs", "id_else_x"]
    assert [v.name for v in else_g.outputs] == ["else_out", "else_x"]
    func = next(iter(model.functions.values()))
    assert [n.name for n in func] == ["frelu", "id_fx_copy"]
    assert [v.name for v in func.outputs] == ["fout", "fx_copy"]

    # 2. empty model: nothing to do
    empty = ir.Model(ir.Graph([], [], nodes=[], name="e", opset_imports={"": 20}), ir_version=10)
    assert run_to_fixpoint(empty, 0) == 0

    # 3. rejected call: rank mismatch between identity input and output -> ValueError wrapped
    #    by the pass manager, and the model is left exactly unchanged.
    x = val("x", [2, 3])
    bad = ident(x, "t", [2, 3, 4])
    relu = ir.node("Relu", inputs=[bad.outputs[0]], name="r")
    relu.outputs[0].name = "o"
    relu.outputs[0].type = FLOAT
    m3 = ir.Model(ir.Graph([x], [relu.outputs[0]], nodes=[bad, relu], name="m3", opset_imports={"": 20}), ir_version=10)
    before = ser(m3)
    try:
        IdentityEliminationPass()(m3)
    except ValueError as e:
        assert "same rank, got 2 and 3" in str(e), e
    else:
        raise AssertionError("rank mismatch should be rejected")
    assert ser(m3) == before
    try:
        ir.passes.PassManager([IdentityEliminationPass()])(m3)
    except ir.passes.PassError as e:
        assert isinstance(e.__cause__, ir.passes.PassError), e.__cause__
        assert isinstance(e.__cause__.__cause__, ValueError), e.__cause__.__cause__
    else:
        raise AssertionError("rank mismatch should be rejected by the manager too")
    assert ser(m3) == before
    check_links(m3)

    # 4. rejected call: not a model
    try:
        IdentityEliminationPass()(m3.graph)
    except AttributeError as e:
        assert "'graph'" in str(e), e
    else:
        raise AssertionError("non-model input should be rejected")

    # 5. composition in a pass manager reaches the fixpoint and stops early
    m5 = build_main()
    pm = ir.passes.PassManager([IdentityEliminationPass()], steps=50, early_stop=True)
    res = pm(m5)
    assert res.model is m5 and res.modified
    check_links(m5)
    snap = ser(m5)
    res = pm(m5)
    assert res.model is m5 and not res.modified and ser(m5) == snap
    assert snap == ser(model), "two identical runs must agree"

    print("demo OK")
    return 0


if __name__ == "__main__":
    sys.exit(main())
