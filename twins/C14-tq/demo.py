"""C14 demo: the constant-manipulation passes honour the pass contract.

Exercises LiftConstantsToInitializersPass, LiftSubgraphInitializersToMainGraphPass,
RemoveInitializersFromInputsPass and AddInitializersToInputsPass through the public API:
identity of the returned model, modified flag <=> serialization changed, fixpoint on the
second application, ownership links consistent, names kept unique.
"""

from __future__ import annotations

import sys

import numpy as np

import onnx_ir as ir
from onnx_ir.passes import common as common_passes

FLOAT = ir.TensorType(ir.DataType.FLOAT)


def check(cond: bool, msg: str) -> None:
    if not cond:
        print("FAIL:", msg)
        sys.exit(1)


def ser(model: ir.Model) -> bytes:
    return ir.to_proto(model).SerializeToString(deterministic=True)


def init_value(name: str, fill: float, n: int = 4) -> ir.Value:
    tensor = ir.tensor(np.full((n,), fill, dtype=np.float32), name=name)
    return ir.Value(name=name, shape=tensor.shape, type=FLOAT, const_value=tensor)


def run_contract(pass_, model: ir.Model, expect_modified: bool, label: str, rounds: int = 3):
    """Apply the pass, check identity + flag, then check that it reached a fixpoint."""
    before = ser(model)
    result = pass_(model)
    check(result.model is model, f"{label}: in-place pass must return its input model")
    after = ser(model)
    check(
        result.modified == expect_modified,
        f"{label}: modified={result.modified}, expected {expect_modified}",
    )
    if not result.modified:
        check(before == after, f"{label}: modified=False but the serialization changed")
    else:
        check(before != after, f"{label}: modified=True but nothing changed")
    for i in range(rounds):
        snapshot = ser(model)
        again = pass_(model)
        check(again.model is model, f"{label}: identity on round {i + 2}")
        check(not again.modified, f"{label}: not a fixpoint on round {i + 2}")
        check(ser(model) == snapshot, f"{label}: round {i + 2} changed the model")
    check_links(model, label)
    return result


def check_links(model: ir.Model, label: str) -> None:
    for graph in model.graphs():
        for name, value in graph.initializers.items():
            check(value.name == name, f"{label}: initializer key/name mismatch {name}")
            check(value.graph is graph, f"{label}: initializer '{name}' has wrong owner")
            check(value.is_initializer(), f"{label}: '{name}' not flagged as initializer")
        for value in graph.inputs:
            check(value.graph is graph, f"{label}: input '{value.name}' has wrong owner")
            check(value.is_graph_input(), f"{label}: input '{value.name}' not flagged")
        for node in graph:
            check(node.graph is graph, f"{label}: node '{node.name}' has wrong owner")
            for idx, inp in enumerate(node.inputs):
                if inp is not None:
                    check(
                        (node, idx) in inp.uses(),
                        f"{label}: use-def link missing for {node.name}[{idx}]",
                    )


# --------------------------------------------------------------------------
# 1. LiftSubgraphInitializersToMainGraphPass with every kind of name collision
# --------------------------------------------------------------------------
def build_if_model() -> tuple[ir.Model, dict[str, ir.Value]]:
    x = ir.Value(name="x", type=FLOAT, shape=ir.Shape((4,)))
    cond = ir.Value(name="cond", type=ir.TensorType(ir.DataType.BOOL), shape=ir.Shape(()))
    main_w = init_value("w", 1.0)  # main initializer 'w'
    main_w1 = init_value("w_1", 1.5)  # ... and the first fallback name is taken too

    # then-branch: initializers 'w' (collides with main initializer and w_1),
    # 'x' (collides with a main graph input), 'y' (collides with a node output)
    then_w = init_value("w", 2.0)
    then_x = init_value("x", 3.0)
    then_y = init_value("y", 4.0)
    then_in = init_value("then_in", 5.0)  # also a subgraph input: must stay
    then_out = init_value("then_out", 6.0)  # also a subgraph output: must stay
    t1 = ir.node("Add", inputs=[then_w, then_x], name="t1")
    t1.outputs[0].name = "t1_out"
    t2 = ir.node("Add", inputs=[t1.outputs[0], then_y], name="t2")
    t2.outputs[0].name = "t2_out"
    t3 = ir.node("Add", inputs=[t2.outputs[0], then_in], name="t3")
    t3.outputs[0].name = "t3_out"
    then_graph = ir.Graph(
        inputs=[then_in],
        outputs=[t3.outputs[0], then_out],
        nodes=[t1, t2, t3],
        initializers=[then_w, then_x, then_y, then_in, then_out],
        name="then_graph",
    )
    # else-branch: again 'w' (second collision on the same base name) and a free name
    else_w = init_value("w", 7.0)
    else_free = init_value("free", 8.0)
    e1 = ir.node("Mul", inputs=[else_w, else_free], name="e1")
    e1.outputs[0].name = "e1_out"
    e2 = ir.node("Identity", inputs=[else_free], name="e2")
    e2.outputs[0].name = "e2_out"
    else_graph = ir.Graph(
        inputs=[],
        outputs=[e1.outputs[0], e2.outputs[0]],
        nodes=[e1, e2],
        initializers=[else_w, else_free],
        name="else_graph",
    )
    if_node = ir.node(
        "If",
        inputs=[cond],
        attributes={"then_branch": then_graph, "else_branch": else_graph},
        num_outputs=2,
        name="if",
    )
    if_node.outputs[0].name = "if_out0"
    if_node.outputs[1].name = "if_out1"
    y_node = ir.node("Add", inputs=[x, main_w], name="y_node")
    y_node.outputs[0].name = "y"
    fin = ir.node("Add", inputs=[y_node.outputs[0], main_w1], name="fin")
    fin.outputs[0].name = "fin_out"
    model = ir.Model(
        graph=ir.Graph(
            inputs=[x, cond],
            outputs=[fin.outputs[0], if_node.outputs[0], if_node.outputs[1]],
            nodes=[y_node, fin, if_node],
            initializers=[main_w, main_w1],
            opset_imports={"": 20},
            name="main",
        ),
        ir_version=10,
    )
    values = dict(
        then_w=then_w,
        then_x=then_x,
        then_y=then_y,
        then_in=then_in,
        then_out=then_out,
        else_w=else_w,
        else_free=else_free,
        main_w=main_w,
        main_w1=main_w1,
    )
    return model, values


model, v = build_if_model()
run_contract(
    common_passes.LiftSubgraphInitializersToMainGraphPass(), model, True, "lift-subgraph"
)
names = list(model.graph.initializers)
check(len(names) == len(set(names)), "lift-subgraph: duplicate initializer names")
check(
    names == ["w", "w_1", "w_2", "x_1", "y_1", "w_3", "free"],
    f"lift-subgraph: unexpected main initializers {names}",
)
check(v["then_w"].name == "w_2", "then 'w' must skip the taken 'w_1'")
check(v["else_w"].name == "w_3", "else 'w' must continue the suffix sequence")
check(v["then_x"].name == "x_1", "'x' collides with a main graph input")
check(v["then_y"].name == "y_1", "'y' collides with a main node output")
check(v["else_free"].name == "free", "a free name is kept")
check(v["main_w"].name == "w" and v["main_w1"].name == "w_1", "main initializers kept")
then_graph = model.graph.node("if").attributes["then_branch"].as_graph()
else_graph = model.graph.node("if").attributes["else_branch"].as_graph()
check(
    list(then_graph.initializers) == ["then_in", "then_out"],
    "initializers that are subgraph inputs/outputs stay in the subgraph",
)
check(len(else_graph.initializers) == 0, "else-branch initializers all lifted")
for key in ("then_w", "then_x", "then_y", "else_w", "else_free"):
    check(v[key].graph is model.graph, f"{key} must now be owned by the main graph")
# the tensors are moved, not copied
check(float(model.graph.initializers["w_3"].const_value.numpy()[0]) == 7.0, "w_3 data")
check(float(model.graph.initializers["w_2"].const_value.numpy()[0]) == 2.0, "w_2 data")

# A model without subgraphs: nothing to do (empty input for the mechanism)
flat = ir.Model(
    graph=ir.Graph(inputs=[], outputs=[], nodes=[], opset_imports={"": 20}, name="empty"),
    ir_version=10,
)
for p in (
    common_passes.LiftSubgraphInitializersToMainGraphPass(),
    common_passes.LiftConstantsToInitializersPass(),
    common_passes.RemoveInitializersFromInputsPass(),
    common_passes.AddInitializersToInputsPass(),
):
    run_contract(p, flat, False, f"empty-{type(p).__name__}")

# --------------------------------------------------------------------------
# 2. Add / Remove initializers to / from inputs, with duplicated graph inputs
# --------------------------------------------------------------------------
a = init_value("a", 1.0)
b = init_value("b", 2.0)
c = init_value("c", 3.0)
x = ir.Value(name="x", type=FLOAT, shape=ir.Shape((4,)))
sub_i = init_value("sub_i", 9.0)
sub_node = ir.node("Identity", inputs=[sub_i], name="sub_node")
sub_node.outputs[0].name = "sub_out"
sub = ir.Graph(
    inputs=[sub_i],
    outputs=[sub_node.outputs[0]],
    nodes=[sub_node],
    initializers=[sub_i],
    name="sub",
)
n1 = ir.node("Sum", inputs=[x, a, b, c], name="n1")
n1.outputs[0].name = "n1_out"
loop = ir.node("Scan", inputs=[], attributes={"body": sub}, num_outputs=1, name="scan")
loop.outputs[0].name = "scan_out"
# 'a' is listed twice among the inputs, 'x' twice as well, 'b' once, 'c' not at all
model2 = ir.Model(
    graph=ir.Graph(
        inputs=[a, x, a, b, x],
        outputs=[n1.outputs[0], loop.outputs[0]],
        nodes=[n1, loop],
        initializers=[a, b, c],
        opset_imports={"": 20},
        name="main2",
    ),
    ir_version=10,
)
run_contract(common_passes.RemoveInitializersFromInputsPass(), model2, True, "remove-inputs")
check(
    [i.name for i in model2.graph.inputs] == ["x", "x"],
    "only the non-initializer inputs remain, in order, duplicates included",
)
check(len(sub.inputs) == 0, "subgraph inputs that are initializers are removed too")
for val in (a, b, c):
    check(not val.is_graph_input(), f"'{val.name}' must not be flagged as input any more")
    check(val.is_initializer() and val.graph is model2.graph, f"'{val.name}' still owned")
check(x.is_graph_input() and x.graph is model2.graph, "'x' still an input")
check(sub_i.graph is sub and sub_i.is_initializer(), "'sub_i' still owned by subgraph")
check(list(model2.graph.initializers) == ["a", "b", "c"], "initializer order kept")

run_contract(common_passes.AddInitializersToInputsPass(), model2, True, "add-inputs")
check(
    [i.name for i in model2.graph.inputs] == ["x", "x", "a", "b", "c"],
    "every initializer appended exactly once",
)
check([i.name for i in sub.inputs] == ["sub_i"], "subgraph initializer is an input again")

# Round trip through a pass manager: add then remove is a no-op on the serialization
# of a model that had no initializer among its inputs.
model2.graph.inputs.clear()
model2.graph.inputs.extend([x])
sub.inputs.clear()
base = ser(model2)
pm = ir.passes.PassManager(
    [
        common_passes.AddInitializersToInputsPass(),
        common_passes.RemoveInitializersFromInputsPass(),
    ],
    steps=2,
)
res = pm(model2)
check(res.model is model2, "pass manager of in-place passes is in-place")
check(res.modified, "the composition reports its intermediate modifications")
check(ser(model2) == base, "add followed by remove restores the serialization")

# --------------------------------------------------------------------------
# 3. LiftConstantsToInitializersPass: size limit, outputs, invalid constants, nesting
# --------------------------------------------------------------------------
def const(name: str, out: str, **attrs) -> ir.Node:
    node = ir.node("Constant", inputs=[], attributes=attrs, num_outputs=1, name=name)
    node.outputs[0].name = out
    return node


def build_const_model(extra: list[ir.Node] = ()) -> ir.Model:
    big = const("big", "big_out", value=ir.tensor(np.arange(32, dtype=np.float32)))
    big.outputs[0].metadata_props["k"] = "v"
    small = const("small", "small_out", value=ir.tensor(np.arange(3, dtype=np.float32)))
    as_out = const("as_out", "as_out_out", value=ir.tensor(np.arange(40, dtype=np.float32)))
    ints = const("ints", "ints_out", value_ints=list(range(20)))
    two = const(
        "two", "two_out", value=ir.tensor(np.arange(50, dtype=np.float32)), value_int=1
    )
    none = const("none", "none_out")
    inner = const("inner", "inner_out", value=ir.tensor(np.arange(17, dtype=np.float32)))
    inner_use = ir.node("Identity", inputs=[inner.outputs[0]], name="inner_use")
    inner_use.outputs[0].name = "inner_use_out"
    body = ir.Graph(
        inputs=[], outputs=[inner_use.outputs[0]], nodes=[inner, inner_use], name="body"
    )
    scan = ir.node("Scan", inputs=[], attributes={"body": body}, num_outputs=1, name="scan")
    scan.outputs[0].name = "scan_out"
    use = ir.node(
        "Sum",
        inputs=[big.outputs[0], small.outputs[0], big.outputs[0]],
        name="use",
    )
    use.outputs[0].name = "use_out"
    use2 = ir.node(
        "Concat",
        inputs=[ints.outputs[0], two.outputs[0], none.outputs[0]],
        attributes={"axis": 0},
        name="use2",
    )
    use2.outputs[0].name = "use2_out"
    nodes = [big, small, as_out, ints, two, none, *extra, use, use2, scan]
    return ir.Model(
        graph=ir.Graph(
            inputs=[],
            outputs=[use.outputs[0], as_out.outputs[0], use2.outputs[0], scan.outputs[0]],
            nodes=nodes,
            opset_imports={"": 20},
            name="main3",
        ),
        ir_version=10,
    )


model3 = build_const_model()
run_contract(common_passes.LiftConstantsToInitializersPass(), model3, True, "lift-const")
check(list(model3.graph.initializers) == ["big_out"], "only the large tensor is lifted")
lifted = model3.graph.initializers["big_out"]
check(lifted.metadata_props == {"k": "v"}, "metadata of the constant output is kept")
use = model3.graph.node("use")
check(use.inputs[0] is lifted and use.inputs[2] is lifted, "both uses are rewired")
check(
    [n.name for n in model3.graph if n.op_type == "Constant"]
    == ["small", "as_out", "ints", "two", "none"],
    "small / output / non-tensor / two-attribute / no-attribute constants stay",
)
body = model3.graph.node("scan").attributes["body"].as_graph()
check(list(body.initializers) == ["inner_out"], "nested constant lifted into its own graph")
check(body.initializers["inner_out"].graph is body, "nested initializer owned by the body")

model3b = build_const_model()
run_contract(
    common_passes.LiftConstantsToInitializersPass(lift_all_constants=True, size_limit=0),
    model3b,
    True,
    "lift-all",
)
check(
    list(model3b.graph.initializers) == ["big_out", "small_out", "ints_out"],
    "with lift_all_constants and no size limit the single-attribute constants are lifted",
)
check(
    [n.name for n in model3b.graph if n.op_type == "Constant"] == ["as_out", "two", "none"],
    "output / two-attribute / no-attribute constants still stay",
)

# A rejected call: an unsupported attribute is refused with ValueError when everything is
# to be lifted; what was lifted before stays consistent, and the default pass ignores it.
bogus = const("bogus", "bogus_out", value_bogus=1)
model3c = build_const_model(extra=[bogus])
try:
    common_passes.LiftConstantsToInitializersPass(lift_all_constants=True, size_limit=0)(
        model3c
    )
except ValueError as e:
    check("Unsupported constant node 'bogus' attribute 'value_bogus'" in str(e), str(e))
else:
    check(False, "unsupported constant attribute must be rejected")
check_links(model3c, "after-rejection")
check(
    list(model3c.graph.initializers) == ["big_out", "small_out", "ints_out"],
    "constants before the rejected one were already lifted",
)
ser(model3c)  # still serializable
model3d = build_const_model(extra=[const("bogus", "bogus_out", value_bogus=1)])
run_contract(common_passes.LiftConstantsToInitializersPass(), model3d, True, "lift-bogus")
check(model3d.graph.node("bogus") is not None, "non-tensor constant ignored by default")

print("OK")
