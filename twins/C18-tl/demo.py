"""Demo for C18: region extraction and implicit-capture analysis are exact.

Exits 0 when every check holds.
"""

from __future__ import annotations

import sys

import numpy as np

import onnx_ir as ir
from onnx_ir.analysis import analyze_implicit_usage

F = ir.DataType.FLOAT


def fval(name):
    return ir.val(name, dtype=F, shape=[3])


def init(name, data):
    return ir.val(name, const_value=ir.tensor(np.array(data, dtype=np.float32), name=name))


def build():
    cond = ir.val("cond", dtype=ir.DataType.BOOL, shape=[])
    x, y, unused = fval("x"), fval("y"), fval("unused_in")
    w = init("w", [1.0, 2.0, 3.0])
    w2 = init("w2", [10.0, 20.0, 30.0])
    w_dead = init("w_dead", [7.0, 7.0, 7.0])

    n0 = ir.node("Add", [x, w], outputs=[fval("a")], name="n0")
    a = n0.outputs[0]
    n1 = ir.node("Mul", [a, y], outputs=[fval("b")], name="n1")
    b = n1.outputs[0]
    n2 = ir.node("Add", [y, w_dead], outputs=[fval("dead")], name="n2")

    # doubly nested graphs: b and t are only used two levels / one level down
    t_node = ir.node("Add", [a, w2], outputs=[fval("t")], name="t_node")
    t = t_node.outputs[0]
    in_then_n = ir.node("Sub", [b, t], outputs=[fval("it")], name="in_then_n")
    in_then = ir.Graph([], [in_then_n.outputs[0]], nodes=[in_then_n], name="inner_then")
    in_else_n = ir.node("Identity", [b], outputs=[fval("ie")], name="in_else_n")
    in_else = ir.Graph([], [in_else_n.outputs[0]], nodes=[in_else_n], name="inner_else")
    inner_if = ir.node(
        "If",
        [cond],
        outputs=[fval("ir_")],
        attributes={"then_branch": in_then, "else_branch": in_else},
        name="inner_if",
    )
    then_g = ir.Graph([], [inner_if.outputs[0]], nodes=[t_node, inner_if], name="then_g")
    else_n = ir.node("Identity", [x], outputs=[fval("eo")], name="else_n")
    else_g = ir.Graph([], [else_n.outputs[0]], nodes=[else_n], name="else_g")
    n3 = ir.node(
        "If",
        [cond],
        outputs=[fval("r")],
        attributes={"then_branch": then_g, "else_branch": else_g},
        name="n3",
    )
    r = n3.outputs[0]
    # optional (None) input in the middle and a duplicated input
    n4 = ir.node("Sum", [r, None, w], outputs=[fval("s")], name="n4")
    s = n4.outputs[0]
    n5 = ir.node("Add", [s, s], outputs=[fval("out")], name="n5")
    out = n5.outputs[0]
    graph = ir.Graph(
        [cond, x, y, unused],
        [out, n2.outputs[0]],
        nodes=[n0, n1, n2, n3, n4, n5],
        initializers=[w, w2, w_dead],
        name="main",
        opset_imports={"": 20},
    )
    return graph


def evaluate(graph, feeds):
    """feeds: name -> array for values without producer. Returns name -> array."""
    env = {}

    def lookup(v):
        if v in env:
            return env[v]
        if v.const_value is not None and v.producer() is None:
            return v.const_value.numpy()
        return feeds[v.name]

    def run(g):
        for node in g:
            ins = [lookup(v) for v in node.inputs if v is not None]
            op = node.op_type
            if op == "Add":
                res = ins[0] + ins[1]
            elif op == "Mul":
                res = ins[0] * ins[1]
            elif op == "Sub":
                res = ins[0] - ins[1]
            elif op == "Identity":
                res = ins[0]
            elif op == "Sum":
                res = sum(ins[1:], ins[0])
            elif op == "If":
                branch = "then_branch" if bool(ins[0]) else "else_branch"
                sub = node.attributes[branch].as_graph()
                run(sub)
                res = lookup(sub.outputs[0])
            else:
                raise AssertionError(op)
            env[node.outputs[0]] = res

    run(graph)
    return {v.name: a for v, a in env.items()}


def all_objects(g):
    """Identity set of every graph / node / value reachable from g."""
    objs = {id(g)}
    for v in list(g.inputs) + list(g.outputs) + list(g.initializers.values()):
        objs.add(id(v))
    for node in ir.traversal.RecursiveGraphIterator(g):
        objs.add(id(node))
        objs.add(id(node.graph))
        for v in list(node.inputs) + list(node.outputs):
            if v is not None:
                objs.add(id(v))
        for attr in node.attributes.values():
            objs.add(id(attr.value))
    return objs


def names(nodes):
    return [n.name for n in nodes]


def expect_value_error(fn, *fragments):
    try:
        fn()
    except ValueError as e:
        for frag in fragments:
            assert frag in str(e), (frag, str(e))
        return str(e)
    raise AssertionError("ValueError expected")


def captures(g):
    return {
        sub.name: sorted(v.name for v in vals) for sub, vals in analyze_implicit_usage(g).items()
    }


def main():
    graph = build()
    vals = ir.convenience.create_value_mapping(graph, include_subgraphs=True)
    src_objs = all_objects(graph)
    src_nodes_before = names(graph)
    feeds = {
        "x": np.array([1.0, -2.0, 0.5], dtype=np.float32),
        "y": np.array([3.0, 4.0, -1.0], dtype=np.float32),
    }

    # ---- implicit capture analysis on the source
    expected_caps = {
        "then_g": ["a", "b", "cond", "w2"],
        "inner_then": ["b", "t"],
        "inner_else": ["b"],
        "else_g": ["x"],
    }
    assert captures(graph) == expected_caps, captures(graph)

    # ---- 1. whole region by names: dead branch and dead initializer dropped
    sub = ir.convenience.extract(graph, ["cond", "x", "y"], ["out"])
    assert isinstance(sub, ir.Graph)
    assert names(sub) == ["n0", "n1", "n3", "n4", "n5"], names(sub)
    assert sorted(sub.initializers) == ["w", "w2"], sorted(sub.initializers)
    assert [v.name for v in sub.inputs] == ["cond", "x", "y"]
    assert [v.name for v in sub.outputs] == ["out"]
    assert not (all_objects(sub) & src_objs), "extracted graph shares objects with the source"
    assert captures(sub) == expected_caps, captures(sub)
    for c in (True, False):
        f = dict(feeds, cond=np.array(c))
        np.testing.assert_array_equal(evaluate(sub, f)["out"], evaluate(graph, f)["out"])

    # ---- 2. bounded region, boundary given by objects (one of them unused: x is
    # needed only by else_g; y is not needed at all), duplicated output
    a, b, cond, x, y, r = (vals[k] for k in ("a", "b", "cond", "x", "y", "r"))
    sub2 = ir.convenience.extract(graph, [a, b, cond, x, y], [r])
    assert names(sub2) == ["n3"], names(sub2)
    assert sorted(sub2.initializers) == ["w2"], sorted(sub2.initializers)
    assert not (all_objects(sub2) & src_objs)
    assert captures(sub2) == expected_caps
    for c in (True, False):
        f = dict(feeds, cond=np.array(c))
        full = evaluate(graph, f)
        got = evaluate(sub2, dict(f, a=full["a"], b=full["b"]))
        np.testing.assert_array_equal(got["r"], full["r"])

    # mixed names / objects, region from an intermediate value with optional None input
    sub3 = ir.convenience.extract(graph, ["r"], [vals["s"], "out"])
    assert names(sub3) == ["n4", "n5"], names(sub3)
    assert sorted(sub3.initializers) == ["w"]
    assert sub3.node(0).inputs[1] is None
    assert sub3.node(1).inputs[0] is sub3.node(1).inputs[1] is sub3.node(0).outputs[0]
    assert [v.name for v in sub3.outputs] == ["s", "out"]
    assert not (all_objects(sub3) & src_objs)

    # region with no node at all
    sub4 = ir.convenience.extract(graph, ["x"], ["x"])
    assert names(sub4) == [] and len(sub4.initializers) == 0
    assert sub4.inputs[0] is sub4.outputs[0] and sub4.inputs[0] is not x

    # an initializer as output and no inputs at all
    sub5 = ir.convenience.extract(graph, [], ["w2"])
    assert names(sub5) == [] and sorted(sub5.initializers) == ["w2"]

    # ---- 3. rejected calls
    # b is needed only two levels down; not being covered, its producer n1 is pulled
    # in, which needs the graph input y
    expect_value_error(
        lambda: ir.convenience.extract(graph, [a, cond, x], [r]),
        "not properly bounded",
        "not provided: y",
    )
    sub7 = ir.convenience.extract(graph, [a, cond, x, y], [r])
    assert names(sub7) == ["n1", "n3"], names(sub7)
    expect_value_error(
        lambda: ir.convenience.extract(graph, ["x", "y"], ["out"]), "not provided: cond"
    )
    # t lives in a nested graph: not found by name, not owned when given as object
    expect_value_error(lambda: ir.convenience.extract(graph, ["x"], ["t"]), "'t' not found")
    expect_value_error(
        lambda: ir.convenience.extract(graph, ["x"], [vals["t"]]), "does not belong", "(main)"
    )
    expect_value_error(lambda: ir.convenience.extract(graph, ["nope"], ["out"]), "'nope'")
    expect_value_error(lambda: ir.convenience.extract(graph, ["x"], []), "At least one output")
    other = build()
    expect_value_error(
        lambda: ir.convenience.extract(graph, [other.inputs[1]], ["out"]), "does not belong"
    )

    # ---- 4. graph view and function
    view = ir.GraphView(
        graph.inputs, graph.outputs, nodes=list(graph), initializers=list(graph.initializers.values()), name="v"
    )
    sub6 = ir.convenience.extract(view, [a, y, cond, x], ["out"])
    assert names(sub6) == ["n1", "n3", "n4", "n5"], names(sub6)
    assert sorted(sub6.initializers) == ["w", "w2"]
    assert not (all_objects(sub6) & src_objs)
    for c in (True, False):
        f = dict(feeds, cond=np.array(c))
        full = evaluate(graph, f)
        np.testing.assert_array_equal(evaluate(sub6, dict(f, a=full["a"]))["out"], full["out"])

    fgraph = build()
    # a function has no initializers: make them plain inputs
    inits = list(fgraph.initializers.values())
    for v in inits:
        del fgraph.initializers[v.name]
        v.const_value = None
        fgraph.inputs.append(v)
    func = ir.Function("dom", "fn", graph=fgraph, attributes=[])
    fsub = ir.convenience.extract(func, ["cond", "x", "y", "w", "w2"], ["out"])
    assert names(fsub) == ["n0", "n1", "n3", "n4", "n5"]
    assert len(fsub.initializers) == 0
    assert not (all_objects(fsub) & all_objects(fgraph))
    expect_value_error(
        lambda: ir.convenience.extract(func, ["cond", "x", "y", "w2"], ["out"]), "not provided: w"
    )
    assert captures(fgraph) == expected_caps

    # ---- the source is untouched
    assert names(graph) == src_nodes_before
    assert all_objects(graph) == src_objs
    assert captures(graph) == expected_caps
    print("C18 demo: all checks passed")
    return 0


if __name__ == "__main__":
    sys.exit(main())
