"""Demo for C07 (safetensors backend): save_safetensors / load round trip.

Exercises src/onnx_ir/_safetensors/__init__.py::_save_file (shard naming, shard
serialisation, replacement of the initializers) through the public API only.
Exits 0 when every check passes.
"""

from __future__ import annotations

import json
import os
import struct
import sys
import tempfile

import numpy as np

import onnx_ir as ir


def _value(name, array=None, tensor=None):
    if tensor is None:
        tensor = ir.tensor(array, name=name)
    v = ir.Value(name=name, shape=tensor.shape, type=ir.TensorType(tensor.dtype))
    v.const_value = tensor
    return v


def make_model():
    rng = np.random.default_rng(7)
    shared = ir.tensor(rng.standard_normal((16, 8)).astype(np.float32), name="dup_a")
    packed = ir.Tensor(
        np.arange(-8, 8, dtype=np.int8).astype(ir.DataType.INT4.numpy()),
        dtype=ir.DataType.INT4,
        name="int4",
    )
    lazy = ir.LazyTensor(
        lambda: ir.tensor(np.arange(300, dtype=np.int64), name="lazy"),
        dtype=ir.DataType.INT64,
        shape=ir.Shape([300]),
        name="lazy",
    )
    main_inits = [
        _value("big", rng.standard_normal((64, 32)).astype(np.float32)),  # 8192 B
        _value("small", np.array([1, 2, 3], dtype=np.int32)),  # 12 B, inline
        _value("dup_a", tensor=shared),  # 512 B
        _value("dup_b", tensor=shared),  # same tensor object again
        _value("int4", tensor=packed),  # 8 B sub-byte
        _value("lazy", tensor=lazy),  # 2400 B
        _value("empty", np.zeros((0, 4), dtype=np.float32)),  # 0 B
        _value("f16", rng.standard_normal((40, 40)).astype(np.float16)),  # 3200 B
        _value("huge", rng.integers(0, 255, size=(20000,), dtype=np.uint8)),  # oversized
        _value("u8", np.arange(700, dtype=np.uint8)),
    ]
    # subgraph initializers (then / else branch of an If)
    then_init = _value("then_w", rng.standard_normal((30, 10)).astype(np.float64))  # 2400 B
    else_init = _value("else_w", np.arange(500, dtype=np.int16))  # 1000 B
    then_out = ir.Value(name="then_out")
    else_out = ir.Value(name="else_out")
    then_g = ir.Graph(
        [],
        [then_out],
        nodes=[ir.Node("", "Identity", [then_init], outputs=[then_out])],
        initializers=[then_init],
        name="then_g",
    )
    else_g = ir.Graph(
        [],
        [else_out],
        nodes=[ir.Node("", "Identity", [else_init], outputs=[else_out])],
        initializers=[else_init],
        name="else_g",
    )
    cond = ir.Value(name="cond", shape=ir.Shape([]), type=ir.TensorType(ir.DataType.BOOL))
    out = ir.Value(name="out")
    if_node = ir.Node(
        "",
        "If",
        [cond],
        attributes=[ir.AttrGraph("then_branch", then_g), ir.AttrGraph("else_branch", else_g)],
        outputs=[out],
    )
    graph = ir.Graph(
        [cond],
        [out],
        nodes=[if_node],
        initializers=main_inits,
        opset_imports={"": 20},
        name="main",
    )
    return ir.Model(graph, ir_version=10)


def initializer_values(model):
    return [v for g in model.graphs() for v in g.initializers.values()]


def snapshot(model):
    """name -> (dtype, shape, bytes) of every initializer, in declaration order."""
    result = {}
    for v in initializer_values(model):
        t = v.const_value
        result[v.name] = (t.dtype, tuple(t.shape.numpy()), t.tobytes())
    return result


def read_header(path):
    with open(path, "rb") as f:
        (n,) = struct.unpack("<Q", f.read(8))
        header = json.loads(f.read(n).decode("utf-8"))
    header.pop("__metadata__", None)
    return header, 8 + n


def check(cond, msg):
    if not cond:
        print("FAIL:", msg)
        sys.exit(1)


def round_trip(directory, filename, threshold, max_shard):
    model = make_model()
    expected = snapshot(model)
    values = initializer_values(model)
    objects_before = [v.const_value for v in values]
    order = [v.name for v in values]
    path = os.path.join(directory, filename)
    os.makedirs(os.path.dirname(path), exist_ok=True)
    calls = []

    def callback(tensor, info):
        calls.append((tensor.name, info.index, info.total, info.filename, info.shard_index, info.shard_total, info.offset))

    ir.save_safetensors(
        model, path, size_threshold_bytes=threshold, max_shard_size_bytes=max_shard, callback=callback
    )

    # the model holds the same tensor objects afterwards
    check(
        all(a is b for a, b in zip(objects_before, [v.const_value for v in values])),
        "model changed by save_safetensors",
    )

    external_names = [n for n in order if len(expected[n][2]) >= threshold]
    # callbacks: one per external tensor, globally contiguous, declaration order
    check([c[1] for c in calls] == list(range(len(external_names))), f"callback indices {calls}")
    check(all(c[2] == len(external_names) for c in calls), "callback totals")
    running = 0
    for name, c in zip(external_names, calls):
        check(c[6] == running, "callback offset")
        running += len(expected[name][2])

    loaded = ir.load(path)
    got = snapshot(loaded)
    check(list(got) == order, f"initializer order/names differ: {list(got)} vs {order}")
    for name in order:
        check(got[name][0] == expected[name][0], f"dtype of {name}")
        check(got[name][1] == expected[name][1], f"shape of {name}")
        check(got[name][2] == expected[name][2], f"bytes of {name}")

    files_seen = []
    per_file = {}
    for v in initializer_values(loaded):
        t = v.const_value
        if v.name in external_names:
            check(isinstance(t, ir.ExternalTensor), f"{v.name} should be external")
            if t.location not in per_file:
                files_seen.append(t.location)
            per_file.setdefault(t.location, []).append((v.name, t.offset, t.length))
        else:
            check(not isinstance(t, ir.ExternalTensor), f"{v.name} should be inline")

    # expected shard file names
    stem = os.path.splitext(os.path.basename(path))[0] if "." in os.path.basename(path) else os.path.basename(path)
    n_files = len(files_seen)
    if n_files == 0:
        check(external_names == [], "external tensors without a file")
    elif n_files == 1:
        check(files_seen == [f"{stem}.safetensors"], f"single file name {files_seen}")
    else:
        check(
            files_seen == [f"{stem}-{i:05d}-of-{n_files:05d}.safetensors" for i in range(1, n_files + 1)],
            f"shard names {files_seen}",
        )
        index_path = os.path.join(os.path.dirname(path), f"{stem}.safetensors.index.json")
        with open(index_path) as f:
            index = json.load(f)
        check(list(index["weight_map"]) == external_names, "weight_map order")
        for loc, entries in per_file.items():
            for name, _, _ in entries:
                check(index["weight_map"][name] == loc, f"weight_map of {name}")
        check(
            index["metadata"]["total_size"] == sum(len(expected[n][2]) for n in external_names),
            "total_size",
        )
    check([c[3] for c in calls] == [loc for loc in files_seen for _ in per_file[loc]], "callback filenames")
    check(
        [(c[4], c[5]) for c in calls]
        == [(i, len(per_file[loc])) for loc in files_seen for i in range(len(per_file[loc]))],
        "callback shard index/total",
    )

    # layout of every file
    flat = []
    for loc in files_seen:
        entries = per_file[loc]
        file_path = os.path.join(os.path.dirname(path), loc)
        size = os.path.getsize(file_path)
        header, data_start = read_header(file_path)
        check(sorted(header) == sorted(n for n, _, _ in entries), f"entries of {loc}")
        end = data_start
        payload = 0
        # safetensors orders the payload itself (by dtype, then name): only
        # require disjoint ranges inside the data section
        for name, offset, length in sorted(entries, key=lambda e: (e[1], e[2])):
            check(offset >= end, f"{name}: overlaps another entry in {loc}")
            check(offset + length <= size, f"{name}: outside {loc}")
            check(length == len(expected[name][2]), f"{name}: length")
            end = offset + length
            payload += length
        flat.extend(name for name, _, _ in entries)
        if max_shard is not None and payload > max_shard:
            check(len(entries) == 1, f"{loc} exceeds the limit with {len(entries)} tensors")
    # every tensor in exactly one shard, in declaration order
    check(flat == external_names, f"shard membership {flat}")
    return n_files


def rejected_calls(directory):
    # 1. duplicate initializer names in main graph and subgraph: rejected before anything is written
    model = make_model()
    sub_value = next(v for v in initializer_values(model) if v.name == "then_w")
    sub_value.name = "big"
    before = [v.const_value for v in initializer_values(model)]
    path = os.path.join(directory, "dupname", "m.onnx")
    os.makedirs(os.path.dirname(path))
    try:
        ir.save_safetensors(model, path, size_threshold_bytes=0)
    except ValueError as e:
        check("Duplicate initializer name" in str(e), f"message: {e}")
    else:
        check(False, "duplicate names accepted")
    check(os.listdir(os.path.dirname(path)) == [], "files written by a rejected call")
    check(
        all(a is b for a, b in zip(before, [v.const_value for v in initializer_values(model)])),
        "model changed by rejected call",
    )

    # 2. callback raising half-way through the second shard
    model = make_model()
    before = [v.const_value for v in initializer_values(model)]
    path = os.path.join(directory, "raising", "m.v2.onnx")
    os.makedirs(os.path.dirname(path))
    seen = []

    class Boom(Exception):
        pass

    def callback(tensor, info):
        seen.append(info.filename)
        if len(set(seen)) == 2:
            raise Boom(info.filename)

    try:
        ir.save_safetensors(model, path, size_threshold_bytes=1, max_shard_size_bytes=4000, callback=callback)
    except Boom as e:
        first, second = list(dict.fromkeys(seen))
        check(str(e) == second, "raised from the second shard")
        total = int(first.rsplit("-of-", 1)[1].split(".")[0])
        check(first == f"m.v2-00001-of-{total:05d}.safetensors", f"first shard name {first}")
        check(second == f"m.v2-00002-of-{total:05d}.safetensors", f"second shard name {second}")
        # exactly the shards before the failing one exist; no index, no model file
        check(sorted(os.listdir(os.path.dirname(path))) == [first], f"files {os.listdir(os.path.dirname(path))}")
    else:
        check(False, "callback exception swallowed")
    check(
        all(a is b for a, b in zip(before, [v.const_value for v in initializer_values(model)])),
        "model changed after a raising save",
    )


def main():
    with tempfile.TemporaryDirectory() as d:
        n = round_trip(d, "plain/model.onnx", threshold=256, max_shard=None)
        check(n == 1, "one file expected")
        # threshold 0: zero-size and sub-byte tensors go external too
        round_trip(d, "zero/model.onnx", threshold=0, max_shard=None)
        # sharded, dotted stem, nested sub-directory, oversized single tensor
        n = round_trip(d, "sub/dir/model.fp16.onnx", threshold=1, max_shard=4000)
        check(n > 2, f"expected several shards, got {n}")
        n = round_trip(d, "sh0/noext", threshold=0, max_shard=9000)
        check(n > 1, "expected shards")
        # limit larger than everything: still one file and no index
        n = round_trip(d, "one/model.onnx", threshold=100, max_shard=10**9)
        check(n == 1, "one file expected")
        check(not os.path.exists(os.path.join(d, "one", "model.safetensors.index.json")), "index for one shard")
        # everything below the threshold: nothing external, no data file
        n = round_trip(d, "none/model.onnx", threshold=10**9, max_shard=5)
        check(n == 0 and sorted(os.listdir(os.path.join(d, "none"))) == ["model.onnx"], "no data file expected")
        rejected_calls(d)
    print("OK")


if __name__ == "__main__":
    main()
