"""Demo for C14 around RemoveUnusedNodesPass (dead code elimination in nested graphs).

Checks, through the public API only: in-place identity, honest modified flag,
fixpoint on the second application, use-def / ownership consistency, topological
order, and a rejected call (a reference attribute of type GRAPH on a kept node).
"""

from __future__ import annotations

import sys

import onnx

import onnx_ir as ir
import onnx_ir.passes.common as common

MODEL_TEXT = """
<ir_version: 10, opset_import: [ "" : 17, "custom" : 1]>
agraph (float[N] x, bool c) => (float[N] z, float[N] m, float[N] z2)
<float two = {2.0}, float unused_init = {3.0}> {
    dead0 = Add(two, two)
    dead1 = Mul(dead0, x)
    z = If (c) <
        then_branch = then_g () => (float[N] t_out) {
            t_dead = Neg(x)
            t_dead2 = Abs(t_dead)
            t_out = If (c) <
                then_branch = inner_then () => (float[N] it_out) {
                    it_dead = Relu(x)
                    it_out = Mul(x, two)
                },
                else_branch = inner_else () => (float[N] ie_out) {
                    ie_out = Identity(x)
                }
            >
        },
        else_branch = else_g () => (float[N] e_out) {
            e_out = Add(x, x)
        }
    >
    m, idx = MaxPool <kernel_shape = [1]> (x)
    k = custom.Keep (x)
    z2 = custom.local_fn (k)
}
<domain: "custom", opset_import: [ "" : 17]>
local_fn (a) => (b) {
    f_dead = Neg(a)
    b, mask = Dropout (a)
}
"""


def build() -> ir.Model:
    return ir.serde.deserialize_model(onnx.parser.parse_model(MODEL_TEXT))


def dump(model: ir.Model) -> bytes:
    return ir.serde.serialize_model(model).SerializeToString(deterministic=True)


def all_graphs(model: ir.Model):
    seen = [model.graph]
    for node in ir.traversal.RecursiveGraphIterator(model.graph):
        for attr in node.attributes.values():
            if attr.type == ir.AttributeType.GRAPH:
                seen.append(attr.as_graph())
            elif attr.type == ir.AttributeType.GRAPHS:
                seen.extend(attr.as_graphs())
    return seen


def check_links(model: ir.Model) -> None:
    graph_likes = list(all_graphs(model)) + list(model.functions.values())
    for graph_like in graph_likes:
        position = {}
        for i, node in enumerate(graph_like):
            position[node] = i
            owner = node.graph
            expected = graph_like if isinstance(graph_like, ir.Graph) else owner
            assert owner is expected, f"ownership of {node.name} broken"
            for index, value in enumerate(node.inputs):
                if value is None:
                    continue
                assert (node, index) in {(u.node, u.idx) for u in value.uses()}
                producer = value.producer()
                if producer is not None:
                    assert producer.graph is not None, "input produced by a removed node"
            for index, value in enumerate(node.outputs):
                assert value.producer() is node and value.index() == index
                for use in value.uses():
                    assert use.node.graph is not None, "use by a removed node"
                    assert use.node.inputs[use.idx] is value
        # topological order inside one graph
        for node in graph_like:
            for value in node.inputs:
                if value is None or value.producer() is None:
                    continue
                producer = value.producer()
                if producer in position:
                    assert position[producer] < position[node], "order broken"


def node_names(graph_like) -> list[str]:
    return [n.op_type for n in graph_like]


def main() -> int:
    # ---- 1. nested model: identity, flag, result, fixpoint -------------------------
    model = build()
    before = dump(model)
    result = common.RemoveUnusedNodesPass()(model)
    assert result.model is model, "in-place pass must return its input"
    after = dump(model)
    assert result.modified is True and after != before
    check_links(model)

    assert node_names(model.graph) == ["If", "MaxPool", "Keep", "local_fn"], node_names(
        model.graph
    )
    assert list(model.graph.initializers) == ["two"], list(model.graph.initializers)
    maxpool = model.graph[1]
    assert len(maxpool.outputs) == 1  # unused optional output dropped
    if_node = model.graph[0]
    then_g = if_node.attributes["then_branch"].as_graph()
    else_g = if_node.attributes["else_branch"].as_graph()
    assert node_names(then_g) == ["If"] and node_names(else_g) == ["Add"]
    inner = then_g[0]
    assert node_names(inner.attributes["then_branch"].as_graph()) == ["Mul"]
    assert node_names(inner.attributes["else_branch"].as_graph()) == ["Identity"]
    (function,) = model.functions.values()
    assert node_names(function) == ["Dropout"] and len(function[0].outputs) == 1
    assert [v.name for v in model.graph.inputs] == ["x", "c"]
    assert [v.name for v in model.graph.outputs] == ["z", "m", "z2"]

    second = common.RemoveUnusedNodesPass()(model)
    assert second.model is model and second.modified is False
    assert dump(model) == after, "second application must change nothing"

    # ---- 2. GRAPHS attribute (several graphs in one attribute) + zero-output node --
    def small_graph(tag: str) -> ir.Graph:
        a = ir.Value(name=f"{tag}_a")
        live = ir.node("Relu", [a], name=f"{tag}_live")
        live.outputs[0].name = f"{tag}_out"
        dead = ir.node("Neg", [a], name=f"{tag}_dead")
        dead.outputs[0].name = f"{tag}_dead_out"
        return ir.Graph([a], [live.outputs[0]], nodes=[live, dead], name=tag)

    x = ir.Value(name="x", type=ir.TensorType(ir.DataType.FLOAT), shape=ir.Shape([1]))
    g0, g1, g2 = small_graph("g0"), small_graph("g1"), small_graph("g2")
    multi = ir.node(
        "Multi",
        [x, None, None],
        domain="custom",
        attributes={"bodies": [g0, g1], "alpha": 1.0, "single": g2},
        name="multi",
    )
    multi.outputs[0].name = "y"
    sink = ir.Node("custom", "Sink", [x], num_outputs=0, name="sink")
    graph = ir.Graph(
        [x], [multi.outputs[0]], nodes=[multi, sink], opset_imports={"custom": 1}, name="top"
    )
    model2 = ir.Model(graph, ir_version=10)
    before2 = dump(model2)
    result2 = common.RemoveUnusedNodesPass()(model2)
    assert result2.model is model2 and result2.modified is True
    assert dump(model2) != before2
    assert node_names(graph) == ["Multi"]  # the output-less node is unused
    assert len(multi.inputs) == 1  # trailing None inputs trimmed
    for g in (g0, g1, g2):
        assert node_names(g) == ["Relu"], node_names(g)
    check_links(model2)
    after2 = dump(model2)
    again2 = common.RemoveUnusedNodesPass()(model2)
    assert again2.modified is False and dump(model2) == after2

    # ---- 3. empty graph: nothing to do -------------------------------------------
    empty = ir.Model(ir.Graph([], [], nodes=[], opset_imports={"": 17}), ir_version=10)
    before3 = dump(empty)
    result3 = common.RemoveUnusedNodesPass()(empty)
    assert result3.model is empty and result3.modified is False
    assert dump(empty) == before3

    # ---- 4. reference attribute of type GRAPH on a kept node ------------------------
    xr = ir.Value(name="xr")
    first = ir.node("Neg", [xr], name="dead_after")  # visited only after the failure
    first.outputs[0].name = "unused"
    holder = ir.node(
        "Holder",
        [xr],
        domain="custom",
        attributes={"body": ir.RefAttr("body", "outer_body", ir.AttributeType.GRAPH)},
        name="holder",
    )
    holder.outputs[0].name = "yr"
    tail = ir.node("Abs", [xr], name="dead_before")  # visited (and removed) before it
    tail.outputs[0].name = "unused2"
    fn = ir.Function(
        "custom",
        "with_ref",
        graph=ir.Graph(
            [xr], [holder.outputs[0]], nodes=[first, holder, tail], opset_imports={"": 17}
        ),
        attributes=[],
    )
    host_in = ir.Value(name="h")
    call = ir.node("with_ref", [host_in], domain="custom", name="call")
    call.outputs[0].name = "hy"
    model4 = ir.Model(
        ir.Graph(
            [host_in], [call.outputs[0]], nodes=[call], opset_imports={"": 17, "custom": 1}
        ),
        ir_version=10,
        functions=[fn],
    )
    # (Before the repair 37c3965 of the library this call ended in TypeError; a reference attribute is now skipped.)
    result4 = common.RemoveUnusedNodesPass()(model4)
    assert result4.modified is True
    # Both dead nodes are removed, the node holding the reference attribute stays.
    assert node_names(fn) == ["Holder"], node_names(fn)
    assert tail.graph is None and first.graph is None
    assert node_names(model4.graph) == ["with_ref"]
    # The same through a pass manager: nothing left to do.
    result4b = ir.passes.PassManager([common.RemoveUnusedNodesPass()])(model4)
    assert result4b.modified is False
    assert node_names(fn) == ["Holder"], node_names(fn)

    # ---- 5. composition in a pass manager reaches a fixpoint -----------------------
    model5 = build()
    manager = ir.passes.PassManager(
        [
            common.RemoveUnusedNodesPass(),
            common.RemoveUnusedFunctionsPass(),
            common.RemoveUnusedOpsetsPass(),
            common.TopologicalSortPass(),
        ],
        steps=3,
        early_stop=True,
    )
    result5 = manager(model5)
    assert result5.model is model5 and result5.modified is True
    check_links(model5)
    state5 = dump(model5)
    again5 = manager(model5)
    assert again5.model is model5 and again5.modified is False
    assert dump(model5) == state5
    # Same end state as the single pass followed by the (no-op) others.
    assert node_names(model5.graph) == ["If", "MaxPool", "Keep", "local_fn"]

    # ---- 6. analysis-only pass leaves the cleaned model untouched -----------------
    model6 = ir.serde.deserialize_model(
        onnx.parser.parse_model(
            """
            <ir_version: 10, opset_import: [ "" : 17]>
            agraph (float[N] x) => (float[N] z) <float two = {2.0}> {
                dead = Add(two, two)
                z = Mul(x, two)
            }
            """
        )
    )
    common.RemoveUnusedNodesPass()(model6)
    state6 = dump(model6)
    checked = common.CheckerPass()(model6)
    assert checked.model is model6 and checked.modified is False
    assert dump(model6) == state6 and list(model6.graph.initializers) == ["two"]

    print("C14 demo OK")
    return 0


if __name__ == "__main__":
    sys.exit(main())
