"""Demo for C13: clones are faithful and fully independent of their originals.

Exercises Cloner.clone_node (input mapping, output registration) through the
public API: Model.clone, Graph.clone, GraphView.clone, Function.clone.
"""

import numpy as np

import onnx_ir as ir


def ser(model: ir.Model) -> bytes:
    return ir.to_proto(model).SerializeToString(deterministic=True)


def ser_graph(graph) -> bytes:
    return ir.to_proto(graph).SerializeToString(deterministic=True)


def ftype():
    return ir.TensorType(ir.DataType.FLOAT)


def build_model(ir_version=10):
    x = ir.Value(name="x", shape=ir.Shape([4, "N"]), type=ftype())
    cond = ir.Value(name="cond", shape=ir.Shape([]), type=ir.TensorType(ir.DataType.BOOL))
    w = ir.Value(
        name="w",
        shape=ir.Shape([4, 1]),
        type=ftype(),
        const_value=ir.tensor(np.ones((4, 1), dtype=np.float32), name="w"),
    )
    w.metadata_props["init_key"] = "init_val"

    # duplicate inputs (x used twice) and a None (omitted optional) input
    dup = ir.Node("", "Add", [x, x], outputs=[ir.Value(name="dup")], name="dup_node")
    dup.outputs[0].shape = ir.Shape([4, "N"])
    dup.outputs[0].type = ftype()
    dup.outputs[0].metadata_props["vk"] = "vv"
    dup.outputs[0].meta["scratch"] = {"a": [1, 2]}
    dup.metadata_props["nk"] = "nv"
    dup.meta["node_scratch"] = ["z"]
    opt = ir.Node(
        "", "Clip", [dup.outputs[0], None, w], outputs=[ir.Value(name="clipped")], name="clip"
    )

    # Nested subgraphs capturing outer-scope values (dup output and w)
    def branch(name, op):
        inner = ir.Node(
            "", op, [dup.outputs[0], w], outputs=[ir.Value(name=f"{name}_out")], name=name
        )
        # second-level nesting that captures both an outer-outer value and a local value
        leaf = ir.Node(
            "", "Mul", [inner.outputs[0], x], outputs=[ir.Value(name=f"{name}_leaf")], name=f"{name}_leafn"
        )
        leaf_graph = ir.Graph([], [leaf.outputs[0]], nodes=[leaf], name=f"{name}_leafg")
        inner_if = ir.Node(
            "",
            "If",
            [cond],
            [
                ir.AttrGraph("then_branch", leaf_graph),
                ir.AttrGraph(
                    "else_branch",
                    ir.Graph([], [], nodes=[], name=f"{name}_empty"),  # empty graph
                ),
            ],
            outputs=[ir.Value(name=f"{name}_ifout")],
            name=f"{name}_if",
        )
        return ir.Graph(
            [], [inner_if.outputs[0]], nodes=[inner, inner_if], name=f"{name}_graph"
        )

    then_g = branch("then", "Add")
    else_g = branch("else", "Sub")
    if_node = ir.Node(
        "",
        "If",
        [cond],
        [ir.AttrGraph("then_branch", then_g), ir.AttrGraph("else_branch", else_g)],
        outputs=[ir.Value(name="y")],
        name="if_node",
    )
    graph = ir.Graph(
        [x, cond],
        [if_node.outputs[0], opt.outputs[0], x],  # a graph input that is also an output
        nodes=[dup, opt, if_node],
        initializers=[w],
        opset_imports={"": 18},
        name="main",
    )
    graph.metadata_props["gk"] = "gv"
    model = ir.Model(graph, ir_version=ir_version)

    # A function with a ref attribute and a nested graph
    fx = ir.Value(name="fx", type=ftype())
    fn_node = ir.Node(
        "",
        "LeakyRelu",
        [fx],
        [ir.RefAttr("alpha", "alpha", ir.AttributeType.FLOAT)],
        outputs=[ir.Value(name="fy")],
        name="fn_node",
    )
    fgraph = ir.Graph([fx], [fn_node.outputs[0]], nodes=[fn_node], opset_imports={"": 18})
    func = ir.Function(
        "custom", "Leaky", "", graph=fgraph, attributes=[ir.AttrFloat32("alpha", 0.5)]
    )
    model.functions[func.identifier()] = func
    return model, dict(x=x, cond=cond, w=w, dup=dup, opt=opt, if_node=if_node, then_g=then_g)


def all_graph_objects(graph):
    objs = {id(graph)}
    for v in list(graph.inputs) + list(graph.initializers.values()):
        objs.add(id(v))
        if v.shape is not None:
            objs.add(id(v.shape))
    for node in ir.traversal.RecursiveGraphIterator(graph):
        objs.add(id(node))
        for o in node.outputs:
            objs.add(id(o))
            if o.shape is not None:
                objs.add(id(o.shape))
        for a in node.attributes.values():
            if a.type == ir.AttributeType.GRAPH:
                objs.add(id(a.as_graph()))
    return objs


def check_refs_inside(graph, allowed_outer=()):
    """Every value used in `graph` (recursively) belongs to the clone."""
    own = set()
    for v in list(graph.inputs) + list(graph.initializers.values()):
        own.add(id(v))
    nodes = list(ir.traversal.RecursiveGraphIterator(graph))
    for node in nodes:
        for o in node.outputs:
            own.add(id(o))
    allowed = {id(v) for v in allowed_outer}
    for node in nodes:
        for i in node.inputs:
            if i is not None:
                assert id(i) in own or id(i) in allowed, (node, i)


def main():
    model, h = build_model()
    before = ser(model)

    # ---- Model.clone: faithful and disjoint
    clone = model.clone()
    assert ser(clone) == before
    assert not (all_graph_objects(model.graph) & all_graph_objects(clone.graph))
    check_refs_inside(clone.graph)
    c_dup, c_opt, c_if = list(clone.graph)
    # duplicates map to one and the same cloned value; None stays None
    assert c_dup.inputs[0] is c_dup.inputs[1] is clone.graph.inputs[0]
    assert c_opt.inputs[1] is None
    assert c_opt.inputs[2] is clone.graph.initializers["w"] is not h["w"]
    assert clone.graph.outputs[2] is clone.graph.inputs[0]
    # tensors may be shared
    assert clone.graph.initializers["w"].const_value is h["w"].const_value
    # metadata containers are new objects with same contents
    assert c_dup.metadata_props == {"nk": "nv"} and c_dup.metadata_props is not h["dup"].metadata_props
    assert c_dup.outputs[0].metadata_props == {"vk": "vv"}
    assert c_dup.outputs[0].meta["scratch"] is h["dup"].outputs[0].meta["scratch"]  # shallow
    assert c_dup.meta["node_scratch"] == ["z"]
    deep = model.clone(deep_copy=True)
    d_dup = deep.graph[0]
    assert d_dup.outputs[0].meta["scratch"] == {"a": [1, 2]}
    assert d_dup.outputs[0].meta["scratch"] is not h["dup"].outputs[0].meta["scratch"]
    assert ser(deep) == before

    # ---- edit the clone every which way; original unchanged
    c_dup.outputs[0].name = "renamed"
    c_dup.outputs[0].shape = ir.Shape([1])
    c_dup.outputs[0].type = ir.TensorType(ir.DataType.INT64)
    c_dup.outputs[0].metadata_props["vk"] = "changed"
    c_dup.metadata_props.clear()
    c_dup.attributes["extra"] = ir.AttrInt64("extra", 1)
    c_dup.replace_input_with(1, clone.graph.inputs[1])
    clone.graph.initializers["w"].const_value = ir.tensor(np.zeros((4, 1), dtype=np.float32), name="w")
    clone.graph.initializers["w"].metadata_props["init_key"] = "other"
    clone.graph.metadata_props["gk"] = "other"
    inner_then = c_if.attributes["then_branch"].as_graph()
    inner_then[0].replace_input_with(1, clone.graph.inputs[0])
    inner_then.name = "other_name"
    leaf_g = inner_then[1].attributes["then_branch"].as_graph()
    leaf_g[0].op_type = "Div"
    clone.graph.remove(c_opt)
    clone.graph.outputs.pop()
    for f in clone.functions.values():
        f[0].op_type = "Relu"
        f.attributes.clear()
    assert ser(model) == before, "editing the clone altered the original"
    assert ser(clone) != before

    # ---- and vice versa: edit original, earlier-taken clone unchanged
    clone2 = model.clone()
    snap2 = ser(clone2)
    h["dup"].outputs[0].name = "orig_renamed"
    h["dup"].replace_input_with(0, h["cond"])
    h["then_g"][0].op_type = "Mul"
    h["w"].metadata_props["init_key"] = "zzz"
    assert ser(clone2) == snap2 == before
    # undo
    h["dup"].outputs[0].name = "dup"
    h["dup"].replace_input_with(0, h["x"])
    h["then_g"][0].op_type = "Add"
    h["w"].metadata_props["init_key"] = "init_val"
    assert ser(model) == before

    # ---- subgraph clone with captured outer-scope values: rejected by default
    then_before = ser_graph(h["then_g"])
    try:
        h["then_g"].clone()
    except RuntimeError as e:
        chain, cur = [], e
        while cur is not None:
            chain.append(cur)
            cur = cur.__cause__
        assert [type(c) for c in chain] == [RuntimeError, RuntimeError, ValueError], chain
        assert str(chain[0]).startswith("In clone_graph with args")
        assert str(chain[1]).startswith("In clone_node with args")
        msg = str(chain[2])
        assert "is an outer-scope value (from graph 'main')" in msg and "allow_outer_scope_values" in msg
    else:
        raise AssertionError("expected an error for outer-scope values")
    assert ser_graph(h["then_g"]) == then_before and ser(model) == before

    # ---- explicitly allowed: outer values are shared, everything else is cloned
    sub = h["then_g"].clone(allow_outer_scope_values=True)
    assert ser_graph(sub) == then_before
    assert sub[0].inputs[0] is h["dup"].outputs[0] and sub[0].inputs[1] is h["w"]
    sub_leaf = sub[1].attributes["then_branch"].as_graph()[0]
    assert sub_leaf.inputs[0] is sub[0].outputs[0]  # nested ref points into the clone
    assert sub_leaf.inputs[1] is h["x"]  # outer-outer capture shared
    assert sub[1].inputs[0] is h["cond"]
    check_refs_inside(sub, allowed_outer=[h["dup"].outputs[0], h["w"], h["x"], h["cond"]])
    assert not (all_graph_objects(sub) & all_graph_objects(h["then_g"]))
    # uses of the outer values now include the clone's nodes; editing the clone's
    # nodes must not alter the original's serialization.
    sub[0].replace_input_with(0, h["x"])
    sub[0].outputs[0].name = "zz"
    assert ser_graph(h["then_g"]) == then_before and ser(model) == before

    # ---- GraphView: a value produced outside the view, listed as view input
    view = ir.GraphView(
        [h["dup"].outputs[0], h["w"]],
        [h["opt"].outputs[0]],
        nodes=[h["opt"]],
        name="view",
    )
    vclone = view.clone()
    assert isinstance(vclone, ir.Graph)
    assert ser_graph(vclone) == ser_graph(view)
    assert vclone.inputs[0] is not h["dup"].outputs[0] and vclone.inputs[0].producer() is None
    assert vclone[0].inputs[0] is vclone.inputs[0] and vclone[0].inputs[1] is None
    assert vclone[0].inputs[2] is vclone.inputs[1]
    # a view that does not list the outside value as input is rejected
    bad_view = ir.GraphView([], [h["opt"].outputs[0]], nodes=[h["opt"]])
    try:
        bad_view.clone()
    except RuntimeError as e:
        assert isinstance(e.__cause__.__cause__, ValueError)
    else:
        raise AssertionError("expected rejection")
    vclone[0].outputs[0].name = "q"
    assert ser(model) == before

    # ---- Function.clone
    (func,) = model.functions.values()
    fclone = func.clone()
    assert ir.to_proto(fclone).SerializeToString(deterministic=True) == ir.to_proto(
        func
    ).SerializeToString(deterministic=True)
    assert fclone[0] is not func[0] and fclone[0].inputs[0] is fclone.inputs[0] is not func.inputs[0]
    assert fclone[0].attributes["alpha"].is_ref()
    fclone[0].attributes.pop("alpha")
    fclone.inputs[0].name = "other"
    assert ser(model) == before

    # ---- empty graph
    empty = ir.Graph([], [], nodes=[], name="e")
    ec = empty.clone()
    assert ec is not empty and len(ec) == 0 and ser_graph(ec) == ser_graph(empty)

    # ---- device annotations are remapped onto the clone's values
    m2, _ = build_model(ir_version=11)
    n0 = m2.graph[0]
    conf = m2.add_device_configuration("conf0", num_devices=2)
    n0.shard(n0.inputs[0], configuration=conf, axis=0, num_shards=2)
    n0.shard(n0.outputs[0], configuration=conf, axis=0, num_shards=2)
    snap = ser(m2)
    c2 = m2.clone()
    assert ser(c2) == snap
    cn0 = c2.graph[0]
    vals = [s.value for dc in cn0.device_configurations for s in dc.sharding_specs]
    assert len(vals) == 2
    assert any(v is cn0.inputs[0] for v in vals) and any(v is cn0.outputs[0] for v in vals)
    assert all(v is not n0.inputs[0] and v is not n0.outputs[0] for v in vals)
    cn0.outputs[0].name = "changed"
    cn0.replace_input_with(0, c2.graph.inputs[1])
    cn0.replace_input_with(1, c2.graph.inputs[1])
    assert ser(m2) == snap

    print("C13 demo OK")


if __name__ == "__main__":
    main()
