"""C19 demo: device annotations are written with current names, gated by IR version.

Run as:
  PYTHONPATH=<tree>/src python demo.py
"""

from __future__ import annotations

import dataclasses
import logging

import onnx

import onnx_ir as ir
from onnx_ir import _multi_device, serde


def build(ir_version: int = 11):
    x = ir.Value(name="x", type=ir.TensorType(ir.DataType.FLOAT), shape=ir.Shape([4, 8]))
    w = ir.Value(name="w", type=ir.TensorType(ir.DataType.FLOAT))  # unknown rank
    mm = ir.Node("", "MatMul", [x, w], name="mm", num_outputs=1)
    mm.outputs[0].name = "y"
    mm.outputs[0].shape = ir.Shape([4, 8])
    mm.outputs[0].type = ir.TensorType(ir.DataType.FLOAT)
    relu = ir.Node("", "Relu", [mm.outputs[0]], name="relu", num_outputs=1)
    relu.outputs[0].name = "z"
    graph = ir.Graph(
        [x, w], [relu.outputs[0]], nodes=[mm, relu], opset_imports={"": 21}, name="g"
    )
    model = ir.Model(graph, ir_version=ir_version)
    return model, x, w, mm, relu


def cause_chain(exc: BaseException) -> list[tuple[type, str]]:
    chain = []
    while exc is not None:
        chain.append((type(exc), str(exc)))
        exc = exc.__cause__
    return chain


def check_model(model: ir.Model) -> None:
    assert _multi_device._check_device_configurations(model) == []
    registered = model.device_configurations
    for node in model.graph.all_nodes():
        io = [v for v in (*node.inputs, *node.outputs) if v is not None]
        for ndc in node.device_configurations:
            assert any(ndc.configuration is c for c in registered)
            for spec in ndc.sharding_specs:
                assert any(spec.value is v for v in io)


class _Capture(logging.Handler):
    def __init__(self):
        super().__init__()
        self.messages: list[str] = []

    def emit(self, record):
        self.messages.append(record.getMessage())


def main() -> None:
    # ---- 1. IR version 11: annotations are written with the current names -------------
    model, x, w, mm, relu = build(11)
    tp = model.add_device_configuration("tp", device_names=("d0", "d1"))
    pp = model.add_device_configuration("pp", num_devices=3)
    mm.shard(x, configuration=tp, axis=-1, num_shards=2, device_indices=(0, 1))
    mm.shard(w, configuration=tp, axis=5, num_shards=2, device_indices=(1,))  # unknown rank
    mm.shard(mm.outputs[0], configuration=tp, axis=0, num_shards=2, pipeline_stage=1)
    mm.set_pipeline_stage(pp, 2)
    relu.set_pipeline_stage(pp, 0)
    # rejected requests leave everything untouched
    before = mm.device_configurations
    for kwargs in (
        dict(axis=1, num_shards=2),  # -1 and 1 are the same axis of x
        dict(axis=2, num_shards=2),  # out of range
        dict(axis=0, num_shards=0),  # fewer than one shard
        dict(axis=0, num_shards=2, pipeline_stage=4),  # conflicting stage
    ):
        try:
            mm.shard(x, configuration=tp, **kwargs)
        except ValueError:
            pass
        else:
            raise AssertionError(f"accepted {kwargs}")
    assert mm.device_configurations is before
    check_model(model)

    # rename a value; "rename" a configuration by re-registering a renamed object is not
    # possible (frozen), so only the value rename is exercised here.
    x.name = "x_renamed"
    mm.outputs[0].name = "y_renamed"
    proto = ir.to_proto(model)
    assert [c.name for c in proto.configuration] == ["tp", "pp"]
    assert [(c.num_devices, list(c.device)) for c in proto.configuration] == [
        (2, ["d0", "d1"]),
        (3, []),
    ]
    mm_proto, relu_proto = proto.graph.node
    assert [c.configuration_id for c in mm_proto.device_configurations] == ["tp", "pp"]
    tp_proto, pp_proto = mm_proto.device_configurations
    assert [s.tensor_name for s in tp_proto.sharding_spec] == ["x_renamed", "w", "y_renamed"]
    assert tp_proto.HasField("pipeline_stage") and tp_proto.pipeline_stage == 1
    assert pp_proto.pipeline_stage == 2 and not pp_proto.sharding_spec
    assert [c.configuration_id for c in relu_proto.device_configurations] == ["pp"]
    assert relu_proto.device_configurations[0].HasField("pipeline_stage")
    assert relu_proto.device_configurations[0].pipeline_stage == 0
    # public per-annotation serializer agrees with what went into the node proto
    assert serde.serialize_node_device_configuration(mm.device_configurations[0]) == tp_proto

    # round trip: annotations are bound to the registered objects and current values
    model2 = ir.from_proto(onnx.ModelProto.FromString(proto.SerializeToString()))
    check_model(model2)
    mm2 = model2.graph.node(0)
    assert [s.value.name for s in mm2.device_configurations[0].sharding_specs] == [
        "x_renamed",
        "w",
        "y_renamed",
    ]
    assert mm2.device_configurations[0].configuration is model2.device_configurations[0]
    assert ir.to_proto(model2) == proto

    # dropping an input drops its annotation, also in the serialized form
    fresh = ir.Value(name="fresh")
    model.graph.inputs.append(fresh)
    mm.replace_input_with(0, fresh)
    check_model(model)
    proto_b = ir.to_proto(model)
    assert [s.tensor_name for s in proto_b.graph.node[0].device_configurations[0].sharding_spec] == [
        "w",
        "y_renamed",
    ]

    # cascade removal: nothing dangling is serialized
    model.remove_device_configuration("tp", cascade=True)
    check_model(model)
    proto_c = ir.to_proto(model)
    assert [c.name for c in proto_c.configuration] == ["pp"]
    assert [c.configuration_id for c in proto_c.graph.node[0].device_configurations] == ["pp"]

    # ---- 2. IR version 10: nothing is written, one warning per holder ------------------
    old_model, x, w, mm, relu = build(10)
    cfg = old_model.add_device_configuration("tp", num_devices=2)
    mm.shard(x, configuration=cfg, axis=0, num_shards=2)
    capture = _Capture()
    serde_logger = logging.getLogger(serde.__name__)
    serde_logger.addHandler(capture)
    old_level = serde_logger.level
    serde_logger.setLevel(logging.WARNING)
    try:
        old_proto = ir.to_proto(old_model)
    finally:
        serde_logger.removeHandler(capture)
        serde_logger.setLevel(old_level)
    assert len(old_proto.configuration) == 0
    assert all(len(n.device_configurations) == 0 for n in old_proto.graph.node)
    assert capture.messages == [
        "Model has 1 device configuration(s) but model.ir_version=10 does not "
        "support the 'configuration' field (requires >= 11). They will not be serialized.",
        "Node 'mm' has 1 device configuration(s) but model.ir_version=10 does "
        "not support 'device_configurations' (requires >= 11). They will not be serialized.",
    ], capture.messages
    # in-memory annotations are untouched by the failed write
    check_model(old_model)
    assert len(mm.device_configurations) == 1

    # A node serialized on its own (IR version unknown) does carry its annotations ...
    node_proto = ir.to_proto(mm)
    assert [c.configuration_id for c in node_proto.device_configurations] == ["tp"]
    # ... and with an explicit old version it does not.
    node_proto = onnx.NodeProto()
    serde.serialize_node_into(node_proto, mm, model_ir_version=10)
    assert len(node_proto.device_configurations) == 0
    node_proto = onnx.NodeProto()
    serde.serialize_node_into(node_proto, mm, model_ir_version=11)
    assert len(node_proto.device_configurations) == 1

    # ---- 3. unusual inputs: wrong element types and unnameable references --------------
    # The element type check precedes the version gate (IR version 10 here).
    mm.device_configurations = (mm.device_configurations[0], "not a configuration")
    try:
        ir.to_proto(old_model)
    except Exception as e:  # noqa: BLE001
        chain = cause_chain(e)
        assert chain[-1] == (
            TypeError,
            "Expected NodeDeviceConfiguration, got <class 'str'>",
        ), chain
        assert all(t is serde.SerdeError for t, _ in chain[:-1]), chain
    else:
        raise AssertionError("wrong node annotation type accepted")
    mm.device_configurations = mm.device_configurations[:1]

    old_model.device_configurations = (cfg, 7)
    try:
        ir.to_proto(old_model)
    except Exception as e:  # noqa: BLE001
        chain = cause_chain(e)
        assert chain[-1] == (TypeError, "Expected ModelConfiguration, got <class 'int'>"), chain
    else:
        raise AssertionError("wrong model configuration type accepted")
    old_model.device_configurations = (cfg,)

    # No configuration / configuration with an empty name: fails closed.
    bare = _multi_device.NodeDeviceConfiguration(pipeline_stage=1)
    try:
        serde.serialize_node_device_configuration(bare)
    except ValueError as e:
        assert str(e) == "Cannot serialize a NodeDeviceConfiguration without a configuration."
    else:
        raise AssertionError
    nameless_cfg = _multi_device.ModelConfiguration(name="", num_devices=1)
    nameless = dataclasses.replace(bare, configuration=nameless_cfg)
    try:
        serde.serialize_node_device_configuration(nameless)
    except ValueError as e:
        assert str(e) == (
            "Cannot serialize a NodeDeviceConfiguration whose configuration has "
            f"no name. Configuration: {nameless_cfg!r}"
        )
    else:
        raise AssertionError

    # Empty annotation tuples: nothing written, no warning, whatever the version.
    empty_model, *_ = build(3)
    empty_proto = ir.to_proto(empty_model)
    assert len(empty_proto.configuration) == 0
    assert all(len(n.device_configurations) == 0 for n in empty_proto.graph.node)

    print("C19 demo OK")


if __name__ == "__main__":
    main()
