"""Demo for C17 (deserialization terminates with an error or a consistent IR).

Exercises the initializer handling of graph deserialization through the public API.
"""
import builtins
import io
import logging
import os

import numpy as np
import onnx
from onnx import TensorProto, helper, numpy_helper

import onnx_ir as ir
from onnx_ir import serde

# ---- forbid file access during the whole demo -------------------------------
_real_open = builtins.open
_accessed = []


def _guard_open(file, *args, **kwargs):
    if isinstance(file, (str, bytes, os.PathLike)) and "absurd" in os.fspath(file if not isinstance(file, bytes) else file.decode()):
        _accessed.append(file)
    return _real_open(file, *args, **kwargs)


builtins.open = _guard_open
io.open = _guard_open


def check_consistent(graph: ir.Graph) -> None:
    for node in graph:
        assert node.graph is graph
        for idx, inp in enumerate(node.inputs):
            if inp is not None:
                assert (node, idx) in inp.uses(), (node.name, idx)
        for idx, out in enumerate(node.outputs):
            assert out.producer() is node and out.index() == idx
        for attr in node.attributes.values():
            if attr.type == ir.AttributeType.GRAPH:
                check_consistent(attr.value)
            elif attr.type == ir.AttributeType.GRAPHS:
                for g in attr.value:
                    check_consistent(g)
    for name, value in graph.initializers.items():
        assert value.name == name
        assert value.const_value is not None
        assert value.graph is graph, name
    for value in graph.inputs:
        assert value.graph is graph


def fixpoint(model: ir.Model) -> onnx.ModelProto:
    p1 = serde.serialize_model(model)
    m2 = serde.deserialize_model(p1)
    check_consistent(m2.graph)
    p2 = serde.serialize_model(m2)
    assert p1.SerializeToString(deterministic=True) == p2.SerializeToString(
        deterministic=True
    )
    return p1


def tensor(name, arr):
    return numpy_helper.from_array(np.asarray(arr), name=name)


def vi(name, elem=TensorProto.FLOAT, shape=(2,)):
    return helper.make_tensor_value_info(name, elem, shape)


def base_model() -> onnx.ModelProto:
    # subgraph with its own initializer, one of them shadowing an outer name
    sub = helper.make_graph(
        [helper.make_node("Add", ["w_inner", "w"], ["sub_out"], name="sub_add")],
        "then",
        [],
        [vi("sub_out")],
        initializer=[tensor("w_inner", np.ones(2, np.float32)), tensor("w", np.zeros(2, np.float32))],
    )
    sub2 = helper.make_graph(
        [helper.make_node("Identity", ["late"], ["sub2_out"], name="sub_id")],
        "else",
        [],
        [vi("sub2_out")],
    )
    nodes = [
        helper.make_node("If", ["cond"], ["y0"], name="if", then_branch=sub, else_branch=sub2),
        helper.make_node("Add", ["x", "w"], ["late"], name="add"),
        helper.make_node("Mul", ["y0", "b"], ["y"], name="mul"),
    ]
    graph = helper.make_graph(
        nodes,
        "main",
        [vi("x"), vi("b"), vi("cond", TensorProto.BOOL, ())],
        [vi("y")],
        initializer=[
            tensor("w", np.array([1, 2], np.float32)),  # not an input, has value_info
            tensor("b", np.array([3, 4], np.float32)),  # also an input
            tensor("cond", np.array(True)),  # also an input
            tensor("unused", np.arange(6, dtype=np.int64).reshape(2, 3)),  # no value_info
        ],
        value_info=[vi("w"), vi("late")],
    )
    # value info without a type for an initializer: tensor information must be kept
    empty_info = graph.value_info.add()
    empty_info.name = "unused"
    empty_info.doc_string = "doc of unused"
    ann = graph.quantization_annotation.add()
    ann.tensor_name = "w"
    e = ann.quant_parameter_tensor_names.add()
    e.key, e.value = "SCALE_TENSOR", "w_scale"
    ann2 = graph.quantization_annotation.add()
    ann2.tensor_name = "b"
    e = ann2.quant_parameter_tensor_names.add()
    e.key, e.value = "ZERO_POINT_TENSOR", "b_zp"
    return helper.make_model(graph, opset_imports=[helper.make_opsetid("", 18)])


def main() -> None:
    records = []

    class _H(logging.Handler):
        def emit(self, record):
            records.append(record.getMessage())

    logging.getLogger("onnx_ir.serde").addHandler(_H())

    # 1. the ordinary case ---------------------------------------------------
    proto = base_model()
    model = serde.deserialize_model(proto)
    g = model.graph
    check_consistent(g)
    assert list(g.initializers) == ["w", "b", "cond", "unused"]
    assert g.initializers["b"] is g.inputs[1] and g.initializers["cond"] is g.inputs[2]
    w = g.initializers["w"]
    assert w.dtype == ir.DataType.FLOAT and list(w.shape) == [2]
    assert w.meta["quant_parameter_tensor_names"] == {"SCALE_TENSOR": "w_scale"}
    assert g.inputs[1].meta["quant_parameter_tensor_names"] == {"ZERO_POINT_TENSOR": "b_zp"}
    unused = g.initializers["unused"]
    assert unused.dtype == ir.DataType.INT64 and list(unused.shape) == [2, 3]
    assert unused.doc_string == "doc of unused"
    assert unused.producer() is None and not unused.uses()
    # uses of the outer "w": only the outer Add (the subgraph shadows it)
    assert [(n.name, i) for n, i in w.uses()] == [("add", 1)]
    then_graph = g.node("if").attributes["then_branch"].value
    inner_w = then_graph.initializers["w"]
    assert inner_w is not w and inner_w.graph is then_graph
    assert [(n.name, i) for n, i in inner_w.uses()] == [("sub_add", 1)]
    np.testing.assert_array_equal(inner_w.const_value.numpy(), np.zeros(2, np.float32))
    # out-of-order outer value used in the else branch
    else_graph = g.node("if").attributes["else_branch"].value
    assert else_graph.node("sub_id").inputs[0] is g.node("add").outputs[0]
    fixpoint(model)

    # 2. duplicated initializer names: the later tensor wins, one value ---------
    proto = base_model()
    proto.graph.initializer.append(tensor("w", np.array([9, 9], np.float32)))
    proto.graph.initializer.append(tensor("b", np.array([7, 7, 7], np.float32)))
    try:
        model = serde.deserialize_model(proto)
    except Exception as e:  # rejected is allowed by the property, but must be stable
        outcome = ("raise", type(e).__name__)
    else:
        check_consistent(model.graph)
        outcome = (
            "ok",
            list(model.graph.initializers),
            model.graph.initializers["w"].const_value.numpy().tolist(),
            model.graph.initializers["b"].const_value.numpy().tolist(),
            # the shape of the value still comes from the first creation / the value info
            list(model.graph.initializers["w"].shape),
            list(model.graph.inputs[1].shape),
        )
        fixpoint(model)
    print("duplicates:", outcome)

    # 3. initializer with an empty name is skipped with a warning ---------------
    proto = base_model()
    proto.graph.initializer.insert(1, tensor("", np.array([5], np.float32)))
    del records[:]
    model = serde.deserialize_model(proto)
    check_consistent(model.graph)
    assert list(model.graph.initializers) == ["w", "b", "cond", "unused"]
    assert any("the 1-th initializer does not" in r for r in records), records
    fixpoint(model)

    # 4. empty graph, and graph with only initializers ---------------------------
    g0 = serde.deserialize_graph(onnx.GraphProto())
    assert len(g0) == 0 and not g0.initializers and not g0.inputs and not g0.outputs
    only = helper.make_graph([], "only", [], [], initializer=[tensor("k", np.float32(1.0))])
    g1 = serde.deserialize_graph(only)
    check_consistent(g1)
    assert list(g1.initializers["k"].shape) == [] and g1.initializers["k"].dtype == ir.DataType.FLOAT
    assert serde.serialize_graph(g1).SerializeToString(deterministic=True) == serde.serialize_graph(
        serde.deserialize_graph(serde.serialize_graph(g1))
    ).SerializeToString(deterministic=True)

    # 5. initializer redeclared as node output: rejected with SerdeError --------
    proto = base_model()
    proto.graph.initializer.append(tensor("late", np.array([0, 0], np.float32)))
    try:
        serde.deserialize_model(proto)
    except serde.SerdeError as e:
        assert isinstance(e.__cause__, ValueError), repr(e.__cause__)
        assert "redeclared" in str(e.__cause__)
        assert "main" in str(e)
    else:
        raise AssertionError("redeclared output accepted")

    # 6. initializer with an unknown data type: rejected, wrapped ---------------
    proto = base_model()
    bad = proto.graph.initializer.add()
    bad.name = "bad"
    bad.data_type = 9999
    bad.dims.append(1)
    try:
        model = serde.deserialize_model(proto)
    except serde.SerdeError as e:
        print("unknown dtype: SerdeError <-", type(e.__cause__).__name__)
    else:
        check_consistent(model.graph)
        print("unknown dtype: accepted")

    # 7. absurd external data entries: no file access for name/dtype/shape/size --
    for entries in (
        (("location", "/nonexistent/absurd/../../absurd.bin"), ("offset", "-5"), ("length", "99999999999999999999")),
        (("location", "absurd_missing.bin"), ("length", "99999999999999999999")),
    ):
        proto = base_model()
        ext = proto.graph.initializer.add()
        ext.name = "ext"
        ext.data_type = TensorProto.FLOAT
        ext.dims.extend([2, 3])
        ext.data_location = TensorProto.EXTERNAL
        for k, v in entries:
            entry = ext.external_data.add()
            entry.key, entry.value = k, v
        info = proto.graph.value_info.add()
        info.CopyFrom(vi("ext", TensorProto.FLOAT, (2, 3)))
        ann = proto.graph.quantization_annotation.add()
        ann.tensor_name = "ext"
        try:
            model = serde.deserialize_model(proto)
        except Exception as e:
            print("absurd external:", type(e).__name__)
        else:
            check_consistent(model.graph)
            v = model.graph.initializers["ext"]
            t = v.const_value
            assert t.name == "ext" and t.dtype == ir.DataType.FLOAT
            assert list(t.shape) == [2, 3] and t.size == 6
            assert "quant_parameter_tensor_names" in v.meta and not v.meta["quant_parameter_tensor_names"]
            try:
                fixpoint(model)
                print("absurd external: accepted, round trip ok")
            except AssertionError:
                raise
            except Exception as e:
                print("absurd external: accepted, serialization raises", type(e).__name__)
    assert not _accessed, _accessed

    print("OK")


if __name__ == "__main__":
    main()
