"""Demo for C15: name fixing yields unique names only (onnx_ir.passes.common.NameFixPass).

Exits 0 when every check holds.
"""

from __future__ import annotations

import sys

import onnx_ir as ir
from onnx_ir.passes.common import naming

FAILURES: list[str] = []


def check(cond: bool, msg: str) -> None:
    if not cond:
        FAILURES.append(msg)
        print("FAIL:", msg)


def tensor(name: str) -> ir.Tensor:
    import numpy as np

    return ir.Tensor(np.array([1.0], dtype=np.float32), name=name)


def all_graphs(graph_like):
    """Yield (graph, enclosing graphs) for the graph and every nested subgraph."""
    stack = [(graph_like, ())]
    while stack:
        g, parents = stack.pop()
        yield g, parents
        for node in g:
            for attr in node.attributes.values():
                if attr.type == ir.AttributeType.GRAPH:
                    stack.append((attr.value, (*parents, g)))
                elif attr.type == ir.AttributeType.GRAPHS:
                    for sub in attr.value:
                        stack.append((sub, (*parents, g)))


def values_of(g):
    seen = []
    ids = set()

    def add(v):
        if v is not None and id(v) not in ids:
            ids.add(id(v))
            seen.append(v)

    for v in g.inputs:
        add(v)
    for v in g.outputs:
        add(v)
    if isinstance(g, ir.Graph):
        for v in g.initializers.values():
            add(v)
    for node in g:
        for v in node.outputs:
            add(v)
    return seen


def check_post_conditions(graph_like, label: str) -> None:
    for g, parents in all_graphs(graph_like):
        own = values_of(g)
        names = [v.name for v in own]
        check(all(names), f"{label}: empty value name in {names}")
        check(len(set(names)) == len(names), f"{label}: duplicate value names {names}")
        node_names = [n.name for n in g]
        check(all(node_names), f"{label}: empty node name {node_names}")
        check(
            len(set(node_names)) == len(node_names),
            f"{label}: duplicate node names {node_names}",
        )
        own_ids = {id(v) for v in own}
        for p in parents:
            for pv in values_of(p):
                if id(pv) in own_ids:
                    continue
                check(
                    pv.name not in names,
                    f"{label}: name {pv.name!r} of outer scope reused in subgraph",
                )
        if isinstance(g, ir.Graph):
            for key, v in g.initializers.items():
                check(key == v.name, f"{label}: initializer key {key!r} != {v.name!r}")


def build_model():
    # Main graph: duplicated and missing names, names shaped like generated ones.
    x = ir.Value(name="x")
    dup_in = ir.Value(name="x")  # duplicate graph input name
    w = ir.Value(name="w", const_value=tensor("w"))
    w2 = ir.Value(name="v_1", const_value=tensor("v_1"))  # looks like a generated name

    n1 = ir.Node("", "Add", [x, w], name="n")
    n1.outputs[0].name = None
    n2 = ir.Node("", "Mul", [n1.outputs[0], dup_in], name="n")  # duplicate node name
    n2.outputs[0].name = "x"  # duplicates the input name
    n3 = ir.Node("", "Relu", [n2.outputs[0], None], name=None)
    n3.outputs[0].name = ""
    late = ir.Node("", "Neg", [n3.outputs[0]], name="node_1")  # unique, visited late
    late.outputs[0].name = "v"  # unique, visited late: must be kept

    # Subgraph shadowing outer names and with unnamed things
    sx = ir.Value(name="x")  # collides with enclosing-scope "x"
    sn = ir.Node("", "Identity", [sx], name="n")  # node names are per-graph: kept
    sn.outputs[0].name = None
    sn2 = ir.Node("", "Add", [sn.outputs[0], late.outputs[0]], name="")
    sn2.outputs[0].name = "w"  # collides with outer initializer
    sub = ir.Graph([sx], [sn2.outputs[0]], nodes=[sn, sn2], name="sub")
    # The subgraph named its unnamed members on construction; blank them again.
    sn.outputs[0].name = None
    sn2.name = ""

    empty_sub = ir.Graph([], [], nodes=[], name="empty")  # unusual: empty subgraph

    ifn = ir.Node(
        "",
        "If",
        [late.outputs[0]],
        attributes=[
            ir.Attr("then_branch", ir.AttributeType.GRAPH, sub),
            ir.Attr("else_branch", ir.AttributeType.GRAPH, empty_sub),
        ],
        name="n",
    )
    ifn.outputs[0].name = None

    graph = ir.Graph(
        [x, dup_in],
        [ifn.outputs[0]],
        nodes=[n1, n2, n3, late, ifn],
        initializers=[w, w2],
        name="main",
        opset_imports={"": 20},
    )
    # The graph names unnamed things on construction; blank them again so that the
    # pass has something to do.
    n1.outputs[0].name = None
    n3.name = None
    n3.outputs[0].name = ""
    ifn.outputs[0].name = None

    # A function with the same kind of trouble
    fa = ir.Value(name="a")
    fb = ir.Value(name="a")
    fn1 = ir.Node("", "Add", [fa, fb], name="f")
    fn2 = ir.Node("", "Neg", [fn1.outputs[0]], name="f")
    fgraph = ir.Graph([fa, fb], [fn2.outputs[0]], nodes=[fn1, fn2], opset_imports={"": 20})
    fn1.outputs[0].name = "a"
    fn2.outputs[0].name = None
    func = ir.Function("dom", "Fn", "", graph=fgraph, attributes=[])

    model = ir.Model(graph, ir_version=10, functions=[func])
    return model, dict(
        x=x, dup_in=dup_in, w=w, w2=w2, n1=n1, n2=n2, n3=n3, late=late, ifn=ifn,
        sx=sx, sn=sn, sn2=sn2, sub=sub, fa=fa, fb=fb, fn1=fn1, fn2=fn2,
    )  # fmt: skip


def structure(model):
    """Everything but names: op types, topology by object identity, tensors."""
    out = []
    graphs = [model.graph, *model.functions.values()]
    for gl in graphs:
        for g, _ in all_graphs(gl):
            out.append(
                (
                    tuple(id(v) for v in g.inputs),
                    tuple(id(v) for v in g.outputs),
                    tuple(id(v) for v in g.initializers.values())
                    if isinstance(g, ir.Graph)
                    else (),
                    tuple(
                        (
                            id(n),
                            n.op_type,
                            tuple(id(v) if v is not None else None for v in n.inputs),
                            tuple(id(v) for v in n.outputs),
                        )
                        for n in g
                    ),
                )
            )
    return out


def main() -> int:
    model, o = build_model()
    before = structure(model)
    result = naming.NameFixPass()(model)
    check(result.modified, "pass should report a modification")
    check(structure(model) == before, "something other than names changed")

    check_post_conditions(model.graph, "main")
    for f in model.functions.values():
        check_post_conditions(f, "function")

    # Names that were already unique are kept; precedence follows visit order.
    check(o["x"].name == "x", f"first input lost its name: {o['x'].name}")
    check(o["dup_in"].name != "x", "duplicate input kept its name")
    check(o["w"].name == "w", "initializer w renamed")
    check(o["w2"].name == "v_1", "initializer v_1 (generated-looking) renamed")
    check(o["late"].outputs[0].name == "v", "late unique value 'v' lost its name")
    check(o["late"].name == "node_1", "late unique node 'node_1' lost its name")
    check(o["n1"].name == "n", "first node 'n' renamed")
    check(o["n2"].name not in ("n", "", None), "duplicate node name not fixed")
    check(o["sn"].name == "n", "subgraph node name 'n' should be kept (per-graph scope)")
    check(o["sx"].name != "x", "subgraph input shadowing outer 'x' not renamed")
    check(o["sn2"].outputs[0].name != "w", "subgraph value shadowing outer 'w' kept")
    check(model.graph.initializers["w"] is o["w"], "initializer key w broken")
    check(model.graph.initializers["v_1"] is o["w2"], "initializer key v_1 broken")
    check(o["fa"].name == "a" and o["fb"].name != "a", "function inputs not fixed")

    # Generated names avoid every name present before the pass
    generated = {
        o["n1"].outputs[0].name, o["n3"].outputs[0].name, o["ifn"].outputs[0].name,
        o["dup_in"].name, o["n2"].outputs[0].name,
    }  # fmt: skip
    check("v" not in generated and "v_1" not in generated, f"generated took {generated}")
    check(o["n3"].name != "node_1", "generated node name stole pre-existing 'node_1'")

    # Idempotence: a second run changes nothing
    snapshot = [(v.name) for g, _ in all_graphs(model.graph) for v in values_of(g)]
    node_snapshot = [n.name for g, _ in all_graphs(model.graph) for n in g]
    result2 = naming.NameFixPass()(model)
    check(not result2.modified, "second run reported a modification")
    check(
        snapshot == [(v.name) for g, _ in all_graphs(model.graph) for v in values_of(g)],
        "second run changed value names",
    )
    check(
        node_snapshot == [n.name for g, _ in all_graphs(model.graph) for n in g],
        "second run changed node names",
    )

    # Unusual: an empty model graph
    empty = ir.Model(ir.Graph([], [], nodes=[], opset_imports={"": 20}), ir_version=10)
    check(not naming.NameFixPass()(empty).modified, "empty graph reported as modified")

    # Unusual: a custom generator that always proposes the same, already taken name
    class Stubborn:
        def generate_node_name(self, node):
            return "n"

        def generate_value_name(self, value):
            return "x"

    model3, o3 = build_model()
    naming.NameFixPass(name_generator=Stubborn())(model3)
    check_post_conditions(model3.graph, "stubborn")
    for f in model3.functions.values():
        check_post_conditions(f, "stubborn function")
    check(o3["x"].name == "x" and o3["late"].outputs[0].name == "v", "stubborn: kept names")

    # Unusual: a generator that raises -> the exception propagates unchanged
    class Boom:
        def generate_node_name(self, node):
            raise RuntimeError("boom-node")

        def generate_value_name(self, value):
            return value.name or "v"

    model4, _ = build_model()
    try:
        naming.NameFixPass(name_generator=Boom())(model4)
    except Exception as e:  # PassError wraps or RuntimeError propagates
        text = repr(e) + repr(e.__cause__)
        check("boom-node" in text, f"unexpected exception {e!r}")
    else:
        check(False, "raising generator did not raise")

    if FAILURES:
        print(f"{len(FAILURES)} check(s) failed")
        return 1
    print("OK")
    return 0


if __name__ == "__main__":
    sys.exit(main())
