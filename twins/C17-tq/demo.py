"""Demo for C17 (refactoring of the graph/node serialization step of the round trip).

Deserializes valid and malformed protos, checks that the resulting IR has consistent
use-def / ownership links, and that serializing it yields a proto that deserializes and
serializes to itself.  Focus: value_info / quantization_annotation of node outputs,
missing node inputs, trailing empty outputs, reference attributes, nested graphs.
"""

import builtins
import io
import os
import sys

import onnx
from onnx import TensorProto, helper

import onnx_ir as ir
from onnx_ir import serde

# ---------------------------------------------------------------------------
# No file access is allowed during the whole demo (after the imports)
_real_open = builtins.open
_real_os_open = os.open
_real_io_open = io.open


def _deny(*args, **kwargs):
    raise AssertionError(f"file access attempted: {args!r}")


builtins.open = _deny
io.open = _deny
os.open = _deny


def check_links(graph: ir.Graph, seen=None) -> None:
    """Use-def and ownership consistency of a graph, recursively."""
    for node in graph:
        assert node.graph is graph, node
        for i, out in enumerate(node.outputs):
            assert out.producer() is node and out.index() == i
        for i, inp in enumerate(node.inputs):
            if inp is None:
                continue
            assert (node, i) in [tuple(u) for u in inp.uses()], (node, i)
        for attr in node.attributes.values():
            if attr.type == ir.AttributeType.GRAPH:
                check_links(attr.value)
            elif attr.type == ir.AttributeType.GRAPHS:
                for g in attr.value:
                    check_links(g)
    for value in list(graph.inputs) + list(graph.initializers.values()):
        assert value.producer() is None
        for user, idx in value.uses():
            assert user.inputs[idx] is value


def fixpoint(proto):
    """deserialize -> serialize -> deserialize -> serialize; the last two protos are equal."""
    obj = serde.from_proto(proto)
    if isinstance(obj, ir.Model):
        check_links(obj.graph)
        for f in obj.functions.values():
            check_links(f.graph if hasattr(f, "graph") else f._graph)
    elif isinstance(obj, ir.Graph):
        check_links(obj)
    p1 = serde.to_proto(obj)
    obj2 = serde.from_proto(p1)
    p2 = serde.to_proto(obj2)
    assert p1 == p2, f"not a fixpoint:\n{p1}\n---\n{p2}"
    assert p1.SerializeToString(deterministic=True) == p2.SerializeToString(deterministic=True)
    return obj, p1


def vi(name, dtype=TensorProto.FLOAT, shape=(2,)):
    return helper.make_tensor_value_info(name, dtype, shape)


def annotation(name, **kv):
    a = onnx.TensorAnnotation()
    a.tensor_name = name
    for k, v in kv.items():
        e = a.quant_parameter_tensor_names.add()
        e.key, e.value = k, v
    return a


# ---------------------------------------------------------------------------
# 1. A normal graph: intermediate values with and without value info, annotations on an
#    intermediate value, on a graph output, on an input that is also an initializer.
def case_plain():
    n1 = helper.make_node("Relu", ["x"], ["t1"], name="n1")
    n2 = helper.make_node("Add", ["t1", "w"], ["t2"], name="n2")
    n3 = helper.make_node("Neg", ["t2"], ["y"], name="n3")
    w = helper.make_tensor("w", TensorProto.FLOAT, [2], [1.0, 2.0])
    g = helper.make_graph([n1, n2, n3], "g", [vi("x"), vi("w")], [vi("y")], initializer=[w])
    g.value_info.extend([vi("t1")])  # t2 has none
    g.value_info.add().name = "t2_unused_name"  # dangling value info
    g.quantization_annotation.extend(
        [
            annotation("t1", SCALE_TENSOR="s1", ZERO_POINT_TENSOR="z1"),
            annotation("y", SCALE_TENSOR="sy"),
            annotation("w", SCALE_TENSOR="sw"),
            annotation("nobody", SCALE_TENSOR="sn"),
        ]
    )
    graph, p1 = fixpoint(g)
    assert [v.name for v in p1.value_info] == ["t1"], [v.name for v in p1.value_info]
    assert [a.tensor_name for a in p1.quantization_annotation] == ["w", "t1", "y"], p1
    ann_t1 = p1.quantization_annotation[1]
    assert [(e.key, e.value) for e in ann_t1.quant_parameter_tensor_names] == [
        ("SCALE_TENSOR", "s1"),
        ("ZERO_POINT_TENSOR", "z1"),
    ]
    assert [list(n.input) for n in p1.node] == [["x"], ["t1", "w"], ["t2"]]
    # Node-level API gives the same node protos
    for node, node_proto in zip(graph, p1.node):
        assert serde.serialize_node(node) == node_proto


# 2. Unusual: missing optional inputs, trailing and inner empty outputs, a node output listed
#    twice as graph output, an intermediate value that only has a doc_string / metadata.
def case_empty_names_and_duplicates():
    n1 = helper.make_node("Split3", ["x", "", "x"], ["a", "", "b", "", ""], name="s")
    n2 = helper.make_node("Identity", ["", ""], ["c"], name="i")
    n3 = helper.make_node("Nothing", [], [], name="n")
    g = helper.make_graph([n1, n2, n3], "g2", [vi("x")], [vi("a"), vi("a"), vi("c")])
    info_b = g.value_info.add()
    info_b.name = "b"
    info_b.doc_string = "only a doc string"
    e = info_b.metadata_props.add()
    e.key, e.value = "k", "v"
    g.quantization_annotation.extend(
        [annotation("a", SCALE_TENSOR="sa"), annotation("b", SCALE_TENSOR="sb")]
    )
    graph, p1 = fixpoint(g)
    assert list(p1.node[0].input) == ["x", "", "x"]
    assert list(p1.node[0].output) == ["a", "", "b"], list(p1.node[0].output)
    assert list(p1.node[1].input) == ["", ""]
    assert list(p1.node[2].input) == [] and list(p1.node[2].output) == []
    assert [o.name for o in p1.output] == ["a", "a", "c"]
    # b is an intermediate value: annotated and described; a is a graph output: annotated once
    assert [v.name for v in p1.value_info] == ["b"]
    assert p1.value_info[0].doc_string == "only a doc string"
    assert [a.tensor_name for a in p1.quantization_annotation] == ["b", "a"], p1
    x = graph.inputs[0]
    assert sorted(idx for _, idx in x.uses()) == [0, 2]
    # all outputs unnamed -> nothing serialized
    node = ir.Node("", "Op", [None, x], outputs=[ir.Value(name=""), ir.Value(name="")])
    np_ = serde.serialize_node(node)
    assert list(np_.input) == ["", "x"] and list(np_.output) == []


# 3. Malformed: dangling inputs, unsorted nodes, a cycle, value used before definition in a
#    nested subgraph, unsupported attribute kind handled by error.
def case_malformed():
    inner_node = helper.make_node("Mul", ["late", "outer_dangling"], ["inner_out"], name="m")
    inner = helper.make_graph([inner_node], "inner", [], [vi("inner_out")])
    inner.quantization_annotation.extend([annotation("inner_out", SCALE_TENSOR="si")])
    n_if = helper.make_node("If", ["cond"], ["r"], name="if", then_branch=inner, else_branch=inner)
    n_late = helper.make_node("Relu", ["r2"], ["late"], name="late_producer")
    n_cyc = helper.make_node("Add", ["r", "late"], ["r2"], name="cycle")
    g = helper.make_graph([n_if, n_late, n_cyc], "bad", [vi("cond", TensorProto.BOOL, ())], [vi("r2")])
    g.value_info.extend([vi("r"), vi("late")])
    graph, p1 = fixpoint(g)
    assert [n.name for n in p1.node] == ["if", "late_producer", "cycle"]
    assert sorted(v.name for v in p1.value_info) == ["late", "r"]
    then_branch = [a for a in p1.node[0].attribute if a.name == "then_branch"][0].g
    assert [a.tensor_name for a in then_branch.quantization_annotation] == ["inner_out"]
    late = graph.node("late_producer").outputs[0]
    inner_ir = graph.node("if").attributes["then_branch"].value
    assert inner_ir.node("m").inputs[0] is late

    # Rejected: an output name declared twice in one scope
    dup = helper.make_graph(
        [helper.make_node("A", [], ["d"]), helper.make_node("B", [], ["d"])], "dup", [], []
    )
    try:
        serde.deserialize_graph(dup)
    except serde.SerdeError as e:
        assert isinstance(e.__cause__, ValueError), repr(e.__cause__)
    else:
        raise AssertionError("duplicate output accepted")

    # Rejected: an attribute kind that is not supported
    bad_attr = helper.make_node("A", [], ["o"])
    a = bad_attr.attribute.add()
    a.name = "weird"
    a.type = onnx.AttributeProto.SPARSE_TENSOR
    try:
        serde.deserialize_node(bad_attr)
    except serde.SerdeError:
        pass
    else:
        raise AssertionError("sparse tensor attribute accepted")

    # Empty graph
    _, p_empty = fixpoint(onnx.GraphProto())
    assert p_empty == onnx.GraphProto()


# 4. Functions with reference attributes (serialized through the reference branch), models
#    of IR version 9 (experimental value info) and 10.
def case_functions():
    fnode = helper.make_node("LeakyRelu", ["fx"], ["fy"], name="fn")
    ref = fnode.attribute.add()
    ref.name = "alpha"
    ref.ref_attr_name = "alpha_outer"
    ref.type = onnx.AttributeProto.FLOAT
    ref.doc_string = "reference"
    plain = fnode.attribute.add()
    plain.name = "beta"
    plain.type = onnx.AttributeProto.INTS
    plain.ints.extend([1, 2, 3])
    fnode.attribute.add().CopyFrom(helper.make_attribute("s", b"\xff\xfe"))  # invalid utf-8
    func = helper.make_function(
        "dom", "F", ["fx"], ["fy"], [fnode], [helper.make_opsetid("", 18)], attributes=["alpha_outer"]
    )
    call = helper.make_node("F", ["x"], ["y"], domain="dom", name="call", alpha_outer=0.5)
    g = helper.make_graph([call], "main", [vi("x")], [vi("y")])
    for ir_version in (9, 10):
        m = helper.make_model(
            g, functions=[func], opset_imports=[helper.make_opsetid("", 18), helper.make_opsetid("dom", 1)]
        )
        m.ir_version = ir_version
        if ir_version == 9:
            m.graph.value_info.add().CopyFrom(vi("dom::F/fy"))
        else:
            m.functions[0].value_info.add().CopyFrom(vi("fy"))
        model, p1 = fixpoint(m)
        attrs = list(p1.functions[0].node[0].attribute)
        assert [a.name for a in attrs] == ["alpha", "beta", "s"]
        assert attrs[0].ref_attr_name == "alpha_outer" and attrs[0].type == onnx.AttributeProto.FLOAT
        assert attrs[0].doc_string == "reference" and not attrs[0].HasField("f")
        assert list(attrs[1].ints) == [1, 2, 3] and attrs[1].ref_attr_name == ""
        assert attrs[2].s == b"\xff\xfe"
        f_ir = next(iter(model.functions.values()))
        node_ir = next(iter(f_ir))
        assert node_ir.attributes["alpha"].is_ref() and not node_ir.attributes["beta"].is_ref()
        assert serde.serialize_node(node_ir) == p1.functions[0].node[0]
        if ir_version == 9:
            assert [v.name for v in p1.graph.value_info] == ["dom::F/fy"]
        else:
            assert [v.name for v in p1.functions[0].value_info] == ["fy"]


# 5. A graph view over a part of a graph: outputs of the owning graph are still skipped
def case_graph_view():
    n1 = helper.make_node("Relu", ["x"], ["t"], name="n1")
    n2 = helper.make_node("Neg", ["t"], ["y"], name="n2")
    g = helper.make_graph([n1, n2], "g", [vi("x")], [vi("y")])
    g.value_info.extend([vi("t")])
    graph = serde.deserialize_graph(g)
    view = ir.GraphView([graph.inputs[0]], [graph.node("n1").outputs[0]], nodes=list(graph))
    p = serde.to_proto(view)
    assert [v.name for v in p.value_info] == ["t"]
    assert [o.name for o in p.output] == ["t"]
    assert p == serde.to_proto(view)


def main() -> int:
    case_plain()
    case_empty_names_and_duplicates()
    case_malformed()
    case_functions()
    case_graph_view()
    print("C17 demo OK")
    return 0


if __name__ == "__main__":
    sys.exit(main())
