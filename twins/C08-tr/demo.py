"""Demo for property C08: an interrupted external-data save never damages an existing data file.

Exercises ir.save(..., external_data=...) and external_data.unload_from_model through the
public API, focusing on which initializers are externalized / loaded to memory and on the
model being handed back unchanged, on success and on failure.
"""

from __future__ import annotations

import os
import sys
import tempfile

import numpy as np

import onnx_ir as ir
from onnx_ir import external_data

OLD = bytes(range(256)) * 3  # 768 bytes of "previous" data file content


def check(cond, msg):
    if not cond:
        print("FAIL:", msg)
        sys.exit(1)


def listing(d):
    return sorted(os.listdir(d))


def ext(name, location, offset, arr_len, base_dir, dtype=ir.DataType.UINT8):
    return ir.ExternalTensor(
        location, offset, arr_len, dtype, shape=ir.Shape([arr_len]), name=name, base_dir=base_dir
    )


class Exploding(ir.Tensor):
    """Writes a little, then fails: an exception in the middle of a tensor write."""

    def tofile(self, file):
        file.write(b"partial")
        raise RuntimeError("boom")


def build_model(base_dir, *, exploding=False):
    """Main graph + a subgraph (nesting), an uninitialized initializer, aliasing."""
    big = ir.Tensor(np.arange(64, dtype=np.float32), name="big")
    cls = Exploding if exploding else ir.Tensor
    bad = cls(np.arange(32, dtype=np.int64), name="late")
    # External tensor backed by the destination, ABOVE the threshold: streamed through.
    same_big = ext("same_big", "w.data", 0, 512, base_dir)
    # External tensor backed by the destination, BELOW the threshold: loaded to memory.
    same_small = ext("same_small", "w.data", 700, 8, base_dir)
    # External tensor backed by ANOTHER file, above the threshold.
    other = ext("other", "other.data", 0, 100, base_dir)
    tiny = ir.Tensor(np.array([1, 2], dtype=np.int8), name="tiny")  # stays in memory

    sub_vals = [
        ir.Value(name="sub_big", const_value=ir.Tensor(np.ones(40, dtype=np.float64), name="sub_big")),
        # the very same tensor object as `big`, registered under a second value (aliasing)
        ir.Value(name="alias", const_value=big),
        ir.Value(name="sub_small_ext", const_value=ext("sub_small_ext", "w.data", 600, 4, base_dir)),
    ]
    sub = ir.Graph([], [], nodes=[], initializers=sub_vals, name="sub")
    node = ir.Node("", "If", inputs=[], attributes=[ir.AttrGraph("then_branch", sub)], num_outputs=1)
    vals = [
        ir.Value(name="big", const_value=big),
        ir.Value(name="same_big", const_value=same_big),
        ir.Value(name="same_small", const_value=same_small),
        ir.Value(name="other", const_value=other),
        ir.Value(name="tiny", const_value=tiny),
        ir.Value(name="late", const_value=bad),
    ]
    g = ir.Graph([], node.outputs, nodes=[node], initializers=vals, name="main", opset_imports={"": 20})
    # An initializer without a tensor (uninitialized): must be skipped everywhere.
    hollow = ir.Value(name="hollow", type=ir.TensorType(ir.DataType.FLOAT), shape=ir.Shape([1]))
    g.initializers["hollow"] = hollow
    return ir.Model(g, ir_version=10)


def snapshot(model):
    return [(v, v.const_value) for g in model.graphs() for v in g.initializers.values()]


def prepare(d):
    with open(os.path.join(d, "w.data"), "wb") as f:
        f.write(OLD)
    with open(os.path.join(d, "other.data"), "wb") as f:
        f.write(bytes(reversed(OLD)))


def read(d, name):
    with open(os.path.join(d, name), "rb") as f:
        return f.read()


def assert_model_unchanged(before, model, what):
    after = snapshot(model)
    check(len(after) == len(before), f"{what}: number of initializers changed")
    for (v0, t0), (v1, t1) in zip(before, after):
        check(v0 is v1 and t0 is t1, f"{what}: initializer {v0.name} not restored")


def external_tensors(before):
    return [t for _, t in before if isinstance(t, ir.ExternalTensor)]


def scenario_failures():
    """Exception from a tensor (mid-tensor) and from a callback, serial and parallel."""
    for workers in (None, 3):
        for how in ("tensor", "callback"):
            with tempfile.TemporaryDirectory() as d:
                prepare(d)
                model = build_model(d, exploding=(how == "tensor"))
                before = snapshot(model)
                check(len(before) == 10, "expected 10 initializers incl. subgraph and hollow")
                names_before = listing(d)
                seen = []

                def cb(tensor, info, how=how, seen=seen):
                    seen.append(tensor.name)
                    if how == "callback" and len(seen) == 3:
                        raise KeyError("callback says no")

                exc_type = RuntimeError if how == "tensor" else KeyError
                try:
                    ir.save(
                        model,
                        os.path.join(d, "m.onnx"),
                        external_data="w.data",
                        size_threshold_bytes=16,
                        callback=cb,
                        max_workers=workers,
                    )
                except exc_type:
                    pass
                else:
                    check(False, f"{how}/{workers}: save should have raised")
                check(read(d, "w.data") == OLD, f"{how}/{workers}: destination damaged")
                check(read(d, "other.data") == bytes(reversed(OLD)), "other file damaged")
                check(listing(d) == names_before, f"{how}/{workers}: leftovers {listing(d)}")
                assert_model_unchanged(before, model, f"{how}/{workers}")
                # External tensors over the destination are still valid and readable. The
                # small ones were loaded to memory before the write started - their original
                # objects, which the model holds again, must still read the old bytes.
                for t in external_tensors(before):
                    check(t.valid(), f"{how}/{workers}: {t.name} invalidated by a failed save")
                by_name = {t.name: t for t in external_tensors(before)}
                check(by_name["same_big"].tobytes() == OLD[:512], "same_big bytes")
                check(by_name["same_small"].tobytes() == OLD[700:708], "same_small bytes")
                check(by_name["sub_small_ext"].tobytes() == OLD[600:604], "sub_small_ext bytes")
                check("tiny" not in seen and "hollow" not in seen, "below-threshold tensor written")
                for t in external_tensors(before):
                    t.release()


def scenario_success():
    """Complete save: the file is replaced as a whole; only its readers are invalidated."""
    with tempfile.TemporaryDirectory() as d:
        prepare(d)
        model = build_model(d)
        before = snapshot(model)
        order = []
        ir.save(
            model,
            os.path.join(d, "m.onnx"),
            external_data="w.data",
            size_threshold_bytes=16,
            callback=lambda t, info: order.append((t.name, info.index, info.offset, info.total)),
        )
        # declaration order: main graph first, then the subgraph; small/hollow ones skipped
        check(
            [o[0] for o in order] == ["big", "same_big", "other", "late", "sub_big", "big"],
            f"unexpected write order {order}",
        )
        check([o[1] for o in order] == list(range(6)), "callback indices")
        check(all(o[3] == 6 for o in order), "callback total")
        big_bytes = np.arange(64, dtype=np.float32).tobytes()
        expected = (
            big_bytes
            + OLD[:512]
            + bytes(reversed(OLD))[:100]
            + np.arange(32, dtype=np.int64).tobytes()
            + np.ones(40, dtype=np.float64).tobytes()
            + big_bytes
        )
        check(read(d, "w.data") == expected, "new data file is not exactly the complete new bytes")
        check(read(d, "other.data") == bytes(reversed(OLD)), "other file changed")
        check(listing(d) == ["m.onnx", "other.data", "w.data"], f"leftovers {listing(d)}")
        assert_model_unchanged(before, model, "success")
        by_name = {t.name: t for t in external_tensors(before)}
        # Only the tensor that was streamed out of the replaced file is invalidated; the small
        # ones were converted to memory copies (their originals are not part of the write).
        check(not by_name["same_big"].valid(), "same_big should be invalidated")
        check(by_name["other"].valid(), "other must stay valid")
        check(by_name["same_small"].valid() and by_name["sub_small_ext"].valid(), "small ones")
        # The saved model is loadable and complete.
        loaded = ir.load(os.path.join(d, "m.onnx"))
        got = {v.name: v.const_value for g in loaded.graphs() for v in g.initializers.values()}
        # (the uninitialized initializer has no tensor and is not serialized)
        check(
            sorted(got) == sorted(v.name for v, t in before if t is not None),
            f"initializer names in saved model: {sorted(got)}",
        )
        check(got["same_small"].tobytes() == OLD[700:708], "same_small saved inline")
        check(not isinstance(got["same_small"], ir.ExternalTensor), "same_small should be inline")
        check(got["sub_small_ext"].tobytes() == OLD[600:604], "sub_small_ext saved inline")
        check(got["same_big"].tobytes() == OLD[:512], "same_big in saved model")
        check(got["alias"].tobytes() == big_bytes and got["big"].tobytes() == big_bytes, "alias")
        check(got["tiny"].tobytes() == b"\x01\x02", "tiny")
        for t in list(got.values()) + [t for _, t in before]:
            if isinstance(t, ir.ExternalTensor):
                t.release()


def scenario_unload_in_place():
    """unload_from_model (in place): partition by threshold, failure leaves the model as is."""
    with tempfile.TemporaryDirectory() as d:
        prepare(d)
        model = build_model(d, exploding=True)
        before = snapshot(model)
        try:
            external_data.unload_from_model(model, d, "w.data", size_threshold_bytes=16)
        except RuntimeError:
            pass
        else:
            check(False, "unload_from_model should have raised")
        check(read(d, "w.data") == OLD, "in-place: destination damaged")
        check(listing(d) == ["other.data", "w.data"], f"in-place leftovers {listing(d)}")
        # Nothing was assigned: the write failed before the replacement loop.
        assert_model_unchanged(before, model, "in-place failure")
        for t in external_tensors(before):
            check(t.valid(), "in-place: invalidated")
            t.release()

    with tempfile.TemporaryDirectory() as d:
        prepare(d)
        model = build_model(d)
        before = snapshot(model)
        result = external_data.unload_from_model(model, d, "w.data", size_threshold_bytes=16)
        check(result is model, "unload_from_model returns its argument")
        after = dict((v.name, v.const_value) for v, _ in before)
        for name in ("big", "same_big", "other", "late", "sub_big", "alias"):
            check(isinstance(after[name], ir.ExternalTensor), f"{name} not external")
            check(after[name].location == "w.data", f"{name} location")
        for name in ("same_small", "sub_small_ext"):
            check(type(after[name]) is ir.Tensor, f"{name} not loaded to memory")
        check(after["same_small"].tobytes() == OLD[700:708], "same_small content")
        check(after["tiny"] is dict((v.name, t) for v, t in before)["tiny"], "tiny replaced")
        check(after["hollow"] is None, "hollow changed")
        check(after["big"].offset == 0 and after["alias"].offset == 256 + 512 + 100 + 256 + 320,
              f"offsets {after['big'].offset} {after['alias'].offset}")
        check(after["same_big"].tobytes() == OLD[:512], "re-saved same_big content")
        for t in list(after.values()) + [t for _, t in before]:
            if isinstance(t, ir.ExternalTensor):
                t.release()


def scenario_sharded_and_rejected():
    """A sharded save never changes an existing file; rejected calls touch nothing."""
    with tempfile.TemporaryDirectory() as d:
        prepare(d)
        model = build_model(d)
        before = snapshot(model)
        # 6 tensors to externalize, 300-byte shards -> a known number of shards; make one exist
        probe = tempfile.mkdtemp()
        try:
            prepare(probe)
            m2 = build_model(probe)
            ir.save(m2, os.path.join(probe, "m.onnx"), external_data="s.data",
                    size_threshold_bytes=16, max_shard_size_bytes=300)
            shard_names = [n for n in listing(probe) if n.startswith("s-")]
            for _, t in snapshot(m2):
                if isinstance(t, ir.ExternalTensor):
                    t.release()
        finally:
            import shutil

            shutil.rmtree(probe)
        check(len(shard_names) >= 3, f"expected several shards, got {shard_names}")
        shard_name = shard_names[-1]
        with open(os.path.join(d, shard_name), "wb") as f:
            f.write(b"precious")
        names_before = listing(d)
        try:
            ir.save(model, os.path.join(d, "m.onnx"), external_data="s.data",
                    size_threshold_bytes=16, max_shard_size_bytes=300, max_workers=4)
        except FileExistsError:
            pass
        else:
            check(False, "sharded save over an existing shard should be refused")
        check(read(d, shard_name) == b"precious", "existing shard changed")
        check(read(d, "w.data") == OLD, "w.data changed by sharded save")
        check(listing(d) == names_before, f"sharded leftovers {listing(d)}")
        assert_model_unchanged(before, model, "sharded refusal")
        for t in external_tensors(before):
            check(t.valid(), "sharded refusal invalidated a tensor")

        # Rejected calls: nothing may be touched, the model stays the same.
        rejected = [
            (dict(max_shard_size_bytes=10), ValueError),  # without external_data
            (dict(external_data=os.path.abspath(os.path.join(d, "w.data"))), ValueError),
            (dict(external_data="w.data", max_workers=0), ValueError),
            (dict(external_data="w.data", max_shard_size_bytes=0), ValueError),
            (dict(external_data="w.data", max_in_flight_bytes=0), ValueError),
            (dict(external_data="w.data", alignment=-1), ValueError),
        ]
        for kwargs, exc_type in rejected:
            try:
                ir.save(model, os.path.join(d, "m.onnx"), **kwargs)
            except exc_type:
                pass
            else:
                check(False, f"save({kwargs}) should be rejected")
            check(read(d, "w.data") == OLD, f"rejected {kwargs}: destination changed")
            check(listing(d) == names_before, f"rejected {kwargs}: leftovers {listing(d)}")
            assert_model_unchanged(before, model, f"rejected {kwargs}")
        for t in external_tensors(before):
            check(t.valid(), "rejected call invalidated a tensor")
            t.release()


def scenario_empty():
    """A model without initializers: the (complete) new data file is empty."""
    with tempfile.TemporaryDirectory() as d:
        prepare(d)
        g = ir.Graph([], [], nodes=[], name="empty", opset_imports={"": 20})
        model = ir.Model(g, ir_version=10)
        ir.save(model, os.path.join(d, "m.onnx"), external_data="w.data")
        check(read(d, "w.data") == b"", "empty save: destination is not the complete new bytes")
        check(listing(d) == ["m.onnx", "other.data", "w.data"], f"empty leftovers {listing(d)}")
        check(snapshot(model) == [], "empty model got initializers")


def main():
    scenario_failures()
    scenario_success()
    scenario_unload_in_place()
    scenario_sharded_and_rejected()
    scenario_empty()
    print("OK")


if __name__ == "__main__":
    main()
