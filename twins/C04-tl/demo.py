"""Demo for C04: memory-mapped external tensors agree with array-backed tensors
and with the ONNX reference encoder on values and bytes, at any offset and for
any destination kind."""

import io
import os
import sys
import tempfile

import ml_dtypes
import numpy as np
import onnx
import onnx.numpy_helper

import onnx_ir as ir

rng = np.random.default_rng(4)


def make_array(dtype: ir.DataType, shape):
    size = int(np.prod(shape))
    np_dtype = dtype.numpy()
    if dtype == ir.DataType.BOOL:
        return rng.integers(0, 2, size=shape).astype(np.bool_)
    if dtype in (ir.DataType.COMPLEX64, ir.DataType.COMPLEX128):
        arr = (rng.standard_normal(shape) + 1j * rng.standard_normal(shape)).astype(np_dtype)
        if size:
            arr.reshape(-1)[0] = complex(np.inf, -np.nan)
        return arr
    if dtype.bitwidth in (2, 4) or dtype.bitwidth == 8 and dtype.is_floating_point():
        # Every bit pattern (this includes the extreme and non finite ones)
        bits = rng.integers(0, 1 << dtype.bitwidth, size=shape).astype(np.uint8)
        if size:
            bits.reshape(-1)[-1] = (1 << dtype.bitwidth) - 1
        if dtype.bitwidth == 8:
            return bits.view(np_dtype)
        if dtype in (ir.DataType.INT4, ir.DataType.INT2):
            # sign extend
            half = 1 << (dtype.bitwidth - 1)
            return ((bits.astype(np.int8) ^ half) - half).astype(np.int8).astype(np_dtype)
        if dtype == ir.DataType.FLOAT4E2M1:
            return bits.view(np_dtype)
        return bits.astype(np_dtype)
    if dtype.is_floating_point():
        arr = (rng.standard_normal(shape) * 100).astype(np_dtype)
        if size >= 3:
            flat = arr.reshape(-1)
            flat[0], flat[1], flat[2] = np.inf, -np.inf, np.nan
        return arr
    info = np.iinfo(np_dtype)
    arr = rng.integers(info.min, info.max, size=shape, dtype=np_dtype, endpoint=True)
    if size >= 2:
        arr.reshape(-1)[0] = info.min
        arr.reshape(-1)[1] = info.max
    return arr


def same_values(a: np.ndarray, b: np.ndarray) -> bool:
    # bitwise comparison, so that NaNs compare equal to themselves
    return a.dtype == b.dtype and a.shape == b.shape and a.tobytes() == b.tobytes()


DTYPES = [
    ir.DataType.INT2,
    ir.DataType.UINT2,
    ir.DataType.INT4,
    ir.DataType.UINT4,
    ir.DataType.FLOAT4E2M1,
    ir.DataType.FLOAT8E4M3FN,
    ir.DataType.FLOAT8E4M3FNUZ,
    ir.DataType.FLOAT8E5M2,
    ir.DataType.FLOAT8E5M2FNUZ,
    ir.DataType.FLOAT8E8M0,
    ir.DataType.BFLOAT16,
    ir.DataType.FLOAT16,
    ir.DataType.FLOAT,
    ir.DataType.DOUBLE,
    ir.DataType.COMPLEX64,
    ir.DataType.COMPLEX128,
    ir.DataType.BOOL,
    ir.DataType.INT8,
    ir.DataType.UINT16,
    ir.DataType.INT32,
    ir.DataType.INT64,
    ir.DataType.UINT64,
]
SHAPES = [(), (1,), (3,), (5,), (7, 1), (2, 3, 5), (1, 1, 1, 1, 1, 3), (0,), (2, 0, 3)]
OFFSETS = [0, 1, 7, 4096, 65537]

checked = 0
with tempfile.TemporaryDirectory() as tmp:
    for dtype in DTYPES:
        for shape in SHAPES:
            array = make_array(dtype, shape)
            reference = ir.Tensor(array, dtype=dtype, name="ref")
            expected = reference.tobytes()
            size = int(np.prod(shape))
            assert reference.nbytes == len(expected) == -(-size * dtype.bitwidth // 8), (
                dtype,
                shape,
            )
            # The ONNX reference decoder reads the same bytes back as the same values
            proto = onnx.TensorProto(
                data_type=int(dtype), dims=list(shape), raw_data=expected, name="p"
            )
            decoded = onnx.numpy_helper.to_array(proto)
            assert decoded.shape == tuple(shape)
            if decoded.dtype == array.dtype:
                assert same_values(decoded, array), (dtype, shape)
            for offset in OFFSETS:
                location = f"w_{dtype.name}_{len(shape)}_{size}_{offset}.bin"
                with open(os.path.join(tmp, location), "wb") as f:
                    f.write(b"\xaa" * offset)
                    f.write(expected)
                    f.write(b"\x55" * 13)
                for length in (len(expected), None):
                    for base_dir, loc in ((tmp, location), ("", os.path.join(tmp, location))):
                        ext = ir.ExternalTensor(
                            loc,
                            offset or None,
                            length,
                            dtype,
                            shape=ir.Shape(shape),
                            name="ext",
                            base_dir=base_dir,
                        )
                        assert ext.dtype == dtype and ext.shape.numpy() == tuple(shape)
                        assert ext.size == size and ext.nbytes == len(expected)
                        # bytes before values (tobytes maps the file), and again after
                        assert ext.tobytes() == expected, (dtype, shape, offset)
                        values = ext.numpy()
                        assert same_values(values, reference.numpy()), (dtype, shape, offset)
                        assert same_values(np.asarray(ext), reference.numpy())
                        assert ext.tobytes() == expected
                        # in-memory destination
                        buffer = io.BytesIO()
                        buffer.write(b"head")
                        ext.tofile(buffer)
                        assert buffer.getvalue() == b"head" + expected
                        # regular file, at a non-zero position, followed by another write
                        out_path = os.path.join(tmp, "out.bin")
                        with open(out_path, "wb") as out:
                            out.write(b"xyz")
                            ext.tofile(out)
                            reference.tofile(out)
                            out.write(b"!")
                        with open(out_path, "rb") as out:
                            assert out.read() == b"xyz" + expected + expected + b"!"
                        # lazy representation over the external one
                        lazy = ir.LazyTensor(
                            lambda ext=ext: ext, dtype=dtype, shape=ir.Shape(shape), name="lazy"
                        )
                        assert lazy.tobytes() == expected
                        assert same_values(lazy.numpy(), reference.numpy())
                        del values  # views of the mapped file must be gone before release()
                        ext.release()
                        # after release the data is mapped again on demand
                        assert same_values(ext.numpy(), reference.numpy())
                        assert ext.tobytes() == expected
                        ext.release()
                        checked += 1

    # Unusual inputs ---------------------------------------------------------
    data = np.arange(10, dtype=np.float32)
    with open(os.path.join(tmp, "short.bin"), "wb") as f:
        f.write(b"\0" * 8)
        f.write(data.tobytes()[:-6])  # 6 bytes are missing
    short = ir.ExternalTensor(
        "short.bin", 8, None, ir.DataType.FLOAT, shape=ir.Shape((10,)), name="s", base_dir=tmp
    )
    for destination in (io.BytesIO(), open(os.path.join(tmp, "short_out.bin"), "wb")):
        with destination:
            try:
                short.tofile(destination)
            except OSError as e:
                assert "shorter than expected" in str(e), e
                assert "6 more byte(s) at offset 42" in str(e), e
            else:
                raise AssertionError("a truncated file must be rejected by tofile()")
    try:
        short.numpy()
    except ValueError:
        pass  # the buffer is smaller than requested
    else:
        raise AssertionError("a truncated file must be rejected by numpy()")

    # Path that leaves the base directory: rejected by every access path
    outside = ir.ExternalTensor(
        "../escape.bin", None, None, ir.DataType.UINT4, shape=ir.Shape((3,)), name="o",
        base_dir=os.path.join(tmp, "sub"),
    )
    for access in (outside.numpy, outside.tobytes, lambda: outside.tofile(io.BytesIO())):
        try:
            access()
        except ValueError as e:
            assert "outside the base directory" in str(e)
        else:
            raise AssertionError("path traversal must be rejected")

    # Invalidated tensor: rejected, also when it is empty
    for shape in ((3,), (0,)):
        with open(os.path.join(tmp, "inv.bin"), "wb") as f:
            f.write(b"\x21\x03")
        inv = ir.ExternalTensor(
            "inv.bin", None, None, ir.DataType.INT4, shape=ir.Shape(shape), name="i", base_dir=tmp
        )
        assert inv.tobytes() == (b"\x21\x03" if shape == (3,) else b"")
        inv.invalidate()
        for access in (inv.numpy, inv.tobytes, lambda inv=inv: inv.tofile(io.BytesIO())):
            try:
                access()
            except ValueError as e:
                assert "invalidated" in str(e)
            else:
                raise AssertionError("an invalidated tensor must be rejected")
        inv.release()

    # Symbolic shape: nbytes cannot be computed; an explicit length still lets tofile() copy
    with open(os.path.join(tmp, "sym.bin"), "wb") as f:
        f.write(b"abcdefgh")
    sym = ir.ExternalTensor(
        "sym.bin", 2, 4, ir.DataType.UINT8, shape=ir.Shape(("N",)), name="y", base_dir=tmp
    )
    buffer = io.BytesIO()
    sym.tofile(buffer)
    assert buffer.getvalue() == b"cdef"
    sym_no_length = ir.ExternalTensor(
        "sym.bin", 2, None, ir.DataType.UINT8, shape=ir.Shape(("N",)), name="y", base_dir=tmp
    )
    for access in (sym_no_length.tobytes, lambda: sym_no_length.tofile(io.BytesIO())):
        try:
            access()
        except ValueError:
            pass
        else:
            raise AssertionError("a symbolic shape has no byte size")

    # A zero length is treated as "not given"
    with open(os.path.join(tmp, "zero.bin"), "wb") as f:
        f.write(b"\x10\x32\x54")
    zero = ir.ExternalTensor(
        "zero.bin", 0, 0, ir.DataType.UINT4, shape=ir.Shape((5,)), name="z", base_dir=tmp
    )
    assert zero.tobytes() == b"\x10\x32\x54"
    assert zero.numpy().astype(np.uint8).tolist() == [0, 1, 2, 3, 4]
    buffer = io.BytesIO()
    zero.tofile(buffer)
    assert buffer.getvalue() == b"\x10\x32\x54"
    zero.release()

# element-type tables are consistent with one another
for dtype in DTYPES:
    assert dtype.itemsize * 8 == dtype.bitwidth
    assert ir.DataType.from_numpy(dtype.numpy()) == dtype
    assert ir.DataType.from_short_name(dtype.short_name()) == dtype
assert ir.DataType.from_numpy(np.dtype(ml_dtypes.bfloat16)) == ir.DataType.BFLOAT16

print(f"OK: {checked} external tensor configurations checked")
sys.exit(0)
