"""Demo for C16 (refactoring tr): lazy re-parse of the stored text, trunc, free_symbols.

Exercises, through the public API only, the area touched by the refactoring:
  * SymbolicDim built from text re-parses lazily and evaluates with integer semantics;
  * math.trunc on (possibly negative, possibly rational) expressions rounds toward zero,
    prints to a text that parses back to an expression with the same evaluations;
  * free_symbols, partial bindings, unknown dimension, rejected texts (raised on every access).
Exits 0 on success.
"""

import itertools
import math
from fractions import Fraction

import onnx_ir as ir


def check(cond, msg):
    if not cond:
        raise SystemExit(f"FAIL: {msg}")


N = ir.SymbolicDim("N")
M = ir.SymbolicDim("M")

# --- trunc: expression trees with mixed int / symbolic operands, exact reference ---
cases = [
    ("(N - 7) / 2", lambda: (N - 7) / 2, lambda n, m: Fraction(n - 7, 2)),
    ("(3 - N*M) / 4", lambda: (3 - N * M) / 4, lambda n, m: Fraction(3 - n * m, 4)),
    ("N / M - 3", lambda: N / M - 3, lambda n, m: Fraction(n, m) - 3),
    ("-(N / 3)", lambda: -(N / 3), lambda n, m: -Fraction(n, 3)),
    ("(N % 5 - 2) / 2", lambda: (N % 5 - 2) / 2, lambda n, m: Fraction(n % 5 - 2, 2)),
    ("N // 3 - M", lambda: N // 3 - M, lambda n, m: Fraction(n // 3 - m)),
    ("10 / N", lambda: 10 / N, lambda n, m: Fraction(10, n)),
]
for label, build, ref in cases:
    dim = build()
    tr = math.trunc(dim)
    check(isinstance(tr, ir.SymbolicDim), f"trunc({label}) is a SymbolicDim")
    # what a saved model stores is the text; re-read it
    reparsed = ir.SymbolicDim(tr.value)
    check(reparsed == tr and hash(reparsed) == hash(tr), f"text equality {label}")
    simplified = tr.simplify()
    for n, m in itertools.product(range(1, 14), range(1, 6)):
        want = math.trunc(ref(n, m))
        b = {"N": n, "M": m}
        got = tr.evaluate(b)
        check(got == want and isinstance(got, int), f"trunc({label}) at {b}: {got!r} != {want}")
        check(reparsed.evaluate(b) == want, f"reparsed trunc({label}) at {b}")
        check(simplified.evaluate(b) == want, f"simplified trunc({label}) at {b}")
        # partial binding then the rest
        part = tr.evaluate({"N": n})
        if isinstance(part, ir.SymbolicDim):
            check(part.evaluate({"M": m}) == want, f"partial trunc({label}) at {b}")
            check(ir.SymbolicDim(part.value).evaluate({"M": m}) == want, f"partial reparsed {label}")
        else:
            check(part == want, f"partial(int) trunc({label}) at {b}")

# floor / ceil next to trunc on a negative rational
e = (N - 9) / 2
for n in range(1, 20):
    q = Fraction(n - 9, 2)
    check(math.floor(e).evaluate({"N": n}) == math.floor(q), "floor")
    check(math.ceil(e).evaluate({"N": n}) == math.ceil(q), "ceil")
    check(math.trunc(e).evaluate({"N": n}) == math.trunc(q), "trunc")

# --- lazy re-parse of texts: precedence / associativity, repeated use of one object ---
texts = {
    "N - M - 1": lambda n, m: n - m - 1,
    "N - (M - 1)": lambda n, m: n - (m - 1),
    "2 + N * M % 4": lambda n, m: 2 + n * m % 4,
    "N // M * M + N % M": lambda n, m: n,
    "-N ** 2": lambda n, m: -(n**2),
    "max(N, M, 3) - min(N, 2*M)": lambda n, m: max(n, m, 3) - min(n, 2 * m),
    "sign(M - N) * floor(Abs(M - N) / 2)": lambda n, m: math.trunc(Fraction(m - n, 2)),
    "  ( ( N ) )  ": lambda n, m: n,
    "N": lambda n, m: n,
}
for text, ref in texts.items():
    dim = ir.SymbolicDim(text)
    check(dim.value == text and str(dim) == text, "text kept verbatim")
    for _ in range(2):  # second round goes through the remembered expression
        for n, m in itertools.product(range(1, 8), range(1, 5)):
            got = dim.evaluate({"N": n, "M": m, "unused": 99})
            check(got == ref(n, m), f"{text!r} at N={n}, M={m}: {got!r}")
    check(dim.free_symbols() <= frozenset({"N", "M"}), f"free symbols of {text!r}")

# free_symbols: duplicates collapse, dotted names, constants
check(ir.SymbolicDim("N*N + N - M + M.1").free_symbols() == frozenset({"N", "M", "M.1"}), "fs dup")
check(ir.SymbolicDim("3 + 4").free_symbols() == frozenset(), "fs const")
check(ir.SymbolicDim("3 + 4").evaluate({}) == 7, "const evaluates")
check((N - N).free_symbols() == frozenset(), "fs cancel")
check(isinstance(N.free_symbols(), frozenset), "frozenset type")

# --- unknown dimension ---
unk = ir.SymbolicDim(None)
check(unk.free_symbols() == frozenset(), "unknown fs")
for r in (math.trunc(unk), math.floor(unk), math.ceil(unk), -unk, unk.simplify(), unk.evaluate({"N": 1}), unk + N, N + unk):
    check(isinstance(r, ir.SymbolicDim) and r.value is None and r is not unk, "unknown propagates")
check(str(unk) == "None" and repr(unk) == "SymbolicDim(None)", "unknown text")

# --- rejected texts: constructor accepts, every use raises ValueError (again and again) ---
for bad in ("N +", "N $ 2", "foo(N)", "(N", "N M", "", "2 ** ", "max(N,)"):
    dim = ir.SymbolicDim(bad)
    check(dim.value == bad, "bad text stored")
    for use in (
        lambda d: d.evaluate({"N": 1}),
        lambda d: d.free_symbols(),
        lambda d: math.trunc(d),
        lambda d: d + 1,
        lambda d: d.evaluate({"N": 1}),
    ):
        try:
            use(dim)
        except ValueError:
            pass
        else:
            raise SystemExit(f"FAIL: {bad!r} should be rejected on every use")

# rejected constructor argument
try:
    ir.SymbolicDim(3)
except TypeError:
    pass
else:
    raise SystemExit("FAIL: int must be rejected")

# a str subclass as text is kept and parsed
class Name(str):
    pass

d = ir.SymbolicDim(Name("N + 1"))
check(type(d.value) is Name and d.evaluate({"N": 4}) == 5, "str subclass")

# shapes hand out the same dims
shape = ir.Shape([math.trunc((N - 7) / 2), "N*2", None, 3])
check(shape[0].evaluate({"N": 2}) == -2, "shape trunc dim")
check(shape[1].evaluate({"N": 2}) == 4, "shape text dim")

print("OK")
