"""Demo for C16: binary-operator levels of the symbolic dimension parser.

Exercises, through the public API (ir.SymbolicDim / ir.Shape), the code that
re-parses the stored text of a dimension: precedence and left-associativity of
+, -, *, /, //, %, their interaction with unary minus, ** and function calls,
round trips through str(), partial bindings, and rejected strings.
"""

from __future__ import annotations

import itertools
import math
import sys
from fractions import Fraction

import onnx_ir as ir
import onnx_ir._symbolic_shapes as impl


failures: list[str] = []


def check(cond: bool, msg: str) -> None:
    if not cond:
        failures.append(msg)


def pyeval(text: str, env: dict[str, int]):
    """Reference meaning: Python arithmetic on exact rationals."""
    scope = {k: Fraction(v) for k, v in env.items()}
    scope.update(
        max=max, min=min, floor=lambda x: Fraction(math.floor(x)),
        ceiling=lambda x: Fraction(math.ceil(x)), mod=lambda a, b: a % b,
        Mod=lambda a, b: a % b, Max=max, Min=min,
    )
    # integer literals must be exact rationals as well
    import re

    text = re.sub(r"(?<![\w.])(\d+)", r"Fraction(\1)", text)
    scope["Fraction"] = Fraction
    return eval(text, {"__builtins__": {}}, scope)  # noqa: S307 - test oracle only


BINDINGS = [
    {"a": 7, "b": 3, "c": 2},
    {"a": 1, "b": 1, "c": 1},
    {"a": 17, "b": 5, "c": 4},
    {"a": 100, "b": 9, "c": 7},
]

# 1. every pair of binary operators, in both groupings: associativity + precedence
OPS = ["+", "-", "*", "//", "%", "/"]
count = 0
for op1, op2 in itertools.product(OPS, repeat=2):
    for template in ("a {0} b {1} c", "(a {0} b) {1} c", "a {0} (b {1} c)", "a{0}b{1}c"):
        text = template.format(op1, op2)
        dim = ir.SymbolicDim(text)
        for env in BINDINGS:
            try:
                want = pyeval(text, env)
            except ZeroDivisionError:
                continue
            got = dim.evaluate(env)
            if want.denominator == 1:
                check(
                    isinstance(got, int) and got == want,
                    f"{text!r} with {env}: got {got!r}, want {int(want)}",
                )
            else:
                # non-integer value: stays symbolic, but must print the exact rational
                check(
                    isinstance(got, ir.SymbolicDim) and Fraction(got.value) == want,
                    f"{text!r} with {env}: got {got!r}, want {want}",
                )
            count += 1

# 2. longer chains and mixtures with unary minus, ** and functions
CHAINS = [
    "a - b - c - 1",
    "a - b + c - 1 + b",
    "a // b // c",
    "a * b // c * 2 % 5",
    "a % b % c",
    "100 // a // 2",
    "a - -b",
    "a - - - b",
    "2 * -a + b",
    "-a * -b",
    "-a // b",
    "-a % b",
    "a ** 2 * b",
    "a * b ** 2",
    "2 ** c ** 2",
    "-a ** 2",
    "a - b ** 2 // c",
    "max(a - b - c, b * c // 2) - min(a, b) % c",
    "floor(a / b) * b + a % b",
    "ceiling(a / b) - a // b",
    "((a)) + (((b - c)))",
    "a//b*b+a%b",
    " a  +  b\t*  c ",
    "a + 2 * (b - (c + 1) * 3) // 2",
    "mod(a, b) + Mod(a + b, c) * 2",
]
for text in CHAINS:
    dim = ir.SymbolicDim(text)
    for env in BINDINGS:
        want = pyeval(text, env)
        got = dim.evaluate(env)
        check(
            want.denominator == 1 and isinstance(got, int) and got == want,
            f"{text!r} with {env}: got {got!r}, want {want}",
        )
        # partial binding leaves a residual that evaluates consistently later
        for first in (["a"], ["b", "c"], []):
            part = dim.evaluate({k: env[k] for k in first})
            later = part.evaluate(env) if isinstance(part, ir.SymbolicDim) else part
            check(later == want, f"{text!r} partial {first} with {env}: {later!r} != {want}")
        # simplification does not change the value
        check(dim.simplify().evaluate(env) == want, f"{text!r} simplify with {env}")
        count += 1
    # the printed form (what a saved model stores) re-parses to the same evaluations
    dim._expr  # force the parse  # noqa: B018
    printed = str(ir.SymbolicDim(dim._expr))
    again = ir.SymbolicDim(printed)
    for env in BINDINGS:
        check(
            again.evaluate(env) == dim.evaluate(env),
            f"round trip of {text!r} via {printed!r} with {env}",
        )

# 3. expressions built with Python operators print and re-parse consistently
a, b, c = ir.SymbolicDim("a"), ir.SymbolicDim("b"), ir.SymbolicDim("c")
BUILT = [
    (a - b - c, lambda a, b, c: a - b - c),
    (a - (b - c), lambda a, b, c: a - (b - c)),
    (a // b // c, lambda a, b, c: a // b // c),
    (a // (b // c + 1), lambda a, b, c: a // (b // c + 1)),
    (a % b * c, lambda a, b, c: a % b * c),
    (a % (b * c), lambda a, b, c: a % (b * c)),
    (10 - a * 2 // b, lambda a, b, c: 10 - a * 2 // b),
    (100 // a % c, lambda a, b, c: 100 // a % c),
    (-(a - b) // c, lambda a, b, c: -(a - b) // c),
    (math.floor(a / b) - math.ceil(a / c), lambda a, b, c: a // b - -(-a // c)),
    (math.trunc((b - a) / c), lambda a, b, c: -((a - b) // c) if a >= b else (b - a) // c),
]
for dim, fn in BUILT:
    shape = ir.Shape([dim, 3, None])
    stored = shape[0].value  # the text kept in a saved model
    reparsed = ir.SymbolicDim(stored)
    check(reparsed == dim, f"text equality of {stored!r}")
    for env in BINDINGS:
        want = fn(env["a"], env["b"], env["c"])
        check(dim.evaluate(env) == want, f"built {stored!r} with {env}: {dim.evaluate(env)!r} != {want}")
        check(
            reparsed.evaluate(env) == want,
            f"re-parsed {stored!r} with {env}: {reparsed.evaluate(env)!r} != {want}",
        )
        count += 1

# 4. unusual / rejected inputs: nothing is accepted that is not in the grammar
REJECTED = [
    "",  # empty input
    "a +",
    "a -",
    "* a",
    "a + * b",
    "a + + b",  # unary plus is not in the grammar
    "a // // b",
    "a % ",
    "a /",
    "(a + b",
    "a + b)",
    "a b",
    "a + 2 3",
    "a & b",
    "a *** b",
    "foo(a) + 1",
    "a + max(b,)",
]
for text in REJECTED:
    dim = ir.SymbolicDim(text)  # construction is lazy and must not fail
    check(dim.value == text, f"value of {text!r}")
    try:
        result = dim.evaluate({"a": 1, "b": 2})
    except ValueError:
        pass
    else:
        check(False, f"{text!r} was accepted and evaluated to {result!r}")
    # a second attempt fails the same way (no half-built state is cached)
    try:
        dim + 1
    except ValueError:
        pass
    else:
        check(False, f"{text!r} was accepted by __add__")
    count += 1

# modulo by a literal zero is rejected by the arithmetic itself, at parse time
try:
    ir.SymbolicDim("a % 0").evaluate({"a": 5})
except ZeroDivisionError:
    pass
else:
    check(False, "'a % 0' did not raise ZeroDivisionError")

# duplicates: the same symbol and the same operator many times over
text = " - ".join(["a"] * 40) + " + " + " * ".join(["b"] * 5) + " // b // b // b"
got = ir.SymbolicDim(text).evaluate({"a": 3, "b": 2})
check(got == 3 - 39 * 3 + 32 // 2 // 2 // 2, f"long chain: {got!r}")

# deep nesting of parentheses around binary operators
text = "a"
want = 5
for i in range(1, 41):
    if i % 2:
        text = f"({text} - {i}) * 2"
        want = (want - i) * 2
    else:
        text = f"{i} - ({text}) // 3"
        want = i - want // 3
got = ir.SymbolicDim(text).evaluate({"a": 5})
check(got == want, f"nested: {got!r} != {want}")

if failures:
    print(f"{len(failures)} FAILURES")
    for f in failures[:40]:
        print("  ", f)
    sys.exit(1)
print(f"OK ({count} checks)")
