"""C20 demo: journaling observes without interfering and always restores the classes.

Focus: the graph container classes (graph inputs / outputs / initializers and node
attributes) and the core classes, wrapped and restored by Journal.__enter__/__exit__.
"""

from __future__ import annotations

import contextlib
import gc
import sys
import weakref

import onnx_ir as ir
from onnx_ir import _core, _graph_containers
from onnx_ir.journaling import Journal, get_current_journal

PLAIN = {
    _core.TensorBase: ["__init__"],
    _core.Node: ["__init__", "resize_inputs", "prepend", "append", "resize_outputs"],
    _core.Value: ["__init__", "replace_all_uses_with", "merge_shapes"],
    _core.Graph: [
        "__init__", "register_initializer", "append", "extend", "remove",
        "insert_after", "insert_before", "sort",
    ],
    _core.Model: ["__init__"],
    _core.Function: ["__init__"],
    _core.Attr: ["__init__"],
    _graph_containers._GraphIO: [
        "append", "extend", "insert", "pop", "remove", "clear", "__setitem__",
    ],
    _graph_containers.GraphInitializers: ["__setitem__", "__delitem__"],
    _graph_containers.Attributes: ["__setitem__"],
}
PROPS = {
    _core.Node: ["name", "domain", "version", "op_type", "overload", "graph"],
    _core.Value: ["name", "type", "shape", "const_value"],
    _core.Function: ["name", "domain", "overload"],
}


def class_snapshot():
    snap = {}
    for cls, names in PLAIN.items():
        for name in names:
            snap[cls.__name__, name] = cls.__dict__[name]
    for cls, names in PROPS.items():
        for name in names:
            prop = cls.__dict__[name]
            snap[cls.__name__, name] = (prop.fget, prop.fset, prop.fdel)
    return snap


def check_same_classes(before, where):
    after = class_snapshot()
    assert after.keys() == before.keys()
    for key in before:
        a, b = before[key], after[key]
        if isinstance(a, tuple):
            assert all(x is y for x, y in zip(a, b)), (where, key)
        else:
            assert a is b, (where, key)


def attempt(log, label, func):
    try:
        result = func()
    except Exception as e:  # noqa: BLE001
        log.append((label, "raised", type(e).__name__, str(e)))
    else:
        if isinstance(result, ir.Value):
            result = ("Value", result.name)
        log.append((label, "returned", result))


def scenario():
    """A fixed sequence of operations; returns (log, state description)."""
    log: list = []
    x, y, w, z = (ir.Value(name=n) for n in "xywz")
    node = ir.Node("", "Add", [x, y], name="n0")
    out = node.outputs[0]
    out.name = "out"
    graph = ir.Graph([x], [out], nodes=[node], name="g")
    other = ir.Graph([], [], nodes=[], name="other")

    # graph inputs / outputs
    attempt(log, "in.append", lambda: graph.inputs.append(y))
    attempt(log, "in.append dup", lambda: graph.inputs.append(y))  # duplicate value
    attempt(log, "in.extend empty", lambda: graph.inputs.extend([]))  # empty input
    attempt(log, "in.extend", lambda: graph.inputs.extend(iter([z])))
    attempt(log, "in.insert", lambda: graph.inputs.insert(0, w))
    attempt(log, "in.pop", lambda: graph.inputs.pop())
    attempt(log, "in.pop(0)", lambda: graph.inputs.pop(0))
    attempt(log, "in.pop bad", lambda: graph.inputs.pop(99))  # rejected
    attempt(log, "in.remove", lambda: graph.inputs.remove(y))
    attempt(log, "in.remove missing", lambda: graph.inputs.remove(z))  # rejected
    attempt(log, "in.setitem", lambda: graph.inputs.__setitem__(0, z))
    attempt(log, "in.setitem slice", lambda: graph.inputs.__setitem__(slice(0, 1), [x, w]))
    attempt(log, "in.append produced", lambda: graph.inputs.append(out))  # rejected
    attempt(log, "other.in.append owned", lambda: other.inputs.append(x))  # rejected
    attempt(log, "out.append", lambda: graph.outputs.append(out))
    attempt(log, "out.clear", lambda: graph.outputs.clear())
    attempt(log, "out.clear again", lambda: graph.outputs.clear())  # already empty
    attempt(log, "out.extend", lambda: graph.outputs.extend((out,)))

    # initializers
    c = ir.Value(name="c", const_value=ir.tensor([1.0, 2.0], name="c"))
    anon = ir.Value()
    attempt(log, "init.set", lambda: graph.initializers.__setitem__("c", c))
    attempt(log, "init.set again", lambda: graph.initializers.__setitem__("c", c))
    attempt(log, "init.set anon", lambda: graph.initializers.__setitem__("anon", anon))
    attempt(log, "init.set bad key", lambda: graph.initializers.__setitem__("d", c))  # rejected
    attempt(log, "init.set empty key", lambda: graph.initializers.__setitem__("", ir.Value()))
    attempt(log, "init.set non-value", lambda: graph.initializers.__setitem__("q", 3))
    attempt(log, "init.set produced", lambda: graph.initializers.__setitem__("out", out))
    attempt(log, "init.del", lambda: graph.initializers.__delitem__("anon"))
    attempt(log, "init.del missing", lambda: graph.initializers.__delitem__("nope"))  # rejected
    attempt(log, "register", lambda: graph.register_initializer(ir.Value(name="r", const_value=ir.tensor([3]))))

    # attributes
    attempt(log, "attr.set", lambda: node.attributes.__setitem__("axis", ir.AttrInt64("axis", 1)))
    attempt(log, "attr.add", lambda: node.attributes.add(ir.AttrFloat32("alpha", 0.5)))
    attempt(log, "attr.set bad key", lambda: node.attributes.__setitem__(1, ir.AttrInt64("k", 1)))
    attempt(log, "attr.set bad value", lambda: node.attributes.__setitem__("k", 1))

    # some core operations around the containers
    attempt(log, "node.name", lambda: setattr(node, "name", "renamed"))
    attempt(log, "value.shape", lambda: setattr(out, "shape", ir.Shape([2])))
    n1 = ir.Node("", "Relu", [out], name="n1")
    attempt(log, "graph.append", lambda: graph.append(n1))
    attempt(log, "graph.append twice", lambda: other.append(n1))  # rejected
    attempt(log, "graph.sort", lambda: graph.sort())
    attempt(log, "graph.remove unsafe", lambda: graph.remove(node, safe=True))  # rejected

    state = (
        [v.name for v in graph.inputs],
        [v.name for v in graph.outputs],
        sorted(graph.initializers),
        [(n.name, n.op_type, [i.name for i in n.inputs], sorted(n.attributes)) for n in graph],
        [(v.name, v.graph.name if v.graph is not None else None, v.is_graph_input(),
          v.is_graph_output(), v.is_initializer()) for v in (x, y, w, z, out, c, anon)],
        [v.name for v in other.inputs],
        str(out.shape),
    )
    return log, state


def run_nested(depth):
    """Run the scenario inside `depth` nested journals; return result and the journals."""
    journals = [Journal() for _ in range(depth)]
    with contextlib.ExitStack() as stack:
        for j in journals:
            stack.enter_context(j)
            assert get_current_journal() is j
        result = scenario()
    return result, journals


EXPECTED_CONTAINER_OPS = [
    "append_io", "append_io", "extend_io", "extend_io", "insert_io", "pop_io", "pop_io",
    "pop_io", "remove_io", "remove_io", "set_io", "set_io", "append_io", "append_io",
    "append_io", "clear_io", "clear_io", "extend_io",
    "set_initializer", "set_initializer", "set_initializer", "set_initializer",
    "set_initializer", "set_initializer", "set_initializer", "delete_initializer",
    "delete_initializer", "set_initializer",
    "set_attribute", "set_attribute", "set_attribute", "set_attribute",
]
CONTAINER_OPS = set(EXPECTED_CONTAINER_OPS)


def main():
    pristine = class_snapshot()
    baseline = scenario()
    assert get_current_journal() is None

    per_depth_ops = []
    for depth in (1, 2, 3):
        result, journals = run_nested(depth)
        assert result == baseline, f"depth {depth}: journaled run differs from plain run"
        assert get_current_journal() is None
        check_same_classes(pristine, f"after depth {depth}")
        ops = [[(e.operation, e.class_name, e.details) for e in j.entries] for j in journals]
        # Every journal of the nest sees the same operations, in program order
        assert all(o == ops[0] for o in ops), f"depth {depth}: nested journals disagree"
        per_depth_ops.append(ops[0])
        container_ops = [op for op, _, _ in ops[0] if op in CONTAINER_OPS]
        assert container_ops == EXPECTED_CONTAINER_OPS, container_ops
        # container operations are recorded on the owner of the container
        for op, class_name, _ in ops[0]:
            if op.endswith("_io") or op.endswith("_initializer"):
                assert class_name == "Graph", (op, class_name)
            if op == "set_attribute":
                assert class_name == "Node", (op, class_name)
    # nothing is recorded once the journals are closed
    counts = [len(j.entries) for j in journals]
    scenario()
    assert counts == [len(j.entries) for j in journals]

    # Leaving by exception, from every nesting depth, restores everything
    class Boom(Exception):
        pass

    for depth in (1, 2, 3):
        journals = [Journal() for _ in range(depth)]
        try:
            with contextlib.ExitStack() as stack:
                for j in journals:
                    stack.enter_context(j)
                g = ir.Graph([], [], nodes=[], name="boom")
                g.inputs.append(ir.Value(name="a"))
                raise Boom(depth)
        except Boom as e:
            assert e.args == (depth,)
        else:
            raise AssertionError("exception swallowed by the journal")
        assert get_current_journal() is None
        check_same_classes(pristine, f"after exception at depth {depth}")
        for j in journals:
            assert [e.operation for e in j.entries] == ["extend", "init", "init", "append_io"]

    # The exception of a rejected container call passes through the journal unchanged
    try:
        with Journal() as j:
            g = ir.Graph([], [], nodes=[], name="g2")
            g.inputs.remove(ir.Value(name="missing"))
    except ValueError:
        pass
    else:
        raise AssertionError("ValueError expected")
    assert [e.operation for e in j.entries][-1] == "remove_io"
    check_same_classes(pristine, "after rejected call")

    # Re-entering the same journal inside its own block, and a partially unwound nest
    outer = Journal()
    with outer:
        with outer:
            g = ir.Graph([], [], nodes=[], name="re")
            g.outputs.append(ir.Value(name="o"))
            assert get_current_journal() is outer
        assert get_current_journal() is outer
        inner = Journal()
        with inner:
            g.outputs.pop()
        assert get_current_journal() is outer
        g.inputs.append(ir.Value(name="i"))  # still journaled by `outer` only
        assert [e.operation for e in inner.entries] == ["pop_io"]
    assert get_current_journal() is None
    check_same_classes(pristine, "after re-entrant journal")
    # re-entered journal: wrappers are stacked, so the inner block records twice
    outer_ops = [e.operation for e in outer.entries]
    assert outer_ops == [
        "extend", "extend", "init", "init", "init", "init", "append_io", "append_io",
        "pop_io", "init", "append_io",
    ], outer_ops

    # Entries do not keep IR objects alive
    with Journal() as j:
        g = ir.Graph([], [], nodes=[], name="weak")
        v = ir.Value(name="v")
        g.inputs.append(v)
        g.initializers["k"] = ir.Value(name="k", const_value=ir.tensor([1]))
        n = ir.Node("", "Identity", [v], attributes=[ir.AttrInt64("a", 1)])
        n.attributes["b"] = ir.AttrInt64("b", 2)
    refs = [weakref.ref(g), weakref.ref(v), weakref.ref(n)]
    assert any(e.obj is g for e in j.entries)
    del g, v, n
    gc.collect()
    assert all(r() is None for r in refs), "journal entries keep IR objects alive"
    assert all(e.obj is None for e in j.entries if e.class_name in ("Graph", "Node", "Value"))
    check_same_classes(pristine, "end")
    print("C20 demo OK:", len(per_depth_ops[0]), "entries per journaled run")


if __name__ == "__main__":
    main()
    sys.exit(0)
