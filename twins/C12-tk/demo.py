"""Demo for property C12: topological sort across scopes, stable, deterministic, atomic.

Exercises Graph.sort / Function.sort through the public API only.
"""

from __future__ import annotations

import itertools
import random

import onnx_ir as ir


def order(graph) -> list[str]:
    return [n.name for n in graph]


def check_topological(graph, enclosing_ok=True) -> None:
    """Every node comes after the same-graph producers of values used by it or nested in it."""
    position = {node: i for i, node in enumerate(graph)}

    def used_values(node):
        for v in node.inputs:
            if v is not None:
                yield v
        for attr in node.attributes.values():
            if attr.type == ir.AttributeType.GRAPH:
                subgraphs = [attr.value]
            elif attr.type == ir.AttributeType.GRAPHS:
                subgraphs = list(attr.value)
            else:
                continue
            for sub in subgraphs:
                for inner in sub:
                    yield from used_values(inner)

    for node in graph:
        for value in used_values(node):
            producer = value.producer()
            if producer is not None and producer.graph is graph:
                assert position[producer] < position[node], (producer.name, node.name)
        for attr in node.attributes.values():
            if attr.type == ir.AttributeType.GRAPH:
                check_topological(attr.value)
            elif attr.type == ir.AttributeType.GRAPHS:
                for sub in attr.value:
                    check_topological(sub)


def build_diamond():
    x = ir.Value(name="x")
    a = ir.Node("", "A", [x], name="a")
    # multi-output node, optional (None) input, repeated input
    b = ir.Node("", "B", [a.outputs[0], None, a.outputs[0]], num_outputs=2, name="b")
    c = ir.Node("", "C", [a.outputs[0]], name="c")
    d = ir.Node("", "D", [b.outputs[1], c.outputs[0], b.outputs[0]], name="d")
    e = ir.Node("", "E", [], name="e")  # independent node
    return x, [a, b, c, d, e]


def test_all_permutations_of_diamond() -> None:
    seen_results = {}
    for perm in itertools.permutations(range(5)):
        x, nodes = build_diamond()
        graph = ir.Graph([x], [nodes[3].outputs[0]], nodes=[nodes[i] for i in perm], name="g")
        before = order(graph)
        graph.sort()
        after = order(graph)
        assert sorted(after) == sorted(before) and len(graph) == 5
        check_topological(graph)
        # deterministic: same structure + same previous order -> same result
        x2, nodes2 = build_diamond()
        graph2 = ir.Graph(
            [x2], [nodes2[3].outputs[0]], nodes=[nodes2[i] for i in perm], name="g"
        )
        graph2.sort()
        assert order(graph2) == after
        # idempotent: an already sorted graph is left exactly as it is
        graph.sort()
        assert order(graph) == after
        seen_results[perm] = after
    # already-sorted initial orders are kept exactly
    x, nodes = build_diamond()
    for names in (["a", "b", "c", "d", "e"], ["e", "a", "c", "b", "d"], ["a", "c", "e", "b", "d"]):
        x, nodes = build_diamond()
        by_name = {n.name: n for n in nodes}
        graph = ir.Graph([x], [], nodes=[by_name[n] for n in names], name="g")
        graph.sort()
        assert order(graph) == names, (order(graph), names)


def build_nested(shuffle_seed: int | None):
    """Outer graph: p -> q ; `ifn` has two branches, the then-branch contains a Loop-like
    node whose body (depth 2) captures q's output (outer-outer scope) and r's output (depth 1)."""
    x = ir.Value(name="x")
    p = ir.Node("", "P", [x], name="p")
    q = ir.Node("", "Q", [p.outputs[0]], name="q")
    late = ir.Node("", "Late", [x], name="late")  # captured only by the else branch

    # depth 2 body
    r = ir.Node("", "R", [p.outputs[0]], name="r")  # in then-branch, uses outer value
    body_n2 = ir.Node("", "N2", [q.outputs[0], r.outputs[0]], name="n2")
    body_n1 = ir.Node("", "N1", [body_n2.outputs[0]], name="n1")
    body = ir.Graph([], [body_n1.outputs[0]], nodes=[body_n1, body_n2], name="body")  # unsorted
    loop = ir.Node("", "Loop", [], attributes=[ir.AttrGraph("body", body)], name="loop")
    t_out = ir.Node("", "T", [loop.outputs[0]], name="t")
    then_graph = ir.Graph([], [t_out.outputs[0]], nodes=[t_out, loop, r], name="then")  # unsorted

    e1 = ir.Node("", "E1", [late.outputs[0]], name="e1")
    else_graph = ir.Graph([], [e1.outputs[0]], nodes=[e1], name="else")
    empty_graph = ir.Graph([], [], nodes=[], name="empty")

    ifn = ir.Node(
        "",
        "If",
        [p.outputs[0]],
        attributes=[
            ir.AttrGraphs("branches", [then_graph, else_graph]),
            ir.AttrGraph("empty", empty_graph),
            ir.AttrInt64("k", 3),
        ],
        name="ifn",
    )
    z = ir.Node("", "Z", [ifn.outputs[0]], name="z")
    outer_nodes = [z, ifn, late, q, p]
    if shuffle_seed is not None:
        random.Random(shuffle_seed).shuffle(outer_nodes)
    outer = ir.Graph([x], [z.outputs[0]], nodes=outer_nodes, name="outer")
    return outer, then_graph, else_graph, body, empty_graph


def test_nested_scopes() -> None:
    for seed in [None, *range(25)]:
        outer, then_graph, else_graph, body, empty_graph = build_nested(seed)
        members = {
            g.name: set(order(g)) for g in (outer, then_graph, else_graph, body, empty_graph)
        }
        outer.sort()
        check_topological(outer)
        pos = {name: i for i, name in enumerate(order(outer))}
        # implicit (captured) dependencies of nested graphs
        assert pos["q"] < pos["ifn"] and pos["late"] < pos["ifn"] and pos["p"] < pos["q"]
        assert pos["ifn"] < pos["z"]
        assert order(body) == ["n2", "n1"]
        assert order(then_graph) == ["r", "loop", "t"]
        assert order(else_graph) == ["e1"]
        assert order(empty_graph) == []
        for g in (outer, then_graph, else_graph, body, empty_graph):
            assert set(order(g)) == members[g.name]
            assert all(n.graph is g for n in g)
        # determinism
        outer2, then2, else2, body2, _ = build_nested(seed)
        outer2.sort()
        assert order(outer2) == order(outer)
        # idempotence
        snapshot = [order(g) for g in (outer, then_graph, else_graph, body)]
        outer.sort()
        assert snapshot == [order(g) for g in (outer, then_graph, else_graph, body)]


def test_stability_example() -> None:
    # independent nodes keep their relative order; only the needed producer is pulled forward
    x = ir.Value(name="x")
    n = [ir.Node("", "I", [x], name=f"i{i}") for i in range(6)]
    user = ir.Node("", "U", [n[4].outputs[0]], name="u")
    graph = ir.Graph([x], [], nodes=[n[0], n[1], user, n[2], n[3], n[4], n[5]], name="g")
    graph.sort()
    names = order(graph)
    assert [m for m in names if m != "i4"] == ["i0", "i1", "u", "i2", "i3", "i5"], names
    assert names == ["i0", "i1", "i4", "u", "i2", "i3", "i5"], names
    check_topological(graph)


def test_cycle_is_rejected_atomically() -> None:
    # Cycle in the OUTER graph; a nested, unsorted, acyclic subgraph must also stay untouched.
    x = ir.Value(name="x")
    s2 = ir.Node("", "S2", [x], name="s2")
    s1 = ir.Node("", "S1", [s2.outputs[0]], name="s1")
    sub = ir.Graph([], [s1.outputs[0]], nodes=[s1, s2], name="sub")  # unsorted on purpose
    holder = ir.Node("", "Holder", [x], attributes=[ir.AttrGraph("g", sub)], name="holder")
    a = ir.Node("", "A", [x, x], name="a")
    b = ir.Node("", "B", [a.outputs[0]], name="b")
    c = ir.Node("", "C", [b.outputs[0], holder.outputs[0]], name="c")
    tail = ir.Node("", "Tail", [c.outputs[0]], name="tail")
    a.replace_input_with(1, c.outputs[0])  # a -> b -> c -> a
    outer = ir.Graph([x], [tail.outputs[0]], nodes=[tail, c, holder, b, a], name="outer")
    before_outer, before_sub = order(outer), order(sub)
    for _ in range(2):
        try:
            outer.sort()
        except ValueError as exc:
            assert "cycle" in str(exc)
        else:
            raise AssertionError("cycle not detected")
        assert order(outer) == before_outer
        assert order(sub) == before_sub
        assert all(n.graph is outer for n in outer) and all(n.graph is sub for n in sub)

    # Cycle only INSIDE the nested graph, detected when sorting the outer graph.
    x = ir.Value(name="x")
    m1 = ir.Node("", "M1", [x], name="m1")
    m2 = ir.Node("", "M2", [m1.outputs[0]], name="m2")
    m1.replace_input_with(0, m2.outputs[0])
    inner = ir.Graph([], [], nodes=[m2, m1], name="inner")
    h = ir.Node("", "H", [], attributes=[ir.AttrGraph("g", inner)], name="h")
    k2 = ir.Node("", "K2", [x], name="k2")
    k1 = ir.Node("", "K1", [k2.outputs[0]], name="k1")
    outer = ir.Graph([x], [], nodes=[k1, h, k2], name="outer")
    try:
        outer.sort()
    except ValueError:
        pass
    else:
        raise AssertionError("nested cycle not detected")
    assert order(outer) == ["k1", "h", "k2"] and order(inner) == ["m2", "m1"]

    # Self loop
    x = ir.Value(name="x")
    s = ir.Node("", "S", [x], name="s")
    s.replace_input_with(0, s.outputs[0])
    g = ir.Graph([], [], nodes=[s], name="g")
    try:
        g.sort()
    except ValueError:
        pass
    else:
        raise AssertionError("self loop not detected")
    assert order(g) == ["s"]


def test_empty_and_function() -> None:
    g = ir.Graph([], [], nodes=[], name="nothing")
    g.sort()
    assert len(g) == 0

    x = ir.Value(name="x")
    f1 = ir.Node("", "F1", [x], name="f1")
    f2 = ir.Node("", "F2", [f1.outputs[0], f1.outputs[0]], name="f2")
    f3 = ir.Node("", "F3", [f2.outputs[0], None], name="f3")
    fg = ir.Graph([x], [f3.outputs[0]], nodes=[f3, f2, f1], name="fn_graph")
    func = ir.Function("test.domain", "fn", "", graph=fg, attributes=[])
    func.sort()
    assert order(func) == ["f1", "f2", "f3"]
    func.sort()
    assert order(func) == ["f1", "f2", "f3"]


def test_random_dags() -> None:
    rng = random.Random(1234)
    for _ in range(150):
        n_nodes = rng.randint(1, 12)
        x = ir.Value(name="x")
        nodes: list[ir.Node] = []
        for i in range(n_nodes):
            candidates = [o for m in nodes for o in m.outputs] + [x, None]
            inputs = [rng.choice(candidates) for _ in range(rng.randint(0, 3))]
            nodes.append(
                ir.Node("", "Op", inputs, num_outputs=rng.randint(1, 2), name=f"n{i}")
            )
        perm = list(nodes)
        rng.shuffle(perm)
        graph = ir.Graph([x], [], nodes=perm, name="g")
        graph.sort()
        assert sorted(order(graph)) == sorted(n.name for n in nodes)
        check_topological(graph)
        first = order(graph)
        graph.sort()
        assert order(graph) == first
        # construction order is a topological order: it must be left exactly as it was
        x = None
    # already sorted random DAG is untouched
    for _ in range(50):
        x = ir.Value(name="x")
        nodes = []
        for i in range(rng.randint(1, 12)):
            candidates = [o for m in nodes for o in m.outputs] + [x]
            inputs = [rng.choice(candidates) for _ in range(rng.randint(0, 3))]
            nodes.append(ir.Node("", "Op", inputs, name=f"n{i}"))
        graph = ir.Graph([x], [], nodes=nodes, name="g")
        graph.sort()
        assert order(graph) == [n.name for n in nodes]


def main() -> None:
    test_all_permutations_of_diamond()
    test_nested_scopes()
    test_stability_example()
    test_cycle_is_rejected_atomically()
    test_empty_and_function()
    test_random_dags()
    print("C12 demo OK")


if __name__ == "__main__":
    main()
