"""Demo for C18: region extraction and implicit-capture analysis."""
import numpy as np

import onnx_ir as ir
from onnx_ir.analysis import analyze_implicit_usage
from onnx_ir.convenience import extract


def val(name):
    return ir.Value(name=name, type=ir.TensorType(ir.DataType.FLOAT), shape=ir.Shape([2]))


def node(op, ins, out_name, attrs=(), n_out=1, name=None):
    n = ir.Node("", op, ins, attributes=list(attrs), num_outputs=n_out, name=name or f"n_{out_name}")
    n.outputs[0].name = out_name
    n.outputs[0].type = ir.TensorType(ir.DataType.FLOAT)
    return n


def build():
    x, y, z = val("x"), val("y"), val("z")
    w = val("w")
    w.const_value = ir.tensor(np.array([1.0, 2.0], dtype=np.float32), name="w")
    unused_init = val("unused_init")
    unused_init.const_value = ir.tensor(np.array([0.0, 0.0], dtype=np.float32), name="unused_init")

    a = node("Add", [x, y], "a")
    b = node("Mul", [a.outputs[0], w], "b")
    dead = node("Neg", [z], "dead")
    cond = node("Less", [x, y], "cond")

    # innermost graph captures `a` (two levels up) and `ti` (one level up)
    ti = node("Neg", [b.outputs[0]], "ti")
    inner = node("Add", [a.outputs[0], ti.outputs[0]], "inner_out")
    inner_g = ir.Graph([], [inner.outputs[0]], nodes=[inner], name="inner_g")
    cond2 = node("Less", [ti.outputs[0], ti.outputs[0]], "cond2")
    else_in = node("Identity", [ti.outputs[0]], "else_in")
    inner_else = ir.Graph([], [else_in.outputs[0]], nodes=[else_in], name="inner_else")
    nested_if = node(
        "If",
        [cond2.outputs[0]],
        "nested_if_out",
        attrs=[ir.AttrGraph("then_branch", inner_g), ir.AttrGraph("else_branch", inner_else)],
    )
    then_g = ir.Graph([], [nested_if.outputs[0]], nodes=[ti, cond2, nested_if], name="then_g")
    e = node("Mul", [y, w], "e")
    else_g = ir.Graph([], [e.outputs[0]], nodes=[e], name="else_g")
    if_node = node(
        "If",
        [cond.outputs[0]],
        "if_out",
        attrs=[ir.AttrGraph("then_branch", then_g), ir.AttrGraph("else_branch", else_g)],
    )
    # A GRAPHS attribute plus a reference attribute (which holds no graph)
    g1n = node("Neg", [z], "g1_out")
    g1 = ir.Graph([], [g1n.outputs[0]], nodes=[g1n], name="g1")
    g2n = node("Neg", [val("g2_in")], "g2_out")
    g2 = ir.Graph([g2n.inputs[0]], [g2n.outputs[0]], nodes=[g2n], name="g2")
    multi = node(
        "Custom",
        [if_node.outputs[0]],
        "multi_out",
        attrs=[ir.AttrGraphs("bodies", [g1, g2]), ir.RefAttr("r", "outer", ir.AttributeType.GRAPH)],
    )
    final = node("Add", [multi.outputs[0], a.outputs[0]], "final")
    graph = ir.Graph(
        [x, y, z],
        [final.outputs[0], dead.outputs[0]],
        nodes=[a, dead, b, cond, if_node, multi, final],
        initializers=[w, unused_init],
        name="main",
        opset_imports={"": 20},
    )
    subs = dict(then_g=then_g, else_g=else_g, inner_g=inner_g, inner_else=inner_else, g1=g1, g2=g2)
    return graph, subs


def names(vs):
    return sorted(v.name for v in vs)


def all_objects(g):
    objs = set()
    for n in ir.traversal.RecursiveGraphIterator(g):
        objs.add(id(n))
        objs.update(id(v) for v in n.inputs if v is not None)
        objs.update(id(v) for v in n.outputs)
        for at in n.attributes.values():
            if not at.is_ref() and at.type == ir.AttributeType.GRAPH:
                objs.add(id(at.as_graph()))
            elif not at.is_ref() and at.type == ir.AttributeType.GRAPHS:
                objs.update(id(s) for s in at.as_graphs())
    objs.update(id(v) for v in g.inputs)
    objs.update(id(v) for v in g.outputs)
    objs.update(id(v) for v in g.initializers.values())
    return objs


def main():
    graph, subs = build()
    before = ir.to_proto(ir.Model(graph, ir_version=10)).SerializeToString(deterministic=True)

    # ---- implicit-capture analysis: exact sets, exact key set
    usage = analyze_implicit_usage(graph)
    assert set(usage) == set(subs.values()), [g.name for g in usage]
    assert graph not in usage
    assert names(usage[subs["then_g"]]) == ["a", "b"], names(usage[subs["then_g"]])
    assert names(usage[subs["inner_g"]]) == ["a", "ti"]
    assert names(usage[subs["inner_else"]]) == ["ti"]
    assert names(usage[subs["else_g"]]) == ["w", "y"]
    assert names(usage[subs["g1"]]) == ["z"]
    assert usage[subs["g2"]] == set()
    # analysing a nested graph on its own: entries only for what is below it
    usage_then = analyze_implicit_usage(subs["then_g"])
    assert set(usage_then) == {subs["inner_g"], subs["inner_else"]}
    assert names(usage_then[subs["inner_g"]]) == ["a", "ti"]
    # no subgraphs at all -> empty
    assert analyze_implicit_usage(subs["g2"]) == {}
    assert analyze_implicit_usage(ir.Graph([], [], nodes=[])) == {}

    # ---- extraction through a nested capture, by name
    src_objs = all_objects(graph)
    sub = extract(graph, inputs=["x", "y", "z"], outputs=["final"])
    assert [n.name for n in sub] == ["n_a", "n_b", "n_cond", "n_if_out", "n_multi_out", "n_final"]
    assert sorted(sub.initializers) == ["w"]
    assert [v.name for v in sub.inputs] == ["x", "y", "z"]
    assert [v.name for v in sub.outputs] == ["final"]
    assert not (all_objects(sub) & src_objs), "extracted graph shares objects with the source"
    assert sub.name == "main" and sub.opset_imports == {"": 20}
    # the captures are re-bound to the clones
    sub_usage = analyze_implicit_usage(sub)
    assert sorted(sorted(v.name for v in s) for s in sub_usage.values()) == sorted(
        sorted(v.name for v in s) for s in usage.values()
    )
    for s in sub_usage.values():
        for v in s:
            assert id(v) not in src_objs

    # by object, intermediate boundary, duplicates in inputs and outputs
    a_val = graph.node("n_a").outputs[0]
    b_val = graph.node("n_b").outputs[0]
    sub2 = extract(graph, inputs=[a_val, a_val], outputs=[b_val, "b"])
    assert [n.op_type for n in sub2] == ["Mul"]
    assert sorted(sub2.initializers) == ["w"]
    assert len(sub2.inputs) == 2 and len(sub2.outputs) == 2

    # the If needs `b` only through the nested capture: cutting at a and b is not enough
    # (x, y feed cond and else_g) ...
    try:
        extract(graph, inputs=[a_val, b_val], outputs=["if_out"])
    except ValueError as exc:
        assert str(exc).endswith("required but not provided: x, y"), exc
    else:
        raise AssertionError("unbounded region accepted")
    # ... but cond, a, b, y bound it; then no node above is included
    sub3 = extract(graph, inputs=["cond", "a", "b", "y"], outputs=["if_out"])
    assert [n.op_type for n in sub3] == ["If"]
    assert sorted(sub3.initializers) == ["w"]  # captured initializer needed by else_g
    # z only used inside the GRAPHS attribute
    # (a value reached only through a capture is rejected while the region is copied)
    try:
        extract(graph, inputs=["if_out"], outputs=["multi_out"])
    except (ValueError, RuntimeError) as exc:
        chain, cur = [], exc
        while cur is not None:
            chain.append(str(cur))
            cur = cur.__cause__
        assert any("'%\"z\"" in msg and "outer-scope value" in msg for msg in chain), exc
    else:
        raise AssertionError("unbounded region accepted")
    sub4 = extract(graph, inputs=["if_out", "z"], outputs=["multi_out"])
    assert [n.op_type for n in sub4] == ["Custom"] and len(sub4.initializers) == 0

    # order is the source order even though the search meets nodes backwards
    sub5 = extract(graph, inputs=["x", "y", "z"], outputs=["dead", "b"])
    assert [n.name for n in sub5] == ["n_a", "n_dead", "n_b"]

    # output is an input: empty region; no outputs / unknown names / foreign values: rejected
    sub6 = extract(graph, inputs=["x"], outputs=["x"])
    assert len(sub6) == 0 and len(sub6.initializers) == 0
    for bad in (
        lambda: extract(graph, inputs=["x"], outputs=[]),
        lambda: extract(graph, inputs=["nope"], outputs=["a"]),
        lambda: extract(graph, inputs=["x", "y"], outputs=[val("a")]),
        lambda: extract(graph, inputs=[], outputs=["a"]),
    ):
        try:
            bad()
        except ValueError:
            pass
        else:
            raise AssertionError("bad call accepted")

    # GraphView and Function sources
    view = ir.GraphView(graph.inputs, graph.outputs, nodes=tuple(graph), initializers=tuple(graph.initializers.values()), name="view")
    sub7 = extract(view, inputs=["x", "y"], outputs=["b"])
    assert [n.name for n in sub7] == ["n_a", "n_b"] and sorted(sub7.initializers) == ["w"]

    fx, fy = val("fx"), val("fy")
    f1 = node("Add", [fx, fy], "f1")
    f2 = node("Neg", [f1.outputs[0]], "f2")
    f3 = node("Mul", [f2.outputs[0], f1.outputs[0]], "f3")
    fg = ir.Graph([fx, fy], [f3.outputs[0]], nodes=[f1, f2, f3], name="fg", opset_imports={"": 20})
    func = ir.Function("dom", "F", graph=fg, attributes=[])
    sub8 = extract(func, inputs=["f1"], outputs=["f3"])
    assert [n.op_type for n in sub8] == ["Neg", "Mul"] and isinstance(sub8, ir.Graph)

    # the source is untouched by all of the above
    after = ir.to_proto(ir.Model(graph, ir_version=10)).SerializeToString(deterministic=True)
    assert before == after
    assert {v.name: len(v.uses()) for v in graph.inputs} == {"x": 2, "y": 3, "z": 2}
    print("C18 demo OK")


if __name__ == "__main__":
    main()
