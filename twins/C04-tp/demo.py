"""Demo for C04: memory-mapped external tensors and lazy tensors agree with the array-backed ones.

Exercises ExternalTensor (numpy/tobytes/tofile at several offsets, every dtype incl. 2/4-bit,
odd element counts, scalar, empty, high rank) and LazyTensor (cache on/off, tofile fallback for
tensors without tofile) through the public API. Exits 0 when every check passes.
"""

import io
import os
import sys
import tempfile

import ml_dtypes
import numpy as np
import onnx
import onnx.numpy_helper

import onnx_ir as ir

failures = []


def check(cond, msg):
    if not cond:
        failures.append(msg)
        print("FAIL:", msg)


def same_values(a, b):
    a = np.asarray(a)
    b = np.asarray(b)
    if a.dtype != b.dtype or a.shape != b.shape:
        return False
    if a.dtype in (ml_dtypes.int4, ml_dtypes.int2):
        # The unused high bits of the one-byte-per-element form are not significant
        return np.array_equal(a.astype(np.int8), b.astype(np.int8))
    # Compare bit patterns so that NaN payloads and signed zeros count
    return a.tobytes() == b.tobytes()


rng = np.random.default_rng(20260925)

NATIVE = {
    ir.DataType.FLOAT: np.float32,
    ir.DataType.DOUBLE: np.float64,
    ir.DataType.FLOAT16: np.float16,
    ir.DataType.INT8: np.int8,
    ir.DataType.INT16: np.int16,
    ir.DataType.INT32: np.int32,
    ir.DataType.INT64: np.int64,
    ir.DataType.UINT8: np.uint8,
    ir.DataType.UINT16: np.uint16,
    ir.DataType.UINT32: np.uint32,
    ir.DataType.UINT64: np.uint64,
    ir.DataType.BOOL: np.bool_,
    ir.DataType.COMPLEX64: np.complex64,
    ir.DataType.COMPLEX128: np.complex128,
}
BITS8_16 = [
    ir.DataType.BFLOAT16,
    ir.DataType.FLOAT8E4M3FN,
    ir.DataType.FLOAT8E4M3FNUZ,
    ir.DataType.FLOAT8E5M2,
    ir.DataType.FLOAT8E5M2FNUZ,
    ir.DataType.FLOAT8E8M0,
]
SUB_BYTE = [
    ir.DataType.INT4,
    ir.DataType.UINT4,
    ir.DataType.FLOAT4E2M1,
    ir.DataType.INT2,
    ir.DataType.UINT2,
]
SHAPES = [(), (0,), (2, 0, 3), (1,), (3,), (5,), (7,), (2, 3), (3, 3), (1, 1, 1, 1, 1, 5), (2, 1, 3, 1, 2)]


def make_array(dtype: ir.DataType, shape):
    """An array in the ml_dtypes/numpy representation with arbitrary bit patterns."""
    n = int(np.prod(shape))
    if dtype in NATIVE:
        np_t = np.dtype(NATIVE[dtype])
        if np_t == np.bool_:
            return rng.integers(0, 2, size=shape).astype(np.bool_)
        raw = rng.integers(0, 256, size=n * np_t.itemsize, dtype=np.uint8)
        arr = raw.view(np_t).reshape(shape).copy()
        if n and np_t.kind in "fc":
            flat = arr.reshape(-1)
            flat[0] = np.inf
            flat[-1] = np.nan
        return arr
    if dtype.bitwidth == 16:
        return rng.integers(0, 1 << 16, size=shape, dtype=np.uint16).view(dtype.numpy())
    if dtype.bitwidth == 8:
        return rng.integers(0, 256, size=shape, dtype=np.uint8).view(dtype.numpy())
    # 2/4-bit: one element per byte, value range of the type, stored bits
    hi = 1 << dtype.bitwidth
    bits = rng.integers(0, hi, size=shape, dtype=np.uint8)
    if dtype in (ir.DataType.INT4, ir.DataType.INT2):
        # sign-extend
        signed = bits.astype(np.int8)
        signed[signed >= hi // 2] -= hi
        return signed.view(dtype.numpy())
    return bits.view(dtype.numpy())


def reference_bytes(arr, dtype: ir.DataType):
    """Packed little-endian bytes computed independently of the library."""
    flat = np.ascontiguousarray(arr).reshape(-1)
    if dtype.bitwidth in (2, 4):
        per = 8 // dtype.bitwidth
        mask = (1 << dtype.bitwidth) - 1
        bits = flat.view(np.uint8).astype(np.uint16) & mask
        pad = (-bits.size) % per
        bits = np.concatenate([bits, np.zeros(pad, dtype=np.uint16)])
        out = np.zeros(bits.size // per, dtype=np.uint16)
        for lane in range(per):
            out |= bits[lane::per] << (lane * dtype.bitwidth)
        return out.astype(np.uint8).tobytes()
    return flat.astype(flat.dtype.newbyteorder("<")).tobytes()


tmp = tempfile.mkdtemp(prefix="c04tp_")
counter = 0

for dtype in list(NATIVE) + BITS8_16 + SUB_BYTE:
    for shape in SHAPES:
        for offset in (0, 1, 13, 4096):
            arr = make_array(dtype, shape)
            ref = ir.Tensor(arr, dtype=dtype)
            ref_bytes = reference_bytes(arr, dtype)
            size = int(np.prod(shape))
            nbytes = -(-size * dtype.bitwidth // 8)
            label = f"{dtype} {shape} @{offset}"
            check(len(ref_bytes) == nbytes, f"{label}: reference length")
            check(ref.tobytes() == ref_bytes, f"{label}: Tensor.tobytes")

            counter += 1
            fname = f"w{counter}.bin"
            with open(os.path.join(tmp, fname), "wb") as f:
                f.write(b"\xa5" * offset)
                f.write(ref_bytes)
                f.write(b"\x5a" * 7)  # trailing garbage must be ignored

            # --- memory-mapped external ---
            for explicit_length in (True, False):
                ext = ir.ExternalTensor(
                    fname,
                    offset if (offset or explicit_length) else None,
                    nbytes if explicit_length else None,
                    dtype,
                    shape=ir.Shape(shape),
                    name="w",
                    base_dir=tmp,
                )
                check(ext.dtype == dtype and ext.shape == ir.Shape(shape), f"{label}: ext dtype/shape")
                check(ext.size == size and ext.nbytes == nbytes, f"{label}: ext size/nbytes")
                if explicit_length:
                    # tofile before anything is mapped
                    buf = io.BytesIO()
                    ext.tofile(buf)
                    check(buf.getvalue() == ref_bytes, f"{label}: ext.tofile(BytesIO) first")
                got = ext.numpy()
                check(same_values(got, ref.numpy()), f"{label}: ext.numpy values")
                check(got.dtype == dtype.numpy() and got.shape == shape, f"{label}: ext.numpy dtype/shape")
                check(ext.numpy() is got, f"{label}: ext.numpy is cached")
                check(same_values(np.asarray(ext), ref.numpy()), f"{label}: ext.__array__")
                check(ext.tobytes() == ref_bytes, f"{label}: ext.tobytes")
                # destination: regular file at a non-zero position
                out_path = os.path.join(tmp, "out.bin")
                with open(out_path, "wb") as out:
                    out.write(b"HEAD!")
                    ext.tofile(out)
                    check(out.tell() == 5 + nbytes, f"{label}: ext.tofile position")
                    out.write(b"TAIL")
                with open(out_path, "rb") as out:
                    check(out.read() == b"HEAD!" + ref_bytes + b"TAIL", f"{label}: ext.tofile(file)")
                # release and load again (no array may still export the mapped buffer)
                del got
                ext.release()
                check(ext.raw is None, f"{label}: released")
                check(ext.tobytes() == ref_bytes, f"{label}: ext.tobytes after release")
                check(same_values(ext.numpy(), ref.numpy()), f"{label}: ext.numpy after release")
                # round trip through the packed bytes
                check(
                    ir.Tensor(ext.numpy(), dtype=dtype).tobytes() == ref_bytes,
                    f"{label}: repack of ext.numpy",
                )
                ext.release()

            # --- agreement with the ONNX reference decoder via raw_data ---
            if offset == 0:
                proto = onnx.TensorProto(name="w", data_type=int(dtype), dims=list(shape), raw_data=ref_bytes)
                try:
                    onnx_arr = onnx.numpy_helper.to_array(proto)
                except Exception as e:  # pragma: no cover - old onnx without 2-bit support
                    onnx_arr = None
                if onnx_arr is not None:
                    ext = ir.ExternalTensor(fname, 0, nbytes, dtype, shape=ir.Shape(shape), name="w", base_dir=tmp)
                    a = ext.numpy()
                    check(
                        a.shape == onnx_arr.shape
                        and np.ascontiguousarray(a).view(np.uint8).tobytes()
                        == np.ascontiguousarray(onnx_arr).view(np.uint8).tobytes(),
                        f"{label}: ext.numpy vs onnx.numpy_helper.to_array",
                    )
                    del a
                    ext.release()

            # --- lazy ---
            for cache in (False, True):
                calls = []

                def thunk(calls=calls, fname=fname, offset=offset, nbytes=nbytes, dtype=dtype, shape=shape):
                    calls.append(1)
                    return ir.ExternalTensor(
                        fname, offset, nbytes, dtype, shape=ir.Shape(shape), name="w", base_dir=tmp
                    )

                lazy = ir.LazyTensor(thunk, dtype=dtype, shape=ir.Shape(shape), cache=cache, name="w")
                check(calls == [], f"{label}: lazy not evaluated at construction")
                check(lazy.dtype == dtype and lazy.shape == ir.Shape(shape), f"{label}: lazy dtype/shape")
                check(lazy.nbytes == nbytes and lazy.size == size, f"{label}: lazy nbytes/size")
                check(calls == [], f"{label}: lazy metadata does not evaluate")
                check(same_values(lazy.numpy(), ref.numpy()), f"{label}: lazy.numpy")
                check(lazy.tobytes() == ref_bytes, f"{label}: lazy.tobytes")
                buf = io.BytesIO()
                lazy.tofile(buf)
                check(buf.getvalue() == ref_bytes, f"{label}: lazy.tofile")
                check(same_values(np.asarray(lazy), ref.numpy()), f"{label}: lazy.__array__")
                check(len(calls) == (1 if cache else 4), f"{label}: lazy evaluations cache={cache}: {len(calls)}")


# ---- LazyTensor over a TensorProtocol implementation WITHOUT tofile (fallback path) ----
class NoToFile:
    """Minimal tensor-like object predating tofile()."""

    def __init__(self, array):
        self._a = array
        self.name = "legacy"
        self.dtype = ir.DataType.from_numpy(array.dtype)
        self.shape = ir.Shape(array.shape)
        self.size = array.size
        self.nbytes = array.nbytes

    def numpy(self):
        return self._a

    def __array__(self, dtype=None):
        return self._a.__array__(dtype)

    def tobytes(self):
        return self._a.astype(self._a.dtype.newbyteorder("<")).tobytes()


for cache in (False, True):
    calls = []
    base = np.arange(7, dtype=np.int16) - 3

    def legacy_thunk(calls=calls, base=base):
        calls.append(1)
        return NoToFile(base)

    lazy = ir.LazyTensor(legacy_thunk, dtype=ir.DataType.INT16, shape=ir.Shape((7,)), cache=cache)
    buf = io.BytesIO()
    ret = lazy.tofile(buf)
    check(ret is None, "legacy lazy.tofile returns None")
    check(buf.getvalue() == base.astype("<i2").tobytes(), "legacy lazy.tofile bytes")
    # tofile evaluates once to look for tofile() and once more through tobytes() when not cached
    check(len(calls) == (1 if cache else 2), f"legacy lazy evaluations cache={cache}: {len(calls)}")
    if cache:
        check(lazy.numpy() is base, "cached legacy lazy returns the same backing array")
        check(len(calls) == 1, "cached lazy evaluated exactly once")

# a thunk that raises: nothing is cached, the error propagates unchanged, a later call retries
state = {"n": 0}


def flaky():
    state["n"] += 1
    if state["n"] == 1:
        raise RuntimeError("boom")
    return ir.Tensor(np.array([1, 2, 3], dtype=np.uint8))


lazy = ir.LazyTensor(flaky, dtype=ir.DataType.UINT8, shape=ir.Shape((3,)), cache=True)
try:
    lazy.tobytes()
    check(False, "flaky thunk must raise")
except RuntimeError as e:
    check(str(e) == "boom", "flaky thunk error propagates")
check(lazy.tobytes() == b"\x01\x02\x03", "flaky thunk retried")
check(lazy.tobytes() == b"\x01\x02\x03" and state["n"] == 2, "flaky thunk cached after success")

# ---- unusual / rejected inputs on the external representation ----
# invalidated tensor is refused by every accessor
with open(os.path.join(tmp, "inv.bin"), "wb") as f:
    f.write(b"\x21\x43\x05")
ext = ir.ExternalTensor("inv.bin", 0, 3, ir.DataType.UINT4, shape=ir.Shape((5,)), name="inv", base_dir=tmp)
check(ext.numpy().view(np.uint8).tolist() == [1, 2, 3, 4, 5], "uint4 odd count decode")
ext.invalidate()
for fn in (ext.numpy, ext.tobytes, lambda: ext.tofile(io.BytesIO()), lambda: np.asarray(ext)):
    try:
        fn()
        check(False, "invalidated tensor must be rejected")
    except ValueError:
        pass

# file too short for the declared shape: rejected, and nothing half-decoded is kept
with open(os.path.join(tmp, "short.bin"), "wb") as f:
    f.write(b"\x01\x02\x03")
for dt, shp in ((ir.DataType.FLOAT, (2,)), (ir.DataType.INT4, (9,)), (ir.DataType.UINT2, (17,))):
    ext = ir.ExternalTensor("short.bin", None, None, dt, shape=ir.Shape(shp), name="s", base_dir=tmp)
    for _ in range(2):
        try:
            ext.numpy()
            check(False, f"short file must be rejected for {dt}")
        except ValueError:
            pass
    ext.release()

# offset beyond the end of the file
ext = ir.ExternalTensor("short.bin", 64, 4, ir.DataType.FLOAT, shape=ir.Shape((1,)), name="s", base_dir=tmp)
try:
    ext.numpy()
    check(False, "offset past EOF must be rejected")
except ValueError:
    pass
ext.release()

# missing file, also for an empty tensor's numpy() (no file access needed there) vs tobytes()
ext = ir.ExternalTensor("missing.bin", 0, 0, ir.DataType.INT2, shape=ir.Shape((0, 4)), name="m", base_dir=tmp)
a = ext.numpy()
check(a.shape == (0, 4) and a.dtype == ml_dtypes.int2, "empty external int2 numpy")
check(ext.tobytes() == b"", "empty external tobytes")
ext = ir.ExternalTensor("missing.bin", 0, 2, ir.DataType.INT2, shape=ir.Shape((2, 4)), name="m", base_dir=tmp)
try:
    ext.numpy()
    check(False, "missing file must be rejected")
except FileNotFoundError:
    pass

# string dtype cannot be memory mapped
with open(os.path.join(tmp, "str.bin"), "wb") as f:
    f.write(b"\0" * 64)
ext = ir.ExternalTensor("str.bin", 0, 16, ir.DataType.STRING, shape=ir.Shape((2,)), name="s", base_dir=tmp)
try:
    ext.numpy()
    check(False, "STRING external tensor must be rejected")
except (ValueError, TypeError) as e:
    kind = type(e).__name__
    check(kind == "ValueError", f"STRING external tensor raises ValueError, got {kind}")
ext.release()

# UNDEFINED dtype
ext = ir.ExternalTensor("str.bin", 0, 16, ir.DataType.UNDEFINED, shape=ir.Shape((2,)), name="u", base_dir=tmp)
try:
    ext.numpy()
    check(False, "UNDEFINED external tensor must be rejected")
except TypeError:
    pass
ext.release()

if failures:
    print(f"{len(failures)} check(s) failed")
    sys.exit(1)
print("OK: all checks passed")
