"""Demo for C14 on DeduplicateInitializersPass / DeduplicateHashedInitializersPass.

Checks the pass contract (identity, modified flag, fixpoint, no damage) through the public API.
"""

import sys

import numpy as np
import onnx_ir as ir
from onnx_ir.passes.common import (
    DeduplicateHashedInitializersPass,
    DeduplicateInitializersPass,
)

FAILURES = []


def check(cond, msg):
    if not cond:
        FAILURES.append(msg)
        print("FAIL:", msg)


def ser(model):
    return ir.to_proto(model).SerializeToString(deterministic=True)


def init(name, array):
    return ir.Value(
        name=name,
        const_value=ir.tensor(array, name=name),
        shape=ir.Shape(array.shape),
        type=ir.TensorType(ir.DataType(ir.tensor(array).dtype)),
    )


def str_init(name, items):
    return ir.Value(
        name=name,
        const_value=ir.StringTensor(items, shape=ir.Shape([len(items)]), name=name),
        shape=ir.Shape([len(items)]),
        type=ir.TensorType(ir.DataType.STRING),
    )


def build_model():
    x = ir.Value(name="x", shape=ir.Shape([2]), type=ir.TensorType(ir.DataType.FLOAT))
    a = np.array([1.0, 2.0], dtype=np.float32)
    w1, w2, w3 = init("w1", a), init("w2", a.copy()), init("w3", a.copy())
    # same bytes as int32 [1, 2]? different dtype must never be merged with others
    i1 = init("i1", np.array([1, 2], dtype=np.int32))
    i2 = init("i2", np.array([1, 2], dtype=np.int32))
    # same content, different shape
    r1 = init("r1", a.reshape(1, 2))
    # strings
    s1 = str_init("s1", [b"ab", b"c"])
    s2 = str_init("s2", [b"ab", b"c"])
    # big one (over the small size limit used below)
    b1 = init("b1", np.zeros(64, dtype=np.float32))
    b2 = init("b2", np.zeros(64, dtype=np.float32))
    # initializer that is also a graph output -> skipped
    o1 = init("o1", a.copy())
    # initializer that is also a graph input -> skipped
    gi = init("gi", a.copy())
    # initializer without constant value -> skipped with a warning
    nv = ir.Value(name="nv", shape=ir.Shape([2]), type=ir.TensorType(ir.DataType.FLOAT))
    # empty tensors
    e1 = init("e1", np.zeros((0,), dtype=np.float32))
    e2 = init("e2", np.zeros((0,), dtype=np.float32))

    # subgraph with its own duplicates (also duplicates of the outer ones: must stay local)
    sw1, sw2 = init("sw1", a.copy()), init("sw2", a.copy())
    sub_add = ir.node("Add", [sw1, sw2], name="sub_add")
    sub_add.outputs[0].name = "sub_out"
    sub_add2 = ir.node("Add", [sub_add.outputs[0], w2], name="sub_add2")
    sub_add2.outputs[0].name = "sub_out2"
    then_g = ir.Graph(
        [], [sub_add2.outputs[0]], nodes=[sub_add, sub_add2], initializers=[sw1, sw2], name="then"
    )
    ew = init("ew", a.copy())
    else_id = ir.node("Identity", [ew], name="else_id")
    else_id.outputs[0].name = "else_out"
    else_g = ir.Graph([], [else_id.outputs[0]], nodes=[else_id], initializers=[ew], name="else")

    cond = init("cond", np.array(True))
    n1 = ir.node("Add", [x, w1], name="n1")
    n2 = ir.node("Add", [n1.outputs[0], w2], name="n2")
    n3 = ir.node("Add", [w3, w3], name="n3")  # duplicated use of the same value
    n4 = ir.node("Add", [n2.outputs[0], n3.outputs[0]], name="n4")
    n5 = ir.node("Add", [i1, i2], name="n5")
    n6 = ir.node("Concat", [s1, s2], name="n6", attributes={"axis": 0})
    n7 = ir.node("Add", [b1, b2], name="n7")
    n8 = ir.node("Add", [r1, gi], name="n8")
    n9 = ir.node("Add", [nv, o1], name="n9")
    n10 = ir.node("Add", [e1, e2], name="n10")
    nif = ir.node(
        "If",
        [cond],
        name="nif",
        attributes={"then_branch": then_g, "else_branch": else_g},
    )
    nodes = [n1, n2, n3, n4, n5, n6, n7, n8, n9, n10, nif]
    for n in nodes:
        n.outputs[0].name = n.name + "_out"
    graph = ir.Graph(
        [x, gi],
        [n4.outputs[0], n5.outputs[0], n6.outputs[0], n7.outputs[0], n8.outputs[0],
         n9.outputs[0], n10.outputs[0], nif.outputs[0], o1],
        nodes=nodes,
        initializers=[w1, w2, w3, i1, i2, r1, s1, s2, b1, b2, o1, gi, nv, e1, e2, cond],
        opset_imports={"": 20},
        name="main",
    )
    return ir.Model(graph, ir_version=10)


def check_links(model, tag):
    for graph in model.graphs():
        owned = set()
        for node in graph:
            check(node.graph is graph, f"{tag}: node {node.name} has wrong owner")
            owned.add(node)
            for idx, inp in enumerate(node.inputs):
                if inp is None:
                    continue
                check((node, idx) in inp.uses(), f"{tag}: use ({node.name},{idx}) missing on {inp.name}")
        for name, value in graph.initializers.items():
            check(value.name == name, f"{tag}: initializer key {name} != value name {value.name}")
            check(value.is_initializer(), f"{tag}: {name} is not flagged as initializer")
            for user, idx in value.uses():
                check(user.inputs[idx] is value, f"{tag}: stale use on {name}")
    # every initializer value referenced from a node must be registered in some graph
    registered = {v for g in model.graphs() for v in g.initializers.values()}
    for graph in model.graphs():
        for node in graph:
            for inp in node.inputs:
                if inp is not None and inp.producer() is None and not inp.is_graph_input():
                    check(inp in registered, f"{tag}: dangling value {inp.name} used by {node.name}")


def names(model):
    return [sorted(g.initializers) for g in model.graphs()]


def run_contract(pass_, expected_names, tag):
    model = build_model()
    before = ser(model)
    check_links(model, tag + "/before")
    result = pass_(model)
    check(result.model is model, f"{tag}: in-place pass must return its input model")
    after = ser(model)
    check(result.modified == (before != after), f"{tag}: modified flag does not match serialization")
    check(result.modified is True, f"{tag}: expected a modification")
    check(names(model) == expected_names, f"{tag}: unexpected survivors {names(model)}")
    check_links(model, tag + "/after")
    # merged values must have no uses any more; kept ones took them over
    main = model.graph
    if "w1" in main.initializers and "w2" not in main.initializers:
        w1 = main.initializers["w1"]
        users = sorted((n.name, i) for n, i in w1.uses())
        check(
            users == [("n1", 1), ("n2", 1), ("n3", 0), ("n3", 1), ("sub_add2", 1)],
            f"{tag}: w1 users {users}",
        )
    # fixpoint
    rounds = 0
    while True:
        prev = ser(model)
        again = pass_(model)
        rounds += 1
        check(again.model is model, f"{tag}: identity on round {rounds}")
        now = ser(model)
        check(again.modified == (prev != now), f"{tag}: modified flag on round {rounds}")
        if not again.modified:
            break
        check(rounds < 20, f"{tag}: no convergence")
        if rounds >= 20:
            break
    check(rounds == 1, f"{tag}: second application should already be a no-op, took {rounds}")
    check_links(model, tag + "/fixpoint")
    return model


def main():
    # 1. small limit: b1/b2 (64 elements) are skipped
    run_contract(
        DeduplicateInitializersPass(size_limit=16),
        [
            ["b1", "b2", "cond", "e1", "gi", "i1", "nv", "o1", "r1", "s1", "w1"],
            ["sw1"],
            ["ew"],
        ],
        "plain/16",
    )
    # 2. default limit: b2 merged too
    run_contract(
        DeduplicateInitializersPass(),
        [
            ["b1", "cond", "e1", "gi", "i1", "nv", "o1", "r1", "s1", "w1"],
            ["sw1"],
            ["ew"],
        ],
        "plain/default",
    )
    # 3. hashed pass, including string tensors and the 64-element tensors
    run_contract(
        DeduplicateHashedInitializersPass(),
        [
            ["b1", "cond", "e1", "gi", "i1", "nv", "o1", "r1", "s1", "w1"],
            ["sw1"],
            ["ew"],
        ],
        "hashed/default",
    )
    run_contract(
        DeduplicateHashedInitializersPass(size_limit=16),
        [
            ["b1", "b2", "cond", "e1", "gi", "i1", "nv", "o1", "r1", "s1", "w1"],
            ["sw1"],
            ["ew"],
        ],
        "hashed/16",
    )

    # 4. size_limit=0: only empty tensors are candidates
    model = build_model()
    before = ser(model)
    res = DeduplicateInitializersPass(size_limit=0)(model)
    check(res.model is model, "limit0: identity")
    check(res.modified == (before != ser(model)), "limit0: modified flag")
    check("e2" not in model.graph.initializers and "w2" in model.graph.initializers, "limit0: survivors")
    check_links(model, "limit0")

    # 5. empty graph and graph without duplicates: no modification, identical bytes
    empty = ir.Model(ir.Graph([], [], nodes=[], opset_imports={"": 20}, name="empty"), ir_version=10)
    for p in (DeduplicateInitializersPass(), DeduplicateHashedInitializersPass()):
        before = ser(empty)
        r = p(empty)
        check(r.model is empty and r.modified is False and ser(empty) == before, "empty: unchanged")

    # 6. composition in a PassManager, run to fixpoint
    model = build_model()
    pm = ir.passes.PassManager(
        [DeduplicateInitializersPass(size_limit=16), DeduplicateInitializersPass()], steps=5, early_stop=True
    )
    before = ser(model)
    r = pm(model)
    check(r.model is model and r.modified and before != ser(model), "pm: contract")
    check("b2" not in model.graph.initializers, "pm: second pass merged b2")
    prev = ser(model)
    r = pm(model)
    check(r.model is model and not r.modified and prev == ser(model), "pm: fixpoint")
    check_links(model, "pm")

    # 7. rejected call: the content of an initializer cannot be read (lazy tensor whose loader
    # fails). The pass must fail (PassError from the manager) and leave links consistent; initializers that
    # come before the broken one were not candidates for removal, so nothing was removed.
    def broken():
        raise RuntimeError("backing store is gone")

    for pass_ in (DeduplicateInitializersPass(), DeduplicateHashedInitializersPass()):
        model = build_model()
        lazy = ir.LazyTensor(broken, dtype=ir.DataType.FLOAT, shape=ir.Shape([2]), name="w2")
        model.graph.initializers["w2"].const_value = lazy
        names_before = names(model)
        try:
            ir.passes.PassManager([pass_])(model)
        except ir.passes.PassError as e:
            root = e
            while root.__cause__ is not None:
                root = root.__cause__
            check(
                type(root) is RuntimeError and "backing store is gone" in str(root),
                "broken tensor: root cause is the loader error",
            )
        else:
            check(False, "broken tensor: the pass manager must fail with PassError")
        try:
            pass_(model)
        except RuntimeError as e:
            check("backing store is gone" in str(e), "broken tensor: the loader error propagates")
        else:
            check(False, "broken tensor: the pass must fail")
        check(names(model) == names_before, "broken tensor: nothing removed before the failure")
        check_links(model, "broken tensor")
        w1 = model.graph.initializers["w1"]
        check(sorted((n.name, i) for n, i in w1.uses()) == [("n1", 1)], "broken tensor: w1 uses unchanged")

    if FAILURES:
        print(f"{len(FAILURES)} failure(s)")
        return 1
    print("demo OK")
    return 0


if __name__ == "__main__":
    sys.exit(main())
