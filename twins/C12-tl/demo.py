"""Demo for C12: Graph.sort / Function.sort across scopes, stable, deterministic, atomic."""

import itertools
import random

import onnx_ir as ir
from onnx_ir.passes.common import TopologicalSortPass
from onnx_ir.traversal import RecursiveGraphIterator


def all_graphs(graph):
    """The graph and every nested subgraph, in a fixed order."""
    result = [graph]
    for node in graph:
        for attr in node.attributes.values():
            if attr.type == ir.AttributeType.GRAPH:
                result.extend(all_graphs(attr.value))
            elif attr.type == ir.AttributeType.GRAPHS:
                for g in attr.value:
                    result.extend(all_graphs(g))
    return result


def snapshot(graph):
    return [(g, list(g)) for g in all_graphs(graph)]


def used_values(node):
    """Values used by the node or by any node nested inside it."""
    for v in node.inputs:
        if v is not None:
            yield v
    for attr in node.attributes.values():
        subgraphs = ()
        if attr.type == ir.AttributeType.GRAPH:
            subgraphs = (attr.value,)
        elif attr.type == ir.AttributeType.GRAPHS:
            subgraphs = attr.value
        for g in subgraphs:
            for inner in g:
                yield from used_values(inner)


def check_sorted(graph):
    for g in all_graphs(graph):
        position = {id(n): i for i, n in enumerate(g)}
        for n in g:
            assert n.graph is g
            for v in used_values(n):
                p = v.producer()
                if p is not None and p.graph is g:
                    assert position[id(p)] < position[id(n)], (p.name, n.name)


def build():
    """Outer graph with If (GRAPH attrs) and a node with a GRAPHS attr, nested two levels,
    capturing values from both enclosing scopes; optional (None) and repeated inputs;
    a multi-output node."""
    x = ir.Value(name="x", type=ir.TensorType(ir.DataType.FLOAT), shape=ir.Shape([1]))
    a = ir.Node("", "Split", [x], num_outputs=2, name="a")
    b = ir.Node("", "Add", [a.outputs[0], a.outputs[0]], name="b")  # repeated input
    c = ir.Node("", "Clip", [a.outputs[1], None, b.outputs[0]], name="c")  # optional input
    d = ir.Node("", "Relu", [x], name="d")  # independent
    late = ir.Node("", "Neg", [c.outputs[0]], name="late")  # only used inside inner-inner graph

    # innermost graph captures `late` (outer) and `m1` output (middle)
    m1 = ir.Node("", "Abs", [b.outputs[0]], name="m1")
    i1 = ir.Node("", "Mul", [late.outputs[0], m1.outputs[0]], name="i1")
    i2 = ir.Node("", "Exp", [i1.outputs[0]], name="i2")
    innermost = ir.Graph([], [i2.outputs[0]], nodes=[i2, i1], name="innermost")
    m2 = ir.Node(
        "", "If", [m1.outputs[0]], attributes=[ir.AttrGraph("then_branch", innermost)], name="m2"
    )
    m3 = ir.Node("", "Sin", [m2.outputs[0]], name="m3")
    middle = ir.Graph([], [m3.outputs[0]], nodes=[m3, m2, m1], name="middle")

    e1 = ir.Node("", "Cos", [d.outputs[0]], name="e1")
    e2 = ir.Node("", "Tan", [e1.outputs[0]], name="e2")
    other = ir.Graph([], [e2.outputs[0]], nodes=[e2, e1], name="other")
    empty = ir.Graph([], [], nodes=[], name="empty")
    g1 = ir.Node("", "Sqrt", [d.outputs[0]], name="g1")
    g2 = ir.Node("", "Log", [g1.outputs[0]], name="g2")
    extra = ir.Graph([], [g2.outputs[0]], nodes=[g2, g1], name="extra")

    cond = ir.Node(
        "",
        "If",
        [x],
        attributes=[ir.AttrGraph("then_branch", middle), ir.AttrGraph("else_branch", other)],
        name="cond",
    )
    multi = ir.Node(
        "custom", "Multi", [cond.outputs[0]], attributes=[ir.AttrGraphs("gs", [empty, extra])], name="multi"
    )
    nodes = [multi, cond, late, d, c, b, a]
    return x, nodes, multi


def main():
    # 1. All permutations of a small slice + random permutations of the whole thing
    rng = random.Random(12)
    orders = []
    for _ in range(40):
        x, nodes, multi = build()
        perm = list(range(len(nodes)))
        rng.shuffle(perm)
        graph = ir.Graph([x], [multi.outputs[0]], nodes=[nodes[i] for i in perm], name="main")
        own = {id(g): sorted(id(n) for n in g) for g in all_graphs(graph)}
        graph.sort()
        check_sorted(graph)
        # each graph keeps exactly its own nodes
        for g in all_graphs(graph):
            assert sorted(id(n) for n in g) == own[id(g)]
        # idempotent / already sorted graph left exactly as is
        before = snapshot(graph)
        graph.sort()
        after = snapshot(graph)
        for (g1, l1), (g2, l2) in zip(before, after):
            assert g1 is g2 and len(l1) == len(l2) and all(p is q for p, q in zip(l1, l2))
        # deterministic: same structure and permutation gives same order
        x2, nodes2, multi2 = build()
        graph2 = ir.Graph([x2], [multi2.outputs[0]], nodes=[nodes2[i] for i in perm], name="main")
        graph2.sort()
        names1 = [[n.name for n in g] for g in all_graphs(graph)]
        names2 = [[n.name for n in g] for g in all_graphs(graph2)]
        assert names1 == names2
        orders.append(names1)
    # the nested graphs always end up in the unique valid order
    for names in orders:
        flat = {tuple(l) for l in names}
        assert ("m1", "m2", "m3") in flat and ("i1", "i2") in flat and ("e1", "e2") in flat and ("g1", "g2") in flat

    # 2. Stability: independent nodes keep relative order
    for perm in itertools.islice(itertools.permutations(range(6)), 0, 720, 37):
        x = ir.Value(name="x")
        ind = [ir.Node("", "Relu", [x], name=f"n{i}") for i in perm]
        g = ir.Graph([x], [], nodes=ind)
        g.sort()
        assert [n.name for n in g] == [f"n{i}" for i in perm]

    # 3. Empty graph
    g = ir.Graph([], [], nodes=[])
    g.sort()
    assert len(g) == 0

    # 4. Cycle: inside a nested subgraph -> ValueError, nothing changes anywhere
    x, nodes, multi = build()
    graph = ir.Graph([x], [multi.outputs[0]], nodes=nodes, name="main")
    innermost = [g for g in all_graphs(graph) if g.name == "innermost"][0]
    i2, i1 = list(innermost)
    i1.replace_input_with(0, i2.outputs[0])  # i1 <- i2 <- i1
    before = snapshot(graph)
    try:
        graph.sort()
    except ValueError as e:
        assert "cycle" in str(e)
    else:
        raise AssertionError("cycle not detected")
    after = snapshot(graph)
    for (g1, l1), (g2, l2) in zip(before, after):
        assert g1 is g2 and len(l1) == len(l2) and all(p is q for p, q in zip(l1, l2))

    # 4b. Cycle through a captured value: outer node uses output of the node holding the subgraph
    #     whose body uses that outer node's output.
    x = ir.Value(name="x")
    holder_in = ir.Node("", "Relu", [x], name="p")
    inner = ir.Node("", "Abs", [None], name="inner")
    sub = ir.Graph([], [inner.outputs[0]], nodes=[inner], name="sub")
    holder = ir.Node("", "If", [holder_in.outputs[0]], attributes=[ir.AttrGraph("then_branch", sub)], name="h")
    user = ir.Node("", "Neg", [holder.outputs[0]], name="u")
    inner.replace_input_with(0, user.outputs[0])
    graph = ir.Graph([x], [], nodes=[user, holder, holder_in])
    before = snapshot(graph)
    try:
        graph.sort()
    except ValueError:
        pass
    else:
        raise AssertionError("cycle through captured value not detected")
    after = snapshot(graph)
    for (g1, l1), (g2, l2) in zip(before, after):
        assert g1 is g2 and all(p is q for p, q in zip(l1, l2)) and len(l1) == len(l2)

    # 5. Function.sort and the pass
    x, nodes, multi = build()
    fgraph = ir.Graph([x], [multi.outputs[0]], nodes=nodes, name="f")
    func = ir.Function("dom", "F", graph=fgraph, attributes=[])
    func.sort()
    check_sorted(fgraph)
    x, nodes, multi = build()
    model = ir.Model(ir.Graph([x], [multi.outputs[0]], nodes=nodes, name="main"), ir_version=10)
    assert TopologicalSortPass()(model).modified is True
    assert TopologicalSortPass()(model).modified is False
    check_sorted(model.graph)

    # 6. The traversal used by sort: callbacks and reversed order
    events = []
    it = RecursiveGraphIterator(
        model.graph,
        enter_graph=lambda g: events.append(("enter", g.name)),
        exit_graph=lambda g: events.append(("exit", g.name)),
    )
    forward = [n.name for n in it]
    assert forward == [
        "d", "a", "b", "c", "late", "cond", "m1", "m2", "i1", "i2", "m3", "e1", "e2", "multi", "g1", "g2",
    ], forward
    # each nested graph is entered/exited twice (once by the parent, once by its own iterator)
    assert events.count(("enter", "innermost")) == 2 and events.count(("exit", "innermost")) == 2
    assert events.count(("enter", "empty")) == 2 and events.count(("exit", "empty")) == 2
    assert events.count(("enter", "main")) == 1 and events.count(("exit", "main")) == 1
    assert events[0] == ("enter", "main") and events[-1] == ("exit", "main")
    backward = [n.name for n in reversed(RecursiveGraphIterator(model.graph))]
    assert backward == [
        "multi", "g2", "g1", "cond", "m3", "m2", "i2", "i1", "m1", "e2", "e1", "late", "c", "b", "a", "d",
    ], backward
    no_recurse = [n.name for n in RecursiveGraphIterator(model.graph, recursive=lambda n: n.name != "m2")]
    assert "i1" not in no_recurse and "m3" in no_recurse

    print("C12 demo OK")


if __name__ == "__main__":
    main()
