"""Demo for property C07: external-data save/load preserves every initializer.

Exercises the writer behind ``ir.save(..., external_data=...)``: the staging
file that atomically replaces the destination, the serial and the parallel
writer (with and without a shared byte budget, i.e. with and without shards),
duplicated tensor objects, zero-size and sub-byte tensors, subgraphs, already
external tensors backed by the destination, and calls that fail half-way.
"""

from __future__ import annotations

import itertools
import logging
import os
import sys
import tempfile

import numpy as np
import onnx

import onnx_ir as ir

CHECKS = 0
logging.disable(logging.WARNING)  # oversized-shard and uninitialized-value warnings are expected


def check(cond: bool, msg: str) -> None:
    global CHECKS
    CHECKS += 1
    if not cond:
        print("FAIL:", msg)
        sys.exit(1)


def make_model(extra=()) -> ir.Model:
    rng = np.random.default_rng(7)
    big = ir.Tensor(rng.standard_normal((40, 30)).astype(np.float32), name="big")  # 4800 B
    mid = ir.Tensor(rng.integers(0, 100, size=(301,), dtype=np.int64), name="mid")  # 2408 B
    small = ir.Tensor(np.arange(5, dtype=np.int32), name="small")  # 20 B
    empty = ir.Tensor(np.zeros((0, 4), dtype=np.float32), name="empty")
    int4 = ir.Tensor(
        rng.integers(0, 15, size=(33, 21)).astype(np.uint8), dtype=ir.DataType.UINT4, name="int4"
    )
    lazy_data = rng.standard_normal((1000,)).astype(np.float16)
    lazy = ir.LazyTensor(
        lambda: ir.Tensor(lazy_data, name="lazy"),
        dtype=ir.DataType.FLOAT16,
        shape=ir.Shape([1000]),
        name="lazy",
    )
    proto = onnx.numpy_helper.from_array(
        rng.standard_normal((17, 19)).astype(np.float64), name="proto"
    )
    proto_tensor = ir.serde.TensorProtoTensor(proto)
    shared = ir.Tensor(rng.integers(0, 255, size=(1500,), dtype=np.uint8), name="shared")

    def sub(name: str, tensors) -> ir.Graph:
        inits = [ir.Value(name=f"{name}_{t.name}", const_value=t) for t in tensors]
        out = ir.Value(name=f"{name}_out")
        node = ir.Node("", "Identity", inputs=[inits[0]], outputs=[out])
        return ir.Graph(inputs=[], outputs=[out], nodes=[node], initializers=inits, name=name)

    sub_big = ir.Tensor(rng.standard_normal((25, 25)).astype(np.float32), name="sub_big")
    then_graph = sub("then", [sub_big, shared])
    else_graph = sub("else", [ir.Tensor(np.ones((700,), dtype=np.float32), name="ones")])

    values = [
        ir.Value(name=t.name, const_value=t)
        for t in (big, small, empty, int4, lazy, mid, proto_tensor, shared, *extra)
    ]
    # The same tensor object under a second initializer of the main graph
    values.append(ir.Value(name="shared_again", const_value=shared))
    # An initializer without a value is skipped
    values.append(
        ir.Value(name="uninit", type=ir.TensorType(ir.DataType.FLOAT), shape=ir.Shape([1]))
    )
    cond = ir.Value(name="cond", type=ir.TensorType(ir.DataType.BOOL), shape=ir.Shape([]))
    if_out = ir.Value(name="if_out")
    if_node = ir.Node(
        "",
        "If",
        inputs=[cond],
        attributes=[ir.AttrGraph("then_branch", then_graph), ir.AttrGraph("else_branch", else_graph)],
        outputs=[if_out],
    )
    graph = ir.Graph(
        inputs=[cond], outputs=[if_out], nodes=[if_node], initializers=values, name="main"
    )
    return ir.Model(graph, ir_version=10)


def initializer_items(model: ir.Model):
    return [
        (gi, name, value)
        for gi, graph in enumerate(model.graphs())
        for name, value in graph.initializers.items()
    ]


def snapshot(model: ir.Model):
    return [(gi, name, value, value.const_value) for gi, name, value in initializer_items(model)]


def same_objects(model: ir.Model, snap) -> bool:
    now = snapshot(model)
    return len(now) == len(snap) and all(
        a[0] == b[0] and a[1] == b[1] and a[2] is b[2] and a[3] is b[3]
        for a, b in zip(now, snap)
    )


def leftovers(directory: str, allowed: set[str]) -> list[str]:
    return sorted(set(os.listdir(directory)) - allowed)


def verify_roundtrip(original, path, threshold, alignment, align_threshold, shard, data_name):
    directory = os.path.dirname(path)
    loaded = ir.load(path)
    orig_items = [(g, n, v) for g, n, v in initializer_items(original) if v.const_value is not None]
    new_items = [(g, n, v) for g, n, v in initializer_items(loaded) if v.const_value is not None]
    check(
        [(g, n) for g, n, _ in orig_items] == [(g, n) for g, n, _ in new_items],
        "initializer names/order differ",
    )
    per_file: dict[str, list] = {}
    for (_, name, ov), (_, _, nv) in zip(orig_items, new_items):
        ot, nt = ov.const_value, nv.const_value
        # The initializer's name is what is serialized as the tensor name
        check(nt.name == name, f"{name}: tensor name {nt.name!r}")
        check(nt.dtype == ot.dtype, f"{name}: dtype")
        check(list(nt.shape) == list(ot.shape), f"{name}: shape")
        check(nt.tobytes() == ot.tobytes(), f"{name}: bytes")
        is_external = isinstance(nt, ir.ExternalTensor)
        check(is_external == (ot.nbytes > threshold), f"{name}: external vs threshold")
        if is_external:
            check(nt.length == ot.nbytes, f"{name}: length")
            per_file.setdefault(os.fspath(nt.location), []).append(nt)
    # Layout of every data file
    for location, tensors in per_file.items():
        file_size = os.path.getsize(os.path.join(directory, location))
        end = 0
        for t in tensors:
            check(t.offset >= end, f"{location}: {t.name} overlaps or is out of order")
            check(t.offset + t.length <= file_size, f"{location}: {t.name} beyond the file")
            if alignment is not None and t.length > align_threshold:
                check(t.offset % max(4096, alignment) == 0, f"{location}: {t.name} not aligned")
            else:
                check(t.offset == end, f"{location}: {t.name} not densely packed")
            end = t.offset + t.length
        check(end == file_size, f"{location}: trailing bytes")
        if shard is not None:
            check(end <= shard or len(tensors) == 1, f"{location}: shard exceeds the limit")
    if shard is None or len(per_file) <= 1:
        # A single shard keeps the plain name
        check(set(per_file) <= {data_name}, "single file expected")
    else:
        n = len(per_file)
        # (where exactly the counter goes in a dotted stem is not this demo's business)
        for i in range(1, n + 1):
            hits = [p for p in per_file if f"-{i:05d}-of-{n:05d}" in os.path.basename(p)]
            check(len(hits) == 1, f"shard {i} of {n} not found exactly once in {sorted(per_file)}")
        check(
            all(os.path.dirname(p) == os.path.dirname(data_name) for p in per_file),
            "shards not in the requested sub-directory",
        )
    return per_file


def main() -> None:
    grid = itertools.product(
        (0, 100, 2408, 10**6),  # size threshold
        ((None, 0), (4096, 2000), (8192, 0)),  # alignment, align_threshold
        (None, 1, 3, 16),  # max_workers
        (None, 5000, 1, 10**9),  # max_shard_size_bytes
    )
    for threshold, (alignment, align_threshold), workers, shard in grid:
        with tempfile.TemporaryDirectory() as tmp:
            model = make_model()
            snap = snapshot(model)
            os.makedirs(os.path.join(tmp, "weights.d"))
            path = os.path.join(tmp, "net.v1.onnx")
            data_name = os.path.join("weights.d", "net.v1.data")
            seen = []
            ir.save(
                model,
                path,
                external_data=data_name,
                size_threshold_bytes=threshold,
                max_shard_size_bytes=shard,
                max_workers=workers,
                max_in_flight_bytes=3000,  # smaller than "big": exercises the oversized path
                alignment=alignment,
                align_threshold=align_threshold,
                callback=lambda t, info: seen.append((t.name, info.index, info.total)),
            )
            check(same_objects(model, snap), "model changed by save")
            per_file = verify_roundtrip(
                model, path, threshold, alignment, align_threshold, shard, data_name
            )
            n_ext = sum(len(v) for v in per_file.values())
            check(len(seen) == n_ext, "callback count")
            check(sorted(i for _, i, _ in seen) == list(range(n_ext)), "callback indices")
            check(all(total == n_ext for _, _, total in seen), "callback total")
            # No staging directory or file is left behind
            check(leftovers(tmp, {"net.v1.onnx", "weights.d"}) == [], "leftovers next to the model")
            allowed = set(os.path.basename(p) for p in per_file) | (
                {"net.v1.data"} if len(per_file) <= 1 else set()
            )
            check(leftovers(os.path.join(tmp, "weights.d"), allowed) == [], "leftover staging files")

    # Re-saving a loaded model over the data file its tensors are backed by
    for workers in (None, 4):
        with tempfile.TemporaryDirectory() as tmp:
            model = make_model()
            path = os.path.join(tmp, "m.onnx")
            ir.save(model, path, external_data="m.data", size_threshold_bytes=100)
            os.chmod(os.path.join(tmp, "m.data"), 0o640)
            loaded = ir.load(path)
            snap = snapshot(loaded)
            expected = {(g, n): v.const_value.tobytes() for g, n, v, _ in snap if v.const_value}
            old_external = [t for *_, t in snap if isinstance(t, ir.ExternalTensor)]
            check(len(old_external) >= 5, "expected external tensors after load")
            # threshold raised: "mid"-sized and smaller external tensors go back inline
            ir.save(
                loaded,
                path,
                external_data="m.data",
                size_threshold_bytes=2500,
                max_workers=workers,
                alignment=4096,
                align_threshold=0,
            )
            check(same_objects(loaded, snap), "model changed by same-path save")
            rewritten = [t for t in old_external if t.nbytes > 2500]
            check(all(not t.valid() for t in rewritten), "overwritten tensors not invalidated")
            check(os.stat(os.path.join(tmp, "m.data")).st_mode & 0o777 == 0o640, "mode lost")
            check(leftovers(tmp, {"m.onnx", "m.data"}) == [], "leftovers after same-path save")
            again = ir.load(path)
            for gi, name, value in initializer_items(again):
                if value.const_value is None:
                    continue
                check(value.const_value.tobytes() == expected[(gi, name)], f"{name} after re-save")
                check(
                    isinstance(value.const_value, ir.ExternalTensor)
                    == (value.const_value.nbytes > 2500),
                    f"{name}: external vs threshold after re-save",
                )

    # A tensor that fails half-way: save raises, destination untouched, nothing left behind
    class Boom(RuntimeError):
        pass

    def explode():
        raise Boom("cannot materialize")

    for workers, shard in itertools.product((None, 1, 4), (None, 6000)):
        with tempfile.TemporaryDirectory() as tmp:
            bad = ir.LazyTensor(
                explode, dtype=ir.DataType.FLOAT, shape=ir.Shape([600]), name="bad"
            )
            model = make_model(extra=(bad,))
            snap = snapshot(model)
            path = os.path.join(tmp, "m.onnx")
            data_path = os.path.join(tmp, "m.data")
            if shard is None:
                with open(data_path, "wb") as f:
                    f.write(b"precious")
            try:
                ir.save(
                    model,
                    path,
                    external_data="m.data",
                    size_threshold_bytes=0,
                    max_workers=workers,
                    max_shard_size_bytes=shard,
                )
            except Boom:
                pass
            else:
                check(False, "save should have raised")
            check(same_objects(model, snap), "model changed by failed save")
            check(not os.path.exists(path), "model file written despite failure")
            if shard is None:
                with open(data_path, "rb") as f:
                    check(f.read() == b"precious", "destination clobbered by failed save")
                check(leftovers(tmp, {"m.data"}) == [], "leftovers after failed save")
            else:
                # Shards written before the failing one may remain; staging dirs may not
                check(
                    all(n.startswith("m-") and n.endswith(".data") for n in os.listdir(tmp)),
                    f"leftovers after failed sharded save: {os.listdir(tmp)}",
                )

    # Rejected calls: existing shard file, bad option values; the model is untouched
    with tempfile.TemporaryDirectory() as tmp:
        model = make_model()
        snap = snapshot(model)
        path = os.path.join(tmp, "m.onnx")
        ir.save(model, path, external_data="m.data", max_shard_size_bytes=5000)
        listing = sorted(os.listdir(tmp))
        try:
            ir.save(model, path, external_data="m.data", max_shard_size_bytes=5000, max_workers=2)
        except FileExistsError:
            pass
        else:
            check(False, "FileExistsError expected")
        check(sorted(os.listdir(tmp)) == listing, "files changed by the rejected save")
        check(same_objects(model, snap), "model changed by the rejected save")
        for kwargs in (
            {"max_workers": 0},
            {"max_in_flight_bytes": 0},
            {"alignment": 0},
            {"align_threshold": -1},
            {"max_shard_size_bytes": 0},
        ):
            try:
                ir.save(model, os.path.join(tmp, "n.onnx"), external_data="n.data", **kwargs)
            except ValueError:
                pass
            else:
                check(False, f"ValueError expected for {kwargs}")
            check(sorted(os.listdir(tmp)) == listing, f"files changed by rejected {kwargs}")
            check(same_objects(model, snap), f"model changed by rejected {kwargs}")

    # Empty input: nothing above the threshold, and a direct call with no tensors
    for workers in (None, 4):
        with tempfile.TemporaryDirectory() as tmp:
            model = make_model()
            path = os.path.join(tmp, "m.onnx")
            ir.save(
                model, path, external_data="m.data", size_threshold_bytes=10**7, max_workers=workers
            )
            check(os.path.getsize(os.path.join(tmp, "m.data")) == 0, "empty data file expected")
            check(leftovers(tmp, {"m.onnx", "m.data"}) == [], "leftovers for the empty save")
            verify_roundtrip(model, path, 10**7, None, 0, None, "m.data")
            result = ir.external_data.convert_tensors_to_external(
                [], tmp, "none.data", max_workers=workers
            )
            check(result == [], "no tensors expected")
            check(os.path.getsize(os.path.join(tmp, "none.data")) == 0, "empty file expected")

    # Direct use with a duplicated tensor object, serial and parallel: identical files
    with tempfile.TemporaryDirectory() as tmp:
        rng = np.random.default_rng(1)
        a = ir.Tensor(rng.integers(0, 255, size=(5000,), dtype=np.uint8), name="a")
        b = ir.Tensor(rng.integers(0, 255, size=(123,), dtype=np.uint8), name="b")
        tensors = [a, b, a, a, b]
        contents = []
        for i, workers in enumerate((None, 1, 2, 8)):
            ext = ir.external_data.convert_tensors_to_external(
                tensors, tmp, f"d{i}.bin", max_workers=workers, alignment=4096, align_threshold=200
            )
            check([t.offset for t in ext] == [0, 5000, 8192, 16384, 21384], "offsets")
            check([t.tobytes() for t in ext] == [t.tobytes() for t in tensors], "bytes")
            with open(os.path.join(tmp, f"d{i}.bin"), "rb") as f:
                contents.append(f.read())
        check(all(c == contents[0] for c in contents), "serial and parallel files differ")
        check(len(contents[0]) == 21384 + 123, "file size")

    print(f"OK ({CHECKS} checks)")


if __name__ == "__main__":
    main()
