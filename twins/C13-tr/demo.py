"""C13 demo: clones own their shapes (dims + denotations) and metadata stores."""
import onnx_ir as ir
from onnx_ir import _metadata


def text(obj):
    return ir.to_proto(obj).SerializeToString(deterministic=True)


def build():
    x = ir.Value(name="x", type=ir.TensorType(ir.DataType.FLOAT),
                 shape=ir.Shape(["N", 3, None, 3], denotations=["DATA_BATCH", None, "DATA_FEATURE", None]))
    frozen = ir.Shape([2, 2], frozen=True)
    y = ir.Value(name="y", type=ir.TensorType(ir.DataType.FLOAT), shape=frozen)
    noshape = ir.Value(name="noshape", type=ir.TensorType(ir.DataType.FLOAT))
    scalar = ir.Value(name="scalar", type=ir.TensorType(ir.DataType.FLOAT), shape=ir.Shape([]))
    # nested subgraph whose node captures x (outer scope) and has its own shaped output
    inner = ir.Node("", "Neg", [x], name="inner_neg")
    inner.outputs[0].name = "inner_out"
    inner.outputs[0].shape = ir.Shape(["N", 3], denotations=["DATA_BATCH", "DATA_CHANNEL"])
    inner.outputs[0].type = ir.TensorType(ir.DataType.FLOAT)
    sub = ir.Graph([], [inner.outputs[0]], nodes=[inner], name="then_branch")
    node = ir.Node("", "If", [y], [ir.AttrGraph("then_branch", sub)], name="if_node")
    out = node.outputs[0]
    out.name = "out"
    out.shape = ir.Shape(["N", 3], denotations=[None, "DATA_CHANNEL"])
    out.type = ir.TensorType(ir.DataType.FLOAT)
    # duplicate use of the same value
    add = ir.Node("", "Add", [out, out], name="add")
    add.outputs[0].name = "sum"
    add.outputs[0].shape = out.shape  # aliasing: two values share ONE shape object
    add.outputs[0].type = ir.TensorType(ir.DataType.FLOAT)
    # metadata: valid key, invalidated key with a value, invalidated key WITHOUT data
    out.meta["k"] = [1, 2]
    out.meta["stale"] = "v"
    out.meta.invalidate("stale")
    add.meta.invalidate("only_invalid")  # store with no data but an invalid key
    graph = ir.Graph([x, y, noshape, scalar], [add.outputs[0]], nodes=[node, add], name="g",
                     opset_imports={"": 20})
    graph.meta.invalidate("graph_only_invalid")
    return ir.Model(graph, ir_version=10)


def shapes_of(graph):
    res = {}
    for g in [graph, *[s for n in graph for a in n.attributes.values()
                       if a.type == ir.AttributeType.GRAPH for s in [a.as_graph()]]]:
        for v in [*g.inputs, *[o for n in g for o in n.outputs]]:
            res[v.name] = v
    return res


def main():
    model = build()
    before = text(model)
    for deep in (False, True):
        clone = model.clone(deep_copy=deep)
        assert text(clone) == before
        ov, cv = shapes_of(model.graph), shapes_of(clone.graph)
        assert set(ov) == set(cv)
        for name, o in ov.items():
            c = cv[name]
            assert c is not o
            if o.shape is None:
                assert c.shape is None
                continue
            assert c.shape is not o.shape and c.shape == o.shape
            assert c.shape._dims is not o.shape._dims
            assert c.shape._denotations is not o.shape._denotations
            assert [c.shape.get_denotation(i) for i in range(len(c.shape))] == \
                   [o.shape.get_denotation(i) for i in range(len(o.shape))]
            assert c.shape.frozen is False  # copies are never frozen
        assert ov["y"].shape.frozen is True
        assert cv["scalar"].shape == [] and cv["scalar"].shape.rank() == 0
        # the aliasing of one shape by two values is not carried into the clone
        assert ov["out"].shape is ov["sum"].shape and cv["out"].shape is not cv["sum"].shape
        # metadata stores
        om, cm = ov["out"].meta, cv["out"].meta
        assert cm is not om and dict(cm) == dict(om)
        assert cm.is_valid("k") and not cm.is_valid("stale") and cm["stale"] == "v"
        assert (cm["k"] is om["k"]) == (not deep)
        onode = {n.name: n for n in model.graph}
        cnode = {n.name: n for n in clone.graph}
        assert bool(onode["add"].meta) and bool(cnode["add"].meta)
        assert not cnode["add"].meta.is_valid("only_invalid") and len(cnode["add"].meta) == 0
        assert not clone.graph.meta.is_valid("graph_only_invalid")
        assert clone.graph.meta is not model.graph.meta
        assert not bool(cnode["if_node"].meta) and cnode["if_node"].meta.is_valid("anything")

        # edit the clone: dims, denotations, metadata
        cv["x"].shape[0] = 7
        cv["x"].shape.set_denotation(1, "DATA_CHANNEL")
        cv["y"].shape[1] = "M"  # original is frozen, the copy is not
        cv["inner_out"].shape[1] = None
        cv["inner_out"].shape.set_denotation(0, None)
        cv["out"].shape.set_denotation(0, "X")
        cm["k2"] = 1
        cm["stale"] = "fresh"  # becomes valid again in the clone only
        cm.invalidate("k")
        cnode["add"].meta["only_invalid"] = 5
        clone.graph.meta["graph_only_invalid"] = 1
        assert text(model) == before and text(clone) != before
        assert ov["x"].shape == ["N", 3, None, 3] and ov["x"].shape.get_denotation(1) is None
        assert ov["inner_out"].shape.get_denotation(0) == "DATA_BATCH"
        assert om.is_valid("k") and not om.is_valid("stale") and "k2" not in om and om["stale"] == "v"
        assert not onode["add"].meta.is_valid("only_invalid") and len(onode["add"].meta) == 0
        assert not model.graph.meta.is_valid("graph_only_invalid")
        try:
            ov["y"].shape[1] = 9
        except TypeError:
            pass
        else:
            raise AssertionError("frozen original must refuse")

        # edit the original: a second clone taken before must not see it
        clone2 = model.clone(deep_copy=deep)
        snap2 = text(clone2)
        ov["x"].shape[3] = 4
        ov["x"].shape.set_denotation(3, "DATA_FEATURE")
        ov["out"].meta["k"].append(3) if deep else None
        ov["out"].meta.invalidate("k")
        assert text(clone2) == snap2
        assert shapes_of(clone2.graph)["out"].meta.is_valid("k")
        if deep:
            assert shapes_of(clone2.graph)["out"].meta["k"] == [1, 2]
        model = build()  # fresh original for the next round
        assert text(model) == before

    # Shape.copy directly, incl. rejected constructions
    s = ir.Shape([1, "a", None], denotations=["p", None, "q"], frozen=True)
    c, f = s.copy(), s.copy(frozen=True)
    assert type(c) is ir.Shape and c == s and not c.frozen and f.frozen
    assert c._dims is not s._dims and c._denotations is not s._denotations
    assert c._denotations == ["p", None, "q"]
    c[0] = 5
    c.set_denotation(0, "z")
    assert s[0] == 1 and s.get_denotation(0) == "p" and f[0] == 1
    assert ir.Shape([1, 2], denotations=iter(["a", "b"])).get_denotation(1) == "b"  # one-shot iterable
    assert ir.Shape([1, 2])._denotations == [None, None]
    assert ir.Shape([], denotations=[])._denotations == [] and ir.Shape([]).copy() == []
    for bad in (["a"], ["a", "b", "c"], []):
        try:
            ir.Shape([1, 2], denotations=bad)
        except ValueError as e:
            assert "denotations" in str(e)
        else:
            raise AssertionError("denotation count mismatch must be rejected")
    try:
        ir.Shape([1, 2], denotations=5)
    except TypeError:
        pass
    else:
        raise AssertionError
    try:
        ir.Shape([1.5j])
    except TypeError:
        pass
    else:
        raise AssertionError

    # MetadataStore truthiness
    m = _metadata.MetadataStore()
    assert bool(m) is False
    m.invalidate("a")
    assert bool(m) is True and len(m) == 0
    m["a"] = 0
    assert bool(m) is True and m.is_valid("a")
    del m["a"]
    assert bool(m) is False
    print("C13 demo OK")


if __name__ == "__main__":
    main()
