"""Demo for property C09: concurrent external-data writing is schedule-independent,
bounded and live. Uses only the public API (onnx_ir.external_data / ir.*)."""

from __future__ import annotations

import os
import sys
import tempfile
import threading
import time

import numpy as np

import onnx_ir as ir
from onnx_ir import external_data


class Monitor:
    """Tracks materialised bytes and per-object concurrent evaluation."""

    def __init__(self) -> None:
        self.lock = threading.Lock()
        self.in_flight = 0
        self.peak = 0
        self.active_ids: set[int] = set()
        self.double_eval = False
        self.threads: set[int] = set()

    def reset(self) -> None:
        self.__init__()


MON = Monitor()


class TrackedTensor(ir.Tensor):
    """An ir.Tensor whose tofile() reports to the monitor (and may fail)."""

    fail = False

    def tofile(self, file) -> None:
        with MON.lock:
            if id(self) in MON.active_ids:
                MON.double_eval = True
            MON.active_ids.add(id(self))
            MON.in_flight += self.nbytes
            MON.peak = max(MON.peak, MON.in_flight)
            MON.threads.add(threading.get_ident())
        try:
            time.sleep(0.002)
            if self.fail:
                raise RuntimeError(f"boom in {self.name}")
            super().tofile(file)
        finally:
            with MON.lock:
                MON.in_flight -= self.nbytes
                MON.active_ids.discard(id(self))


def make_tensors(sizes, fail_at=()):
    tensors = []
    for i, n in enumerate(sizes):
        arr = (np.arange(n, dtype=np.int64) * (i + 3) % 251).astype(np.uint8)
        t = TrackedTensor(arr, name=f"t{i}")
        if i in fail_at:
            t.fail = True
        tensors.append(t)
    return tensors


def read(path):
    with open(path, "rb") as f:
        return f.read()


def check(cond, msg):
    if not cond:
        print("FAIL:", msg)
        sys.exit(1)


def locs(ext):
    return [(os.fspath(e.location), e.offset, e.length) for e in ext]


def main() -> None:
    sizes = [300, 5000, 64, 7000, 1200, 0, 6500, 900, 4100, 10, 2500, 8000]
    budget = 3000  # several tensors (5000, 7000, 6500, 4100, 8000) exceed it
    largest = max(sizes)

    with tempfile.TemporaryDirectory() as d:
        # ---- single file: serial reference vs. concurrent --------------------
        tensors = make_tensors(sizes)
        # a tensor object used twice (duplicate element in the sequence)
        tensors_dup = tensors + [tensors[3], tensors[1]]
        ref = external_data.convert_tensors_to_external(tensors_dup, d, "ref.data")
        ref_bytes = read(os.path.join(d, "ref.data"))
        check(len(ref_bytes) == sum(t.nbytes for t in tensors_dup), "dense packing")

        for workers in (2, 3, 8):
            for align in (None, 4096):
                MON.reset()
                calls = []
                cb_active = [0]
                cb_overlap = [False]

                def cb(tensor, info, calls=calls, a=cb_active, o=cb_overlap):
                    a[0] += 1
                    if a[0] > 1:
                        o[0] = True
                    time.sleep(0.0005)
                    calls.append((info.index, info.total, info.offset, info.filename))
                    a[0] -= 1

                name = f"par_{workers}_{align}.data"
                sname = f"ser_{workers}_{align}.data"
                out = external_data.convert_tensors_to_external(
                    tensors_dup,
                    d,
                    name,
                    callback=cb,
                    max_workers=workers,
                    max_in_flight_bytes=budget,
                    alignment=align,
                    align_threshold=1000,
                )
                ser = external_data.convert_tensors_to_external(
                    tensors_dup, d, sname, alignment=align, align_threshold=1000
                )
                check(
                    read(os.path.join(d, name)) == read(os.path.join(d, sname)),
                    f"bytes differ from serial ({workers}, {align})",
                )
                if align is None:
                    check(read(os.path.join(d, name)) == ref_bytes, "bytes differ from ref")
                check(
                    [(o.offset, o.length) for o in out] == [(s.offset, s.length) for s in ser],
                    "offsets differ from serial",
                )
                check(
                    sorted(c[0] for c in calls) == list(range(len(tensors_dup))),
                    "callback not exactly once per tensor",
                )
                check(all(c[1] == len(tensors_dup) and c[3] == name for c in calls), "cb info")
                check(not cb_overlap[0], "callback ran on two threads at once")
                check(not MON.double_eval, "shared tensor evaluated concurrently")
                check(MON.peak <= budget + largest, f"peak {MON.peak} over bound")
                check(MON.in_flight == 0, "in-flight not returned to zero")
                for o, t in zip(out, tensors_dup):
                    check(o.tobytes() == t.tobytes(), "round trip")
                # no temporary directory is left behind
                check(
                    not [f for f in os.listdir(d) if f.startswith(".")], "temp dir left behind"
                )

        # ---- failing tensors: exception reaches caller, everything stopped ----
        for workers in (2, 4):
            MON.reset()
            bad = make_tensors(sizes, fail_at=(4, 6))
            before = threading.active_count()
            try:
                external_data.convert_tensors_to_external(
                    bad, d, "bad.data", max_workers=workers, max_in_flight_bytes=budget
                )
            except RuntimeError as e:
                check("boom in t" in str(e), "wrong exception text")
            else:
                check(False, "failure was swallowed")
            check(MON.in_flight == 0 and not MON.active_ids, "worker still running after raise")
            check(threading.active_count() <= before, "worker threads still alive")
            check(not os.path.exists(os.path.join(d, "bad.data")), "partial file published")
            check(not [f for f in os.listdir(d) if f.startswith(".")], "temp dir left behind")

        # ---- unusual inputs -------------------------------------------------
        # empty input, concurrent settings
        out = external_data.convert_tensors_to_external(
            [], d, "empty.data", max_workers=4, max_in_flight_bytes=1
        )
        check(out == [] and read(os.path.join(d, "empty.data")) == b"", "empty input")
        # rejected calls happen before anything is written
        for kw in ({"max_workers": 0}, {"max_in_flight_bytes": 0}, {"max_workers": -2}):
            try:
                external_data.convert_tensors_to_external(tensors, d, "rej.data", **kw)
            except ValueError:
                pass
            else:
                check(False, f"{kw} accepted")
            check(not os.path.exists(os.path.join(d, "rej.data")), "rejected call wrote a file")

        # ---- sharded model save with a shared lazy tensor ---------------------
        evals = [0]
        ev_active = [0]
        ev_overlap = [False]
        ev_lock = threading.Lock()

        def evaluate():
            with ev_lock:
                evals[0] += 1
                ev_active[0] += 1
                if ev_active[0] > 1:
                    ev_overlap[0] = True
            time.sleep(0.02)
            with ev_lock:
                ev_active[0] -= 1
            return ir.tensor(np.arange(500, dtype=np.int64))

        def build_model():
            shared = ir.LazyTensor(
                evaluate, dtype=ir.DataType.INT64, shape=ir.Shape([500]), cache=False,
                name="shared",
            )
            inits = [ir.Value(name=f"s{k}", const_value=shared) for k in range(3)]
            inits += [
                ir.Value(name=f"w{k}", const_value=t)
                for k, t in enumerate(make_tensors([3000, 100, 9000, 4000, 50, 4000]))
            ]
            return ir.Model(
                ir.Graph([], [], nodes=[], initializers=inits, name="g"), ir_version=10
            )

        results = {}
        for tag, workers in (("ser", None), ("p2", 2), ("p5", 5)):
            sub = os.path.join(d, tag)
            os.mkdir(sub)
            MON.reset()
            evals[0] = 0
            cb_calls = []
            cb_active = [0]
            cb_overlap = [False]

            def cb2(tensor, info, calls=cb_calls, a=cb_active, o=cb_overlap):
                a[0] += 1
                if a[0] > 1:
                    o[0] = True
                time.sleep(0.0005)
                calls.append(info.index)
                a[0] -= 1

            model = build_model()
            external_data.unload_from_model(
                model, sub, "m.data", max_shard_size_bytes=4000, callback=cb2,
                max_workers=workers, max_in_flight_bytes=2000,
            )
            files = sorted(os.listdir(sub))
            results[tag] = (
                {f: read(os.path.join(sub, f)) for f in files},
                locs([v.const_value for v in model.graph.initializers.values()]),
            )
            check(sorted(cb_calls) == list(range(9)), f"{tag}: callback once per tensor")
            check(not cb_overlap[0], f"{tag}: callback overlap")
            check(not ev_overlap[0], f"{tag}: shared lazy tensor evaluated concurrently")
            check(evals[0] == 3, f"{tag}: uncached lazy tensor evaluated once per use")
            check(MON.peak <= 2000 + 9000, f"{tag}: peak over bound")
            check(not MON.double_eval, f"{tag}: double eval")
        check(len(results["ser"][0]) > 2, "expected several shards")
        check(results["ser"] == results["p2"] == results["p5"], "sharded output depends on workers")

        # sharded save refuses to overwrite an existing shard (rejected call)
        try:
            external_data.unload_from_model(
                build_model(), os.path.join(d, "p2"), "m.data",
                max_shard_size_bytes=4000, max_workers=3,
            )
        except FileExistsError:
            pass
        else:
            check(False, "existing shard overwritten")
        check(
            {f: read(os.path.join(d, "p2", f)) for f in sorted(os.listdir(os.path.join(d, "p2")))}
            == results["p2"][0],
            "rejected sharded save changed files",
        )

    print("OK")


if __name__ == "__main__":
    main()
