"""Demo for C14 (OutputFixPass): identity, modified flag, fixpoint, no damage."""
import sys

import onnx_ir as ir
from onnx_ir.passes.common import OutputFixPass, TopologicalSortPass

F = ir.TensorType(ir.DataType.FLOAT)


def val(name, shape=(2,)):
    return ir.val(name, shape=list(shape), type=F)


def ser(model):
    return ir.to_proto(model).SerializeToString(deterministic=True)


def check_links(model):
    graphs = [model.graph, *model.functions.values()]
    for top in graphs:
        for g in (top, *top.subgraphs()):
            assert len({id(o) for o in g.outputs}) == len(g.outputs), "duplicate outputs remain"
            for o in g.outputs:
                assert not o.is_graph_input(), "direct input->output remains"
                assert o.name, "output without a name"
            owner = g if isinstance(g, ir.Graph) else g.graph
            names = [v.name for v in g.inputs]
            for node in g:
                assert node.graph is owner
                for idx, inp in enumerate(node.inputs):
                    if inp is not None:
                        assert (node, idx) in [(u.node, u.idx) for u in inp.uses()]
                for out in node.outputs:
                    assert out.producer() is node
                    names.append(out.name)
            assert len(set(names)) == len(names), f"name clash {names}"
            if isinstance(g, ir.Graph):
                for k, v in g.initializers.items():
                    assert v.name == k


def run(model, expect_first):
    before = ser(model)
    p = OutputFixPass()
    r = p(model)
    assert r.model is model, "in-place pass must return its input"
    assert r.modified is expect_first, (r.modified, expect_first)
    after = ser(model)
    if not r.modified:
        assert before == after
    check_links(model)
    # fixpoint: second round reports nothing and changes nothing
    r2 = p(model)
    assert r2.model is model and r2.modified is False
    assert ser(model) == after
    # sortedness kept
    TopologicalSortPass()(model)
    assert ser(model) == after, "graph was left unsorted"
    return model


def main():
    # 1. direct input -> output, with metadata that must be carried over
    x = val("x")
    x.metadata_props["k"] = "v"
    x.doc_string = "doc"
    m = ir.Model(ir.Graph([x], [x], nodes=[], name="g", opset_imports={"": 20}), ir_version=10)
    run(m, True)
    out = m.graph.outputs[0]
    assert out.name == "x" and m.graph.inputs[0].name == "x_orig"
    assert out.metadata_props == {"k": "v"} and out.doc_string == "doc"
    assert out.shape == x.shape and out.type == x.type
    assert out.producer().op_type == "Identity" and out.producer().inputs[0] is x

    # 2. duplicates + direct + name collision with an existing value called x_alias_1
    a, b = val("x"), val("y")
    n = ir.node("Relu", [a])
    n.outputs[0].name = "x_alias_1"
    n.outputs[0].type = F
    n.outputs[0].shape = ir.Shape([2])
    g = ir.Graph([a, b], [a, a, n.outputs[0], b, a], nodes=[n], name="g", opset_imports={"": 20})
    m = ir.Model(g, ir_version=10)
    run(m, True)
    names = [o.name for o in m.graph.outputs]
    assert names == ["x", "x_alias_1_1", "x_alias_1", "y", "x_alias_4"], names
    assert [v.name for v in m.graph.inputs] == ["x_orig", "y_orig"]
    assert len(m.graph) == 1 + 2 + 2

    # 3. nothing to do (also: empty graph): modified=False and bytes untouched
    c = val("c")
    n = ir.node("Relu", [c])
    n.outputs[0].name = "r"
    m = ir.Model(ir.Graph([c], [n.outputs[0]], nodes=[n], name="g", opset_imports={"": 20}), ir_version=10)
    run(m, False)
    m = ir.Model(ir.Graph([], [], nodes=[], name="empty", opset_imports={"": 20}), ir_version=10)
    run(m, False)

    # 4. subgraph (nested If branch with a duplicated output and a direct one) and a function
    cond = ir.val("cond", shape=[], type=ir.TensorType(ir.DataType.BOOL))
    t_in = val("t")
    tn = ir.node("Relu", [t_in])
    tn.outputs[0].name = "tr"
    then_g = ir.Graph([], [tn.outputs[0], tn.outputs[0]], nodes=[tn], name="then")
    e_in = val("e_in")
    else_g = ir.Graph([e_in], [e_in, e_in], nodes=[], name="else")
    if_node = ir.node(
        "If",
        [cond],
        attributes={"then_branch": then_g, "else_branch": else_g},
        num_outputs=2,
    )
    if_node.outputs[0].name = "o0"
    if_node.outputs[1].name = "o1"
    main_g = ir.Graph([cond, t_in], list(if_node.outputs), nodes=[if_node], name="g", opset_imports={"": 20, "custom": 1})
    fx = val("fx")
    func = ir.Function("custom", "f", "", graph=ir.Graph([fx], [fx, fx], nodes=[], name="f", opset_imports={"": 20}), attributes=[])
    m = ir.Model(main_g, ir_version=10, functions=[func])
    run(m, True)
    assert [o.name for o in then_g.outputs] == ["tr", "tr_alias_1"]
    assert [o.name for o in else_g.outputs] == ["e_in", "e_in_alias_1"]
    assert else_g.inputs[0].name == "e_in_orig"
    assert [o.name for o in func.outputs] == ["fx", "fx_alias_1"]
    assert func.inputs[0].name == "fx_orig"

    # 5. graph input that is also an initializer, used directly as output: the rename of
    #    the input must follow into the initializer table
    w = val("w")
    w.const_value = ir.tensor([1.0, 2.0], name="w")
    g = ir.Graph([w], [w], nodes=[], initializers=[w], name="g", opset_imports={"": 20})
    m = ir.Model(g, ir_version=10)
    run(m, True)
    assert list(g.initializers) == ["w_orig"] and g.initializers["w_orig"] is w
    assert w.const_value.name == "w_orig"

    # 6. rejected calls: a Graph is not a model (nothing is touched); an object with a graph
    #    but without functions fails only after its main graph has been fixed
    snap = ser(m)
    try:
        OutputFixPass()(m.graph)
    except AttributeError:
        pass
    else:
        raise AssertionError("a Graph was accepted as a model")
    assert ser(m) == snap

    class Half:
        pass

    h = Half()
    q = val("q")
    h.graph = ir.Graph([q], [q, q], nodes=[], name="half", opset_imports={"": 20})
    try:
        OutputFixPass().call(h)
    except AttributeError as e:
        assert "functions" in str(e)
    else:
        raise AssertionError("an object without functions was accepted")
    assert [o.name for o in h.graph.outputs] == ["q", "q_alias_1"]
    assert h.graph.inputs[0].name == "q_orig" and len(h.graph) == 2

    # 7. composition through a pass manager: converges, returns same model
    a = val("a")
    m = ir.Model(ir.Graph([a], [a, a, a], nodes=[], name="g", opset_imports={"": 20}), ir_version=10)
    pm = ir.passes.PassManager([OutputFixPass(), OutputFixPass()], steps=3, early_stop=True)
    r = pm(m)
    assert r.model is m and r.modified is True
    snap = ser(m)
    r = pm(m)
    assert r.modified is False and ser(m) == snap
    check_links(m)
    print("OK")
    return 0


if __name__ == "__main__":
    sys.exit(main())
