"""Demo for C20: journaling observes without interfering and always restores the classes.

Exercises Journal.__enter__/__exit__ (saved-state bookkeeping, nesting, re-entering the
same journal, exceptions), Journal.record (weak references, record(None)) and
_wrappers.get_original_methods (what is saved and put back).
"""

import gc
import re
import weakref

import onnx_ir as ir
from onnx_ir import _core, _graph_containers
from onnx_ir.journaling import Journal, get_current_journal
from onnx_ir.journaling import _wrappers

EXPECTED_KEYS = [
    "TensorBase.__init__",
    "Node.__init__", "Node.name.fset", "Node.domain.fset", "Node.version.fset",
    "Node.op_type.fset", "Node.overload.fset", "Node.resize_inputs", "Node.prepend",
    "Node.append", "Node.resize_outputs", "Node.graph.fset",
    "Value.__init__", "Value.name.fset", "Value.type.fset", "Value.shape.fset",
    "Value.const_value.fset", "Value.replace_all_uses_with", "Value.merge_shapes",
    "Graph.__init__", "Graph.register_initializer", "Graph.append", "Graph.extend",
    "Graph.remove", "Graph.insert_after", "Graph.insert_before", "Graph.sort",
    "Model.__init__",
    "Function.__init__", "Function.name.fset", "Function.domain.fset",
    "Function.overload.fset",
    "Attr.__init__",
    "_GraphIO.append", "_GraphIO.extend", "_GraphIO.insert", "_GraphIO.pop",
    "_GraphIO.remove", "_GraphIO.clear", "_GraphIO.__setitem__",
    "GraphInitializers.__setitem__", "GraphInitializers.__delitem__",
    "Attributes.__setitem__",
]


def snapshot():
    """Identity snapshot of every instrumented member, in order."""
    return list(_wrappers.get_original_methods().items())


def same(a, b):
    return len(a) == len(b) and all(
        ka == kb and va is vb for (ka, va), (kb, vb) in zip(a, b)
    )


def scenario():
    """A sequence of IR operations, some rejected; returns an observable summary."""
    out = []
    x = ir.Value(name="x", type=ir.TensorType(ir.DataType.FLOAT), shape=ir.Shape([1, 2]))
    n1 = ir.Node("", "Relu", [x], name="n1")
    n2 = ir.Node("", "Neg", [n1.outputs[0]], name="n2")
    g = ir.Graph([x], [], nodes=[n1], name="g")
    g.append(n2)
    g.outputs.append(n2.outputs[0])
    g.outputs.extend([])  # empty input
    n1.name = "first"
    n2.attributes["k"] = ir.AttrInt64("k", 3)
    stray = ir.Node("", "Abs", [x], name="stray")
    for bad in (
        lambda: g.remove(stray),  # rejected: not in the graph
        lambda: g.remove(n1, safe=True),  # rejected: still used
        lambda: g.inputs.pop(5),  # rejected: index
        lambda: g.append(n2),  # duplicate: already in the graph
    ):
        try:
            out.append(("ok", repr(bad())))
        except Exception as e:  # noqa: BLE001
            # anonymous values print their id(); mask it
            out.append((type(e).__name__, re.sub(r"anonymous:\d+", "anonymous:N", str(e))))
    w = ir.Value(name="w", const_value=ir.tensor([1.0, 2.0], name="w"))
    g.register_initializer(w)
    del g.initializers["w"]
    g.sort()
    out.append([n.name for n in g])
    out.append([v.name for v in g.inputs] + [v.name for v in g.outputs])
    out.append(sorted(g.initializers))
    out.append(dict((k, v.value) for k, v in n2.attributes.items()))
    out.append([u[0].name for u in x.uses()])
    return out


def main():
    pristine = snapshot()
    assert [k for k, _ in pristine] == EXPECTED_KEYS, [k for k, _ in pristine]
    # two calls give two distinct, equal dicts
    d1, d2 = _wrappers.get_original_methods(), _wrappers.get_original_methods()
    assert d1 is not d2 and d1 == d2
    assert get_current_journal() is None

    plain = scenario()

    # --- one journal: same results, entries in program order -------------------------
    with Journal() as j:
        assert get_current_journal() is j
        inside = snapshot()
        assert not any(va is vb for (_, va), (_, vb) in zip(pristine, inside))
        journaled = scenario()
    assert journaled == plain, (journaled, plain)
    assert same(snapshot(), pristine)
    assert get_current_journal() is None
    ops = [e.operation for e in j.entries]
    assert ops[:2] == ["init", "init"] and "remove" in ops and "sort" in ops
    assert ops.count("remove") == 2 and ops.count("pop_io") == 1  # rejected calls recorded
    n_single = len(ops)
    stamps = [e.timestamp for e in j.entries]
    assert stamps == sorted(stamps)

    # --- nesting depth 3, the innermost re-enters the outermost journal ----------------
    a, b = Journal(), Journal()
    with a:
        snap_a = snapshot()
        with b:
            snap_b = snapshot()
            assert get_current_journal() is b
            # the saved "originals" of b are a's wrappers
            assert not same(snap_a, snap_b)
            with a:  # same journal again
                assert get_current_journal() is a
                assert len(a._saved_states) == 2 and len(b._saved_states) == 1
                prev, originals = a._saved_states[-1]  # still unpackable as a pair
                assert prev is b and same(list(originals.items()), snap_b)
                assert a._saved_states[0][0] is None
                nested = scenario()
            assert get_current_journal() is b
            assert same(snapshot(), snap_b)
        assert get_current_journal() is a
        assert same(snapshot(), snap_a)
    assert get_current_journal() is None
    assert same(snapshot(), pristine)
    assert a._saved_states == [] and b._saved_states == []
    assert nested == plain
    # wrappers chain: innermost a-wrapper -> b-wrapper -> outer a-wrapper
    assert len(b.entries) == n_single and len(a.entries) == 2 * n_single
    assert [e.operation for e in b.entries] == ops

    # --- exception thrown out of nested blocks ---------------------------------------
    c, d = Journal(), Journal()
    try:
        with c:
            with d:
                ir.Value(name="boom")
                raise KeyError("from inside")
    except KeyError as e:
        assert e.args == ("from inside",)
    else:
        raise AssertionError("exception swallowed")
    assert get_current_journal() is None and same(snapshot(), pristine)
    assert [e.operation for e in c.entries] == ["init"] == [e.operation for e in d.entries]

    # --- leaving a journal that was never entered is refused, nothing changes -----------
    try:
        Journal().__exit__(None, None, None)
    except IndexError:
        pass
    else:
        raise AssertionError("expected IndexError")
    assert same(snapshot(), pristine) and get_current_journal() is None

    # --- entries hold only weak references; record(None) has no ref --------------------
    with Journal() as k:
        v = ir.Value(name="short-lived")
        wr = weakref.ref(v)
        k.record(None, "note", details="free text")
        seen = []
        k.add_hook(seen.append)
        v.name = "renamed"
    assert [e.operation for e in k.entries] == ["init", "note", "set_name"]
    assert k.entries[0].obj is v and k.entries[0].object_id == id(v)
    note = k.entries[1]
    assert note.ref is None and note.obj is None and note.class_ is type(None)
    assert note.class_name == "NoneType" and note.details == "free text"
    assert seen == [k.entries[2]] and k.entries[2].details == "'short-lived' -> 'renamed'"
    try:
        k.record(7, "unweakrefable")  # int cannot be weakly referenced
    except TypeError:
        pass
    else:
        raise AssertionError("expected TypeError")
    assert len(k.entries) == 3
    del v, seen
    k.clear_hooks()
    gc.collect()
    assert wr() is None and k.entries[0].obj is None and k.entries[0].ref is not None

    # --- classes really behave as before: no more recording ----------------------------
    before = len(j.entries), len(a.entries), len(b.entries), len(k.entries)
    assert scenario() == plain
    assert before == (len(j.entries), len(a.entries), len(b.entries), len(k.entries))
    assert _core.Node.name.fset is dict(pristine)["Node.name.fset"]
    assert _graph_containers._GraphIO.pop is dict(pristine)["_GraphIO.pop"]
    print("C20 demo OK")


if __name__ == "__main__":
    main()
