"""Demo for C13: clones are faithful and independent (graph-level metadata, Model.clone, functionalize)."""

import onnx_ir as ir
from onnx_ir import passes as ir_passes


def ser(model: ir.Model) -> bytes:
    return ir.to_proto(model).SerializeToString(deterministic=True)


def build_model() -> ir.Model:
    x = ir.Value(name="x", type=ir.TensorType(ir.DataType.FLOAT), shape=ir.Shape(["N", 4]))
    cond = ir.Value(name="cond", type=ir.TensorType(ir.DataType.BOOL), shape=ir.Shape([]))
    w = ir.Value(
        name="w",
        type=ir.TensorType(ir.DataType.FLOAT),
        shape=ir.Shape([4]),
        const_value=ir.tensor([1.0, 2.0, 3.0, 4.0], name="w"),
    )

    # then-branch captures x and w from the outer scope; carries graph-level metadata
    t_node = ir.Node("", "Add", [x, w], name="t_add")
    t_node.outputs[0].name = "t_out"
    then_g = ir.Graph([], [t_node.outputs[0]], nodes=[t_node], name="then_g", doc_string="then")
    then_g.metadata_props["branch"] = "then"
    then_g.meta["payload"] = {"k": [1, 2]}
    then_g.meta["stale"] = "s"
    then_g.meta.invalidate("stale")

    # else-branch: an empty-ish graph returning a captured value; only an invalidated key in meta
    e_node = ir.Node("", "Identity", [x], name="e_id")
    e_node.outputs[0].name = "e_out"
    else_g = ir.Graph([], [e_node.outputs[0]], nodes=[e_node], name="else_g")
    else_g.meta.invalidate("only_invalid")

    if_node = ir.Node(
        "",
        "If",
        [cond],
        [ir.AttrGraph("then_branch", then_g), ir.AttrGraph("else_branch", else_g)],
        name="if0",
    )
    if_node.outputs[0].name = "y"
    call = ir.Node("my.domain", "Twice", [if_node.outputs[0]], name="call0")
    call.outputs[0].name = "z"

    main = ir.Graph(
        [x, cond],
        [call.outputs[0], call.outputs[0]],  # duplicate output on purpose
        nodes=[if_node, call],
        initializers=[w],
        name="main",
        doc_string="main doc",
        opset_imports={"": 20, "my.domain": 1},
    )
    main.metadata_props["origin"] = "demo"
    main.meta["shared_obj"] = ["a", "b"]

    fx = ir.Value(name="fx", type=ir.TensorType(ir.DataType.FLOAT))
    f_node = ir.Node("", "Add", [fx, fx], name="f_add")
    f_node.outputs[0].name = "fy"
    f_graph = ir.Graph([fx], [f_node.outputs[0]], nodes=[f_node], opset_imports={"": 20})
    f_graph.metadata_props["fn_note"] = "body"
    f_graph.meta["fn_meta"] = {"z": 1}
    func = ir.Function("my.domain", "Twice", "", graph=f_graph, attributes=[])

    # a second, empty function (no nodes, no inputs, no outputs)
    empty = ir.Function(
        "my.domain", "Nothing", "", graph=ir.Graph([], [], nodes=[], opset_imports={"": 20}), attributes=[]
    )

    model = ir.Model(
        main,
        ir_version=10,
        producer_name="demo",
        producer_version="1",
        domain="d",
        model_version=3,
        doc_string="model doc",
        functions=[func, empty],
        metadata_props={"mk": "mv"},
    )
    return model


def graphs_of(model: ir.Model):
    out = [model.graph]
    for node in ir.traversal.RecursiveGraphIterator(model.graph):
        for attr in node.attributes.values():
            if not attr.is_ref() and attr.type == ir.AttributeType.GRAPH:
                out.append(attr.as_graph())
    for f in model.functions.values():
        out.append(f.graph)
    return out


def check_independent(orig: ir.Model, clone: ir.Model, deep_copy: bool) -> None:
    assert ser(orig) == ser(clone)
    assert clone is not orig and clone.graph is not orig.graph
    assert list(clone.functions.keys()) == list(orig.functions.keys())
    assert clone.metadata_props == orig.metadata_props
    assert clone.metadata_props is not orig.metadata_props
    for attr in ("ir_version", "producer_name", "producer_version", "domain", "model_version", "doc_string"):
        assert getattr(clone, attr) == getattr(orig, attr)
    og, cg = graphs_of(orig), graphs_of(clone)
    assert len(og) == len(cg) == 5
    for a, b in zip(og, cg):
        assert a is not b
        assert a.name == b.name and a.doc_string == b.doc_string
        assert a.opset_imports == b.opset_imports and a.opset_imports is not b.opset_imports
        assert dict(a.metadata_props) == dict(b.metadata_props)
        assert a.metadata_props is not b.metadata_props
        assert a.meta is not b.meta
        assert dict(a.meta) == dict(b.meta)
        assert a.meta._invalid_keys == b.meta._invalid_keys
        assert a.meta._invalid_keys is not b.meta._invalid_keys or not a.meta._invalid_keys
        for key in a.meta:
            if deep_copy:
                assert a.meta[key] is not b.meta[key] or isinstance(a.meta[key], str)
            else:
                assert a.meta[key] is b.meta[key]
        assert not ({id(n) for n in a} & {id(n) for n in b})
    # duplicate outputs stay one object, inside the clone
    assert clone.graph.outputs[0] is clone.graph.outputs[1]
    assert clone.graph.outputs[0] is not orig.graph.outputs[0]
    assert clone.graph.outputs[0].producer().graph is clone.graph
    # captured values in the cloned subgraphs point into the clone
    c_if = clone.graph[0]
    c_then = c_if.attributes["then_branch"].as_graph()
    assert c_then[0].inputs[0] is clone.graph.inputs[0]
    assert c_then[0].inputs[1] is clone.graph.initializers["w"]
    assert not c_then.meta.is_valid("stale") and c_then.meta.is_valid("payload")
    c_else = c_if.attributes["else_branch"].as_graph()
    assert not c_else.meta.is_valid("only_invalid") and len(dict(c_else.meta)) == 0
    # tensors may be shared
    assert clone.graph.initializers["w"].const_value is orig.graph.initializers["w"].const_value


def edit(model: ir.Model) -> None:
    g = model.graph
    g.name = "edited"
    g.doc_string = "edited doc"
    g.metadata_props["origin"] = "changed"
    g.metadata_props["extra"] = "1"
    g.meta["new_key"] = 1
    g.meta.invalidate("shared_obj")
    g.opset_imports[""] = 21
    then_g = g[0].attributes["then_branch"].as_graph()
    then_g.metadata_props.clear()
    then_g.meta["stale"] = "revalidated"
    then_g[0].inputs[0].shape = ir.Shape([7, 7])
    then_g.name = "then_renamed"
    g[1].outputs[0].name = "z_renamed"
    model.metadata_props["mk"] = "other"
    f = next(iter(model.functions.values()))
    f.graph.metadata_props["fn_note"] = "changed"
    f.graph.meta.invalidate("fn_meta")
    f[0].name = "renamed_in_fn"
    extra = ir.Node("", "Neg", [g.inputs[0]], name="extra")
    extra.outputs[0].name = "extra_out"
    g.append(extra)
    g.outputs.append(extra.outputs[0])


def snapshot(model: ir.Model):
    return (
        ser(model),
        [
            (g.name, g.doc_string, dict(g.metadata_props), dict(g.meta), set(g.meta._invalid_keys),
             dict(g.opset_imports), [n.name for n in g])
            for g in graphs_of(model)
        ],
        dict(model.metadata_props),
    )


class Renamer(ir_passes.InPlacePass):
    def call(self, model: ir.Model) -> ir_passes.PassResult:
        edit(model)
        return ir_passes.PassResult(model, True)


class Exploding(ir_passes.InPlacePass):
    def call(self, model: ir.Model) -> ir_passes.PassResult:
        edit(model)
        raise KeyError("boom")


def main() -> None:
    for deep_copy in (False, True):
        # edits of the clone do not reach the original
        orig = build_model()
        before = snapshot(orig)
        clone = orig.clone(deep_copy=deep_copy)
        check_independent(orig, clone, deep_copy)
        edit(clone)
        assert snapshot(orig) == before
        assert ser(clone) != before[0]
        # ... and vice versa
        orig2 = build_model()
        clone2 = orig2.clone(deep_copy=deep_copy)
        clone_before = snapshot(clone2)
        edit(orig2)
        assert snapshot(clone2) == clone_before

    # Graph.clone / Function.clone / GraphView.clone directly, with graph level metadata
    model = build_model()
    g2 = model.graph.clone()
    assert dict(g2.metadata_props) == {"origin": "demo"} and g2.meta["shared_obj"] is model.graph.meta["shared_obj"]
    g3 = model.graph.clone(deep_copy=True)
    assert g3.meta["shared_obj"] == ["a", "b"] and g3.meta["shared_obj"] is not model.graph.meta["shared_obj"]
    f = model.functions[("my.domain", "Twice", "")]
    f2 = f.clone()
    assert f2.graph is not f.graph and dict(f2.graph.metadata_props) == {"fn_note": "body"}
    assert f2.meta is not f.meta and dict(f2.graph.meta) == {"fn_meta": {"z": 1}}

    then_g = model.graph[0].attributes["then_branch"].as_graph()
    # rejected: captured values without permission
    try:
        then_g.clone()
    except Exception as e:  # RuntimeError chain ending in ValueError
        root = e
        while root.__cause__ is not None:
            root = root.__cause__
        assert isinstance(e, RuntimeError) and isinstance(root, ValueError), (type(e), type(root))
        assert "outer-scope" in str(root)
    else:
        raise AssertionError("expected a rejection")
    assert dict(then_g.metadata_props) == {"branch": "then"}
    allowed = then_g.clone(allow_outer_scope_values=True)
    assert allowed[0].inputs[0] is model.graph.inputs[0]
    assert dict(allowed.metadata_props) == {"branch": "then"} and not allowed.meta.is_valid("stale")
    allowed.metadata_props["branch"] = "x"
    allowed.meta["stale"] = 0
    assert dict(then_g.metadata_props) == {"branch": "then"} and not then_g.meta.is_valid("stale")

    # a view whose inputs are the captured values
    view = ir.GraphView(
        [model.graph.inputs[0], model.graph.initializers["w"]],
        list(then_g.outputs),
        nodes=list(then_g),
        name="view",
        doc_string="view doc",
        opset_imports={"": 20},
        metadata_props={"view": "yes"},
    )
    view.meta["vm"] = [0]
    view.meta.invalidate("vm")
    vc = view.clone()
    assert isinstance(vc, ir.Graph) and vc.name == "view" and vc.doc_string == "view doc"
    assert dict(vc.metadata_props) == {"view": "yes"} and vc.metadata_props is not view.metadata_props
    assert vc.meta["vm"] is view.meta["vm"] and not vc.meta.is_valid("vm")
    assert vc[0].inputs[0] is vc.inputs[0] and vc.inputs[0] is not model.graph.inputs[0]
    assert then_g[0].graph is then_g  # the view did not steal the node

    # empty graph, empty model
    eg = ir.Graph([], [], nodes=[])
    ec = eg.clone()
    assert ec is not eg and len(ec) == 0 and not ec.metadata_props and not ec.meta
    em = ir.Model(eg, ir_version=10)
    emc = em.clone()
    assert ser(emc) == ser(em) and len(emc.functions) == 0 and emc.metadata_props == {}

    # functionalized passes never touch their input
    model = build_model()
    before = snapshot(model)
    fpass = ir_passes.functionalize(Renamer())
    assert fpass.in_place is False and fpass.changes_input is False
    result = fpass(model)
    assert result.modified and result.model is not model
    assert snapshot(model) == before
    assert result.model.graph.name == "edited"
    # feed a PassResult, and a failing inner pass
    result2 = fpass(ir_passes.PassResult(model, False))
    assert result2.model is not model and result2.model is not result.model
    assert snapshot(model) == before
    try:
        ir_passes.functionalize(Exploding())(model)
    except KeyError as e:
        assert e.args == ("boom",)
    else:
        raise AssertionError("expected KeyError")
    assert snapshot(model) == before
    # functionalizing twice still leaves the input alone
    twice = ir_passes.functionalize(ir_passes.functionalize(Renamer()))
    r3 = twice(model)
    assert r3.model is not model and snapshot(model) == before

    print("C13 demo OK")


if __name__ == "__main__":
    main()
