"""Demo for C13: clones are faithful and independent (graph inputs / initializers / metadata path)."""
import numpy as np

import onnx_ir as ir


def ser_graph(g):
    return ir.serde.serialize_graph(g).SerializeToString(deterministic=True)


def ser_model(m):
    return ir.serde.serialize_model(m).SerializeToString(deterministic=True)


def make_value(name, shape=(2, "N"), dtype=ir.DataType.FLOAT):
    return ir.Value(name=name, type=ir.TensorType(dtype), shape=ir.Shape(list(shape)))


def build_graph():
    x = make_value("x")
    x.metadata_props["px"] = "1"
    x.meta["mx"] = ["mutable", "list"]
    x.meta["bad"] = 1
    x.meta.invalidate("bad")
    x.doc_string = "input x"
    w_tensor = ir.tensor(np.arange(4, dtype=np.float32).reshape(2, 2), name="w")
    w = ir.Value(name="w", type=ir.TensorType(ir.DataType.FLOAT), shape=ir.Shape([2, 2]), const_value=w_tensor)
    w.metadata_props["pw"] = "2"
    # an initializer that is also a graph input
    b_tensor = ir.tensor(np.ones((2,), dtype=np.float32), name="b")
    b = ir.Value(name="b", type=ir.TensorType(ir.DataType.FLOAT), shape=ir.Shape([2]), const_value=b_tensor)
    unused = make_value("unused_input", shape=())  # no metadata at all

    # subgraph capturing x and w from the outer scope
    inner_add = ir.Node("", "Add", [x, w], name="inner_add")
    inner_add.outputs[0].name = "inner_out"
    sub = ir.Graph([], [inner_add.outputs[0]], nodes=[inner_add], name="then_branch")
    sub.metadata_props["psub"] = "s"
    cond = make_value("cond", shape=(), dtype=ir.DataType.BOOL)
    if_node = ir.Node("", "If", [cond], [ir.AttrGraph("then_branch", sub)], name="if")
    if_node.outputs[0].name = "if_out"
    mm = ir.Node("", "MatMul", [x, w], name="mm")
    mm.outputs[0].name = "mm_out"
    mm.outputs[0].type = ir.TensorType(ir.DataType.FLOAT)
    mm.outputs[0].shape = ir.Shape([2, 2])
    add = ir.Node("", "Add", [mm.outputs[0], b], name="add")
    add.outputs[0].name = "y"
    g = ir.Graph(
        [x, cond, b, unused],
        [add.outputs[0], if_node.outputs[0]],
        nodes=[mm, add, if_node],
        initializers=[w, b],
        opset_imports={"": 20},
        name="main",
        doc_string="doc",
    )
    g.metadata_props["pg"] = "g"
    g.meta["mg"] = {"k": [1]}
    return g, sub


def check_independent_values(orig, clone):
    orig_vals = set()
    for g in (orig, *orig.subgraphs()):
        orig_vals.update(id(v) for v in g.inputs)
        orig_vals.update(id(v) for v in g.initializers.values())
        for n in g:
            orig_vals.update(id(v) for v in n.outputs)
    for g in (clone, *clone.subgraphs()):
        for v in (*g.inputs, *g.initializers.values(), *g.outputs):
            assert id(v) not in orig_vals
        for n in g:
            for v in (*n.inputs, *n.outputs):
                assert v is None or id(v) not in orig_vals, v


def main():
    g, sub = build_graph()
    before = ser_graph(g)

    for deep in (False, True):
        c = g.clone(deep_copy=deep)
        assert ser_graph(c) == before
        assert ser_graph(g) == before
        check_independent_values(g, c)
        cx, x = c.inputs[0], g.inputs[0]
        assert cx is not x and cx.shape is not x.shape and cx.type is not x.type
        assert cx.shape == x.shape and cx.type == x.type
        assert cx.metadata_props == {"px": "1"} and cx.metadata_props is not x.metadata_props
        assert cx.meta is not x.meta and cx.meta["mx"] == ["mutable", "list"]
        assert (cx.meta["mx"] is x.meta["mx"]) == (not deep)
        assert not cx.meta.is_valid("bad") and cx.meta.is_valid("mx")
        assert (c.meta["mg"] is g.meta["mg"]) == (not deep)
        assert c.metadata_props == {"pg": "g"} and c.metadata_props is not g.metadata_props
        # the input that is also an initializer is one object in the clone
        assert c.inputs[2] is c.initializers["b"] and c.inputs[2] is not g.inputs[2]
        assert c.initializers["w"].const_value is g.initializers["w"].const_value  # tensors shared
        # values without metadata stay without metadata
        assert c.inputs[3].metadata_props == {} and len(c.inputs[3].meta) == 0
        # subgraph captured values point into the clone
        csub = c.node("if").attributes["then_branch"].as_graph()
        assert csub is not sub and csub.metadata_props == {"psub": "s"}
        assert csub.node("inner_add").inputs[0] is cx
        assert csub.node("inner_add").inputs[1] is c.initializers["w"]
        # edit the clone in many ways; original unchanged
        cx.name = "renamed"
        cx.shape = ir.Shape([7])
        cx.type = ir.TensorType(ir.DataType.INT64)
        cx.metadata_props["new"] = "v"
        cx.meta["other"] = 1
        c.metadata_props.clear()
        c.meta["mg2"] = 3
        c.initializers["w"].const_value = None
        c.node("add").replace_input_with(1, cx)
        c.node("mm").attributes["k"] = ir.AttrInt64("k", 1)
        c.outputs.pop()
        assert ser_graph(g) == before
        # edit the original; a second clone taken before is unaffected
        c2 = g.clone(deep_copy=deep)
        snap2 = ser_graph(c2)
        x.metadata_props["tmp"] = "t"
        x.name = "x_tmp"
        assert ser_graph(c2) == snap2 == before
        x.name = "x"
        del x.metadata_props["tmp"]
        assert ser_graph(g) == before

    # Rejected call: cloning the subgraph alone references outer-scope values
    sub_before = ser_graph(sub)
    try:
        sub.clone()
    except RuntimeError as e:
        chain, cur = [], e
        while cur is not None:
            chain.append(cur)
            cur = cur.__cause__
        assert any(isinstance(c_, ValueError) and "outer-scope" in str(c_) for c_ in chain), chain
        assert "clone_graph" in str(e)
    else:
        raise AssertionError("expected a failure")
    assert ser_graph(sub) == sub_before and ser_graph(g) == before
    # allowed explicitly: captured values are shared, the rest is new
    sc = sub.clone(allow_outer_scope_values=True)
    assert ser_graph(sc) == sub_before
    assert sc.node("inner_add").inputs[0] is g.inputs[0]
    assert sc.node("inner_add") is not sub.node("inner_add")
    assert sc.outputs[0] is not sub.outputs[0]
    sc.node("inner_add").replace_input_with(0, sc.node("inner_add").inputs[1])
    assert ser_graph(sub) == sub_before and ser_graph(g) == before
    # two independent clone operations do not share a value map
    a, b = g.clone(), g.clone()
    assert a.inputs[0] is not b.inputs[0] and a.initializers["w"] is not b.initializers["w"]

    # GraphView: inputs have producers; duplicates in the input list
    mm_out = g.node("mm").outputs[0]
    view = ir.GraphView([mm_out, g.inputs[2], mm_out], [g.node("add").outputs[0]], nodes=[g.node("add")], name="view")
    view.metadata_props["pv"] = "v"
    vc = view.clone()
    assert isinstance(vc, ir.Graph) and vc.metadata_props == {"pv": "v"}
    assert vc.inputs[0] is vc.inputs[2] and vc.inputs[0] is not mm_out
    assert vc.inputs[0].producer() is None and vc.inputs[0].name == "mm_out"
    assert vc.inputs[0].shape == mm_out.shape and vc.inputs[0].shape is not mm_out.shape
    assert vc.node("add").inputs[0] is vc.inputs[0] and vc.node("add").inputs[1] is vc.inputs[1]
    vc.inputs[0].name = "zzz"
    vc.node("add").outputs[0].name = "other"
    assert ser_graph(g) == before
    # a view that does not list a used value as input is rejected
    bad_view = ir.GraphView([], [g.node("add").outputs[0]], nodes=[g.node("add")])
    try:
        bad_view.clone()
    except RuntimeError:
        pass
    else:
        raise AssertionError("expected a failure")
    assert ser_graph(g) == before

    # Empty graph
    e = ir.Graph([], [], nodes=[], name="empty")
    ec = e.clone()
    assert ec is not e and ser_graph(ec) == ser_graph(e) and len(ec) == 0
    assert ec.metadata_props == {} and len(ec.meta) == 0

    # Function and Model
    fa = make_value("fa")
    fa.metadata_props["pfa"] = "a"
    fn_node = ir.Node("", "Relu", [fa], [ir.RefAttr("alpha", "alpha_outer", ir.AttributeType.FLOAT)], name="relu")
    fn_node.outputs[0].name = "fo"
    fgraph = ir.Graph([fa], [fn_node.outputs[0]], nodes=[fn_node], opset_imports={"": 20}, name="fg")
    func = ir.Function("dom", "F", "", graph=fgraph, attributes=[ir.Attr("alpha_outer", ir.AttributeType.FLOAT, None)])
    fc = func.clone()
    assert fc is not func and fc.inputs[0] is not fa and fc.inputs[0].metadata_props == {"pfa": "a"}
    assert list(fc.attributes) == ["alpha_outer"]
    assert fc[0].attributes["alpha"].is_ref() and fc[0] is not fn_node
    model = ir.Model(g, ir_version=10, functions=[func], producer_name="demo")
    model.metadata_props["pm"] = "m"
    mbefore = ser_model(model)
    mc = model.clone()
    assert ser_model(mc) == mbefore
    assert mc.graph is not g and mc.metadata_props == {"pm": "m"} and mc.metadata_props is not model.metadata_props
    mf = mc.functions[func.identifier()]
    assert mf is not func and mf.inputs[0] is not fa
    mf.inputs[0].name = "changed"
    mf.append(ir.Node("", "Identity", [mf.inputs[0]]))
    mc.graph.inputs[0].metadata_props["q"] = "q"
    mc.graph.inputs.pop()
    mc.metadata_props["pm"] = "other"
    assert ser_model(model) == mbefore
    model.graph.inputs[0].doc_string = "changed"
    assert ser_model(model) != mbefore
    model.graph.inputs[0].doc_string = "input x"
    assert ser_model(model) == mbefore
    print("OK")


if __name__ == "__main__":
    main()
