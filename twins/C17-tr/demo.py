"""Demo for C17: model-level deserialization post-passes.

Exercises, through the public API only (ir.serde.deserialize_model / serialize_model):
  * functions of a model and the IR-v9 experimental "domain::func/value" value infos,
    with adversarial composite names (separators inside domain / function / value names,
    duplicates, names of unknown functions, no "/" at all, empty name);
  * node device configurations whose configuration_id is resolved against the model's
    configurations (known, dangling, duplicate configuration names, empty id, no
    configurations at all);
and checks that the result is consistent and that the round trip is a fixed point.
"""

import builtins
import io
import os
import sys

import onnx
from onnx import TensorProto, helper

import onnx_ir as ir
from onnx_ir import serde


class _NoFileAccess:
    """Fail on any attempt to open a file while active."""

    def __enter__(self):
        self._open, self._io_open, self._os_open = builtins.open, io.open, os.open

        def deny(*args, **kwargs):
            raise AssertionError(f"file access attempted: {args!r}")

        builtins.open = deny
        io.open = deny
        os.open = deny
        return self

    def __exit__(self, *exc):
        builtins.open, io.open, os.open = self._open, self._io_open, self._os_open
        return False


def check_links(model: ir.Model) -> None:
    graphs = [model.graph] + list(model.functions.values())
    for container in graphs:
        for node in container.all_nodes() if hasattr(container, "all_nodes") else container:
            for index, value in enumerate(node.inputs):
                if value is not None:
                    assert (node, index) in value.uses(), (node.name, index)
            for index, value in enumerate(node.outputs):
                assert value.producer() is node and value.index() == index
            assert node.graph is not None


def roundtrip_fixed_point(proto: onnx.ModelProto, may_reject: bool = False) -> ir.Model:
    """Deserialize (must succeed here), check links; serialization raises or is a fixed point."""
    with _NoFileAccess():
        model = serde.deserialize_model(proto)
        check_links(model)
        try:
            once = serde.serialize_model(model)
        except Exception as e:  # noqa: BLE001
            assert may_reject, f"unexpected rejection: {e!r}"
            print("serialization rejected:", type(e).__name__, "<-", _root_cause(e))
            return model
        again = serde.serialize_model(serde.deserialize_model(once))
    assert once.SerializeToString(deterministic=True) == again.SerializeToString(
        deterministic=True
    ), "round trip is not a fixed point"
    return model


def _root_cause(e: BaseException) -> str:
    while e.__cause__ is not None:
        e = e.__cause__
    return f"{type(e).__name__}: {e}"


def vi(name, elem=TensorProto.FLOAT, shape=(2,)):
    return helper.make_tensor_value_info(name, elem, shape)


def make_function(domain, name, inputs, outputs, nodes):
    return helper.make_function(
        domain, name, inputs, outputs, nodes, opset_imports=[helper.make_opsetid("", 18)]
    )


def make_model(ir_version, functions=(), value_info=(), nodes=None):
    if nodes is None:
        nodes = [helper.make_node("Relu", ["x"], ["y"], name="n0")]
    graph = helper.make_graph(nodes, "g", [vi("x")], [vi("y")], value_info=list(value_info))
    model = helper.make_model(
        graph,
        ir_version=ir_version,
        opset_imports=[helper.make_opsetid("", 18), helper.make_opsetid("d", 1)],
        functions=list(functions),
    )
    return model


# --------------------------------------------------------------------------------------
# 1. Experimental function value infos (IR version 9)
# --------------------------------------------------------------------------------------
def demo_function_value_infos():
    f_plain = make_function(
        "d", "f", ["a"], ["b"], [helper.make_node("Relu", ["a"], ["t/u"]),
                                 helper.make_node("Relu", ["t/u"], ["b"])]
    )
    # A function whose *name* contains the separator, and a domain that contains "::"
    f_slash = make_function("d::e", "f/g", ["a"], ["b"], [helper.make_node("Relu", ["a"], ["b"])])
    # Same qualified name "d::e::f" can be read as ("d::e", "f") or ("d", "e::f")
    f_amb1 = make_function("d::e", "f", ["a"], ["b"], [helper.make_node("Relu", ["a"], ["b"])])
    f_amb2 = make_function("d", "e::f", ["a"], ["b"], [helper.make_node("Relu", ["a"], ["b"])])

    infos = [
        vi("d::f/a", TensorProto.FLOAT, (1,)),
        vi("d::f/a", TensorProto.INT64, (7,)),          # duplicate: the later one wins
        vi("d::f/t/u", TensorProto.DOUBLE, (3,)),        # value name with a "/"
        vi("d::f/b", TensorProto.INT32, (4,)),
        vi("d::e::f/g/a", TensorProto.INT8, (5,)),       # ("d::e","f/g") value a, or ("d::e","f") value g/a
        vi("d::e::f/b", TensorProto.UINT8, (6,)),        # both ambiguous functions get it
        vi("nosuch::f/a", TensorProto.FLOAT, (9,)),      # unknown function
        vi("d::f", TensorProto.FLOAT, (9,)),             # no "/" at all
        vi("d::f/", TensorProto.FLOAT, (9,)),            # empty value name
        vi("/a", TensorProto.FLOAT, (9,)),               # empty qualified name
        vi("", TensorProto.FLOAT, (9,)),                 # empty name
        vi("y", TensorProto.FLOAT, (2,)),                # ordinary value info of the main graph
    ]
    proto = make_model(9, [f_plain, f_slash, f_amb1, f_amb2], infos)
    model = roundtrip_fixed_point(proto)

    f = model.functions[("d", "f", "")]
    assert f.inputs[0].dtype == ir.DataType.INT64 and list(f.inputs[0].shape) == [7]
    nodes = list(f)
    assert nodes[0].outputs[0].name == "t/u"
    assert nodes[0].outputs[0].dtype == ir.DataType.DOUBLE
    assert list(nodes[0].outputs[0].shape) == [3]
    assert f.outputs[0].dtype == ir.DataType.INT32 and list(f.outputs[0].shape) == [4]

    fg = model.functions[("d::e", "f/g", "")]
    assert fg.inputs[0].dtype == ir.DataType.INT8 and list(fg.inputs[0].shape) == [5]
    assert fg.outputs[0].type is None

    for key in [("d::e", "f", ""), ("d", "e::f", "")]:
        func = model.functions[key]
        assert func.outputs[0].dtype == ir.DataType.UINT8, key
        assert list(func.outputs[0].shape) == [6], key
        assert func.inputs[0].type is None, key

    # With IR version 10 the experimental names are not interpreted at all
    proto10 = make_model(10, [f_plain], infos[:4])
    model10 = roundtrip_fixed_point(proto10)
    f10 = model10.functions[("d", "f", "")]
    assert f10.inputs[0].type is None and f10.outputs[0].type is None

    # No functions / no value infos
    roundtrip_fixed_point(make_model(9, [], infos))
    roundtrip_fixed_point(make_model(9, [f_plain], []))

    # Duplicate function identifiers: a rejected or accepted call, but the same either way
    try:
        m = serde.deserialize_model(make_model(9, [f_plain, f_plain], infos[:1]))
    except Exception as e:  # noqa: BLE001
        print("duplicate functions rejected:", type(e).__name__)
    else:
        assert len(m.functions) == 1
        print("duplicate functions: last one kept")


# --------------------------------------------------------------------------------------
# 2. Node device configurations
# --------------------------------------------------------------------------------------
def add_node_config(node, configuration_id, stage=None, tensor=None):
    cfg = node.device_configurations.add()
    cfg.configuration_id = configuration_id
    if stage is not None:
        cfg.pipeline_stage = stage
    if tensor is not None:
        spec = cfg.sharding_spec.add()
        spec.tensor_name = tensor
        spec.device.extend([0, 1])
    return cfg


def demo_device_configurations():
    if not hasattr(onnx.ModelProto(), "configuration"):
        print("onnx without multi-device protos; skipping device configuration demo")
        return

    then_graph = helper.make_graph(
        [helper.make_node("Relu", ["x"], ["ty"], name="inner")], "then", [], [vi("ty")]
    )
    add_node_config(then_graph.node[0], "cfgA", stage=3)
    nodes = [
        helper.make_node("Relu", ["x"], ["h"], name="n0"),
        helper.make_node("If", ["c"], ["y"], name="n1", then_branch=then_graph,
                         else_branch=then_graph),
        helper.make_node("Relu", ["h"], ["z"], name="n2"),
    ]
    add_node_config(nodes[0], "cfgA", stage=0, tensor="h")
    add_node_config(nodes[0], "dangling", stage=1, tensor="not_there")
    add_node_config(nodes[0], "", stage=2)                 # empty configuration id
    add_node_config(nodes[0], "cfgA", stage=5)             # same id twice on one node
    add_node_config(nodes[1], "dup")
    add_node_config(nodes[2], "nobody")                    # only dangling: tuple untouched

    func = make_function("d", "f", ["a"], ["b"], [helper.make_node("Relu", ["a"], ["b"])])
    add_node_config(func.node[0], "dup", stage=1)

    proto = make_model(11, [func], nodes=nodes)
    proto.graph.input.append(vi("c", TensorProto.BOOL, ()))
    for name, n in [("cfgA", 2), ("dup", 1), ("dup", 4)]:  # duplicate configuration names
        c = proto.configuration.add()
        c.name = name
        c.num_devices = n
        c.device.extend([f"dev{i}" for i in range(n)])

    # The entry with an empty configuration id has no configuration: serializing is rejected
    model = roundtrip_fixed_point(proto, may_reject=True)
    check_bound(model, with_empty_id=True)

    # Without it the model round-trips (or is rejected for its duplicate configuration names)
    del proto.graph.node[0].device_configurations[2]
    model = roundtrip_fixed_point(proto, may_reject=True)
    check_bound(model, with_empty_id=False)

    # Unique configuration names: must round-trip
    del proto.configuration[2]
    model = roundtrip_fixed_point(proto)
    check_bound(model, with_empty_id=False)

    # No model configurations at all: every reference keeps its placeholder
    del proto.configuration[:]
    model = roundtrip_fixed_point(proto)
    for node in model.graph.all_nodes():
        for cfg in node.device_configurations:
            assert cfg.configuration is not None and cfg.configuration.num_devices == 0


def check_bound(model: ir.Model, with_empty_id: bool) -> None:
    # The last configuration of a duplicated name is the one nodes are bound to
    dup_expected = model.device_configurations[-1]
    assert dup_expected.name == "dup"

    cfg_a = model.device_configurations[0]
    by_name = {n.name: n for n in model.graph.all_nodes()}
    n0 = by_name["n0"].device_configurations
    assert len(n0) == (4 if with_empty_id else 3)
    assert n0[0].configuration is cfg_a and n0[0].pipeline_stage == 0
    assert n0[0].sharding_specs[0].value is by_name["n0"].outputs[0]
    assert n0[1].configuration is not None and n0[1].configuration.name == "dangling"
    assert n0[1].configuration.num_devices == 0  # placeholder kept
    assert n0[1].sharding_specs[0].value.name == "not_there"
    if with_empty_id:
        assert n0[2].configuration is None and n0[2].pipeline_stage == 2
    assert n0[-1].configuration is cfg_a and n0[-1].pipeline_stage == 5
    assert by_name["n1"].device_configurations[0].configuration is dup_expected
    assert by_name["n2"].device_configurations[0].configuration.name == "nobody"
    inner = by_name["inner"].device_configurations
    assert inner[0].configuration is cfg_a and inner[0].pipeline_stage == 3
    fnode = next(iter(model.functions[("d", "f", "")]))
    assert fnode.device_configurations[0].configuration is dup_expected
    assert isinstance(by_name["n0"].device_configurations, tuple)
    assert isinstance(by_name["n2"].device_configurations, tuple)


if __name__ == "__main__":
    demo_function_value_infos()
    demo_device_configurations()
    print("OK")
    sys.exit(0)
