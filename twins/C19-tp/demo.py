"""C19 demo: device annotations follow identity and never dangle across round trips.

Exercises the deserialization post-pass that binds node annotations to the
configuration objects registered on the model (main graph, subgraph, function),
plus a dangling configuration id, duplicate configuration names, an empty
configuration id, rejected calls and a model without any configuration.
"""

import onnx

import onnx_ir as ir
from onnx_ir import _multi_device, serde


def all_nodes(model):
    nodes = list(model.graph.all_nodes())
    for func in model.functions.values():
        nodes.extend(func.all_nodes())
    return nodes


def check_never_dangles(model):
    registered = list(model.device_configurations)
    for node in all_nodes(model):
        io = [v for v in (*node.inputs, *node.outputs) if v is not None]
        for ndc in node.device_configurations:
            assert any(ndc.configuration is c for c in registered), (node.name, ndc)
            for spec in ndc.sharding_specs:
                assert any(spec.value is v for v in io), (node.name, spec)
    errors = _multi_device._check_device_configurations(model)
    assert errors == [], errors


def build():
    x = ir.Value(name="x", shape=ir.Shape([4, 8]), type=ir.TensorType(ir.DataType.FLOAT))
    cond = ir.Value(name="cond", shape=ir.Shape([]), type=ir.TensorType(ir.DataType.BOOL))
    unk = ir.Value(name="unk", type=ir.TensorType(ir.DataType.FLOAT))  # unknown rank

    # subgraph with a node that uses the outer value x
    inner = ir.Node("", "Relu", [x], name="inner_relu")
    inner.outputs[0].name = "inner_out"
    then_graph = ir.Graph([], [inner.outputs[0]], nodes=[inner], name="then")
    e = ir.Node("", "Neg", [x], name="else_neg")
    e.outputs[0].name = "else_out"
    else_graph = ir.Graph([], [e.outputs[0]], nodes=[e], name="else")

    add = ir.Node("", "Add", [x, x], name="add")  # duplicate input
    add.outputs[0].name = "sum"
    add.outputs[0].shape = ir.Shape([4, 8])
    iff = ir.Node(
        "",
        "If",
        [cond],
        attributes=[
            ir.AttrGraph("then_branch", then_graph),
            ir.AttrGraph("else_branch", else_graph),
        ],
        name="if",
    )
    iff.outputs[0].name = "if_out"
    call = ir.Node("custom", "F", [unk], name="call")
    call.outputs[0].name = "call_out"
    graph = ir.Graph(
        [x, cond, unk],
        [add.outputs[0], iff.outputs[0], call.outputs[0]],
        nodes=[add, iff, call],
        name="main",
        opset_imports={"": 21, "custom": 1},
    )

    fx = ir.Value(name="fx", shape=ir.Shape(["N", 3]), type=ir.TensorType(ir.DataType.FLOAT))
    fnode = ir.Node("", "Abs", [fx], name="f_abs")
    fnode.outputs[0].name = "fy"
    fgraph = ir.Graph([fx], [fnode.outputs[0]], nodes=[fnode], opset_imports={"": 21})
    func = ir.Function("custom", "F", "", graph=fgraph, attributes=[])
    model = ir.Model(graph, ir_version=11, functions=[func])
    return model, dict(add=add, inner=inner, e=e, call=call, fnode=fnode, iff=iff), dict(
        x=x, unk=unk, fx=fx
    )


def expect_value_error(fn):
    try:
        fn()
    except ValueError:
        return
    raise AssertionError("expected ValueError")


def main():
    model, n, v = build()
    tp = model.add_device_configuration("tp", device_names=("d0", "d1"))
    pp = model.add_device_configuration("pp", num_devices=4)
    expect_value_error(lambda: model.add_device_configuration("tp", num_devices=2))
    expect_value_error(lambda: model.add_device_configuration("", num_devices=2))
    assert model.device_configurations == (tp, pp)

    add, inner, fnode, call = n["add"], n["inner"], n["fnode"], n["call"]
    add.shard(v["x"], configuration=tp, axis=-1, num_shards=2, device_indices=(0, 1))
    add.shard(v["x"], configuration=tp, axis=0, num_shards=2, device_indices=(1,))
    add.shard(add.outputs[0], configuration=pp, axis=1, num_shards=4, pipeline_stage=1)
    add.set_pipeline_stage(tp, 0)
    inner.shard(v["x"], configuration=tp, axis=1, num_shards=2)
    inner.set_pipeline_stage(pp, 3)
    n["e"].set_pipeline_stage(pp, 2)
    call.shard(v["unk"], configuration=pp, axis=-3, num_shards=2)  # unknown rank
    fnode.shard(v["fx"], configuration=tp, axis=-2, num_shards=2)
    fnode.shard(fnode.outputs[0], configuration=pp, axis=0, num_shards=1)

    # rejected requests leave no trace
    before = {node: node.device_configurations for node in all_nodes(model)}
    expect_value_error(lambda: add.shard(v["x"], configuration=tp, axis=1, num_shards=2))
    expect_value_error(lambda: add.shard(v["x"], configuration=tp, axis=2, num_shards=2))
    expect_value_error(lambda: add.shard(v["x"], configuration=pp, axis=0, num_shards=0))
    expect_value_error(lambda: add.shard(v["unk"], configuration=tp, axis=0, num_shards=2))
    expect_value_error(
        lambda: add.shard(v["x"], configuration=pp, axis=0, num_shards=2, pipeline_stage=2)
    )
    expect_value_error(lambda: add.set_pipeline_stage(tp, -1))
    for node, cfgs in before.items():
        assert node.device_configurations is cfgs
    check_never_dangles(model)

    # rename values, then round-trip: references use the current names
    v["x"].name = "x_renamed"
    v["fx"].name = "fx_renamed"
    add.outputs[0].name = "sum_renamed"
    proto = serde.serialize_model(model)
    assert proto.ir_version == 11
    by_name = {p.name: p for p in proto.graph.node}
    names = sorted(
        s.tensor_name for c in by_name["add"].device_configurations for s in c.sharding_spec
    )
    assert names == ["sum_renamed", "x_renamed"], names
    assert [s.tensor_name for c in proto.functions[0].node[0].device_configurations
            for s in c.sharding_spec] == ["fx_renamed", "fy"]

    # go through bytes as well
    proto2 = onnx.ModelProto()
    proto2.ParseFromString(proto.SerializeToString())
    back = serde.deserialize_model(proto2)
    assert [c.name for c in back.device_configurations] == ["tp", "pp"]
    assert back.device_configurations == model.device_configurations
    check_never_dangles(back)
    tp2, pp2 = back.device_configurations
    nodes2 = {node.name: node for node in all_nodes(back)}
    assert set(nodes2) == {"add", "if", "call", "inner_relu", "else_neg", "f_abs"}
    a2 = nodes2["add"]
    assert [c.configuration for c in a2.device_configurations] == [tp2, pp2]
    assert a2.device_configurations[0].configuration is tp2
    assert a2.device_configurations[0].pipeline_stage == 0
    assert a2.device_configurations[1].pipeline_stage == 1
    (spec_x,) = a2.sharding_of(a2.inputs[0])
    assert a2.inputs[0] is a2.inputs[1] and a2.inputs[0].name == "x_renamed"
    assert [d.axis for d in spec_x.sharded_dims] == [-1, 0] and spec_x.device == (0, 1)
    i2 = nodes2["inner_relu"]
    assert i2.inputs[0] is a2.inputs[0]
    assert i2.device_configurations[0].configuration is tp2
    assert i2.device_configurations[0].sharding_specs[0].value is a2.inputs[0]
    assert i2.device_configurations[1].configuration is pp2
    assert i2.device_configurations[1] == _multi_device.NodeDeviceConfiguration(
        configuration=pp2, pipeline_stage=3
    )
    assert nodes2["else_neg"].device_configurations[0].configuration is pp2
    assert nodes2["if"].device_configurations == ()
    f2 = nodes2["f_abs"]
    assert [c.configuration is t for c, t in zip(f2.device_configurations, (tp2, pp2))] == [
        True,
        True,
    ]
    c2 = nodes2["call"]
    assert c2.device_configurations[0].sharding_specs[0].sharded_dims[0].axis == -3
    # second round trip is a fixed point
    assert serde.serialize_model(back) == proto

    # edits on the round-tripped model keep following identity
    a2.replace_input_with(0, None)
    assert a2.sharding_of(a2.inputs[1]) == (spec_x,)  # still an input through slot 1
    dropped = a2.inputs[1]
    a2.replace_input_with(1, None)
    assert a2.sharding_of(dropped) == ()
    assert a2.device_configurations[0].sharding_specs == ()
    assert a2.device_configurations[0].pipeline_stage == 0
    check_never_dangles(back)
    removed = back.remove_device_configuration("pp", cascade=True)
    assert removed is pp2
    for node in all_nodes(back):
        assert all(c.configuration is tp2 for c in node.device_configurations)
    check_never_dangles(back)
    back3 = serde.deserialize_model(serde.serialize_model(back))
    check_never_dangles(back3)

    # Unusual protos: dangling id, duplicate registered names, id-less entry, None-free model
    proto4 = onnx.ModelProto()
    proto4.CopyFrom(proto)
    dup = proto4.configuration.add()
    dup.name = "tp"
    dup.num_devices = 7
    proto4.graph.node[0].device_configurations.add().configuration_id = "ghost"
    proto4.graph.node[0].device_configurations.add().pipeline_stage = 5  # empty id
    m4 = serde.deserialize_model(proto4)
    assert [c.num_devices for c in m4.device_configurations] == [2, 4, 7]
    n4 = {node.name: node for node in all_nodes(m4)}
    cfgs = n4["add"].device_configurations
    assert len(cfgs) == 4
    # the last registered configuration of a duplicated name wins
    assert cfgs[0].configuration is m4.device_configurations[2]
    assert cfgs[1].configuration is m4.device_configurations[1]
    assert cfgs[2].configuration == _multi_device.ModelConfiguration(name="ghost", num_devices=0)
    assert not any(cfgs[2].configuration is c for c in m4.device_configurations)
    assert cfgs[3].configuration is None and cfgs[3].pipeline_stage == 5
    assert n4["f_abs"].device_configurations[0].configuration is m4.device_configurations[2]
    errors = _multi_device._check_device_configurations(m4)
    assert len(errors) == 2 and any("ghost" in e for e in errors), errors

    # no registered configuration at all: placeholders are kept as they are
    proto5 = onnx.ModelProto()
    proto5.CopyFrom(proto)
    del proto5.configuration[:]
    m5 = serde.deserialize_model(proto5)
    assert m5.device_configurations == ()
    n5 = {node.name: node for node in all_nodes(m5)}
    assert [c.configuration for c in n5["add"].device_configurations] == [
        _multi_device.ModelConfiguration(name="tp", num_devices=0),
        _multi_device.ModelConfiguration(name="pp", num_devices=0),
    ]
    assert serde.serialize_model(m5) == proto5

    # public node-level deserializer on its own
    ndc = serde.deserialize_node_device_configuration(proto.graph.node[0].device_configurations[0])
    assert ndc.configuration == _multi_device.ModelConfiguration(name="tp", num_devices=0)
    assert ndc.pipeline_stage == 0 and ndc.sharding_specs[0].value.name == "x_renamed"
    empty = serde.deserialize_node_device_configuration(onnx.NodeDeviceConfigurationProto())
    assert empty == _multi_device.NodeDeviceConfiguration()

    # clone keeps identity bindings on the copy
    clone = model.clone()
    check_never_dangles(clone)
    print("C19 demo OK")


if __name__ == "__main__":
    main()
