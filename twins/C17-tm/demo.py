"""Demo for C17: attribute deserialization terminates with an error or a consistent IR."""
import builtins
import logging

import onnx
from onnx import TensorProto, helper

import onnx_ir as ir
from onnx_ir import serde

logging.disable(logging.CRITICAL)

# No file access at all during the demo.
_real_open = builtins.open


def _no_open(*a, **k):
    raise AssertionError(f"file access: {a}")


builtins.open = _no_open


def roundtrip_attr(proto):
    attr = serde.deserialize_attribute(proto)
    p1 = serde.serialize_attribute(attr)
    p2 = serde.serialize_attribute(serde.deserialize_attribute(p1))
    assert p1.SerializeToString(deterministic=True) == p2.SerializeToString(deterministic=True)
    return attr, p1


def tensor_type(elem, dims):
    return helper.make_tensor_type_proto(elem, dims)


# 1. TYPE_PROTO
tp = tensor_type(TensorProto.FLOAT, [1, "N", None])
a = onnx.AttributeProto(name="tp", type=onnx.AttributeProto.TYPE_PROTO)
a.tp.CopyFrom(tp)
attr, p1 = roundtrip_attr(a)
assert isinstance(attr, ir.Attr) and attr.type == ir.AttributeType.TYPE_PROTO
assert attr.value.type == ir.TensorType(ir.DataType.FLOAT)
assert list(attr.value.shape)[0] == 1 and len(attr.value.shape) == 3
assert p1.tp == tp

# from_proto on TypeProto gives the same TypeAndShape
tas = serde.from_proto(tp)
assert isinstance(tas, ir.TypeAndShape)
assert tas.type == attr.value.type and tas.shape == attr.value.shape

# 2. TYPE_PROTOS: duplicates, nested sequence/optional, an empty TypeProto, and the empty list
seq = helper.make_sequence_type_proto(tensor_type(TensorProto.INT64, [2]))
opt = helper.make_optional_type_proto(seq)
a = onnx.AttributeProto(name="tps", type=onnx.AttributeProto.TYPE_PROTOS)
a.type_protos.extend([tp, tp, seq, opt, onnx.TypeProto()])
attr, p1 = roundtrip_attr(a)
assert isinstance(attr, ir.Attr) and attr.type == ir.AttributeType.TYPE_PROTOS
vals = list(attr.value)
assert len(vals) == 5
assert vals[0].type == vals[1].type and vals[0] is not vals[1]
assert isinstance(vals[2].type, ir.SequenceType) and isinstance(vals[3].type, ir.OptionalType)
assert vals[2].shape is not None and len(vals[2].shape) == 1
assert vals[4].type is None and vals[4].shape is None

a = onnx.AttributeProto(name="none", type=onnx.AttributeProto.TYPE_PROTOS)
attr = serde.deserialize_attribute(a)
assert list(attr.value) == []

# 3. Rejected: map type (type raises first), sequence without elem_type, unknown elem enum
def rejected(proto, cause_type, fn=serde.deserialize_attribute, outer=serde.SerdeError):
    try:
        fn(proto)
    except outer as e:
        c = e
        while c.__cause__ is not None:
            c = c.__cause__
        assert isinstance(c, cause_type), repr(c)
        return e
    raise AssertionError("not rejected")


m = onnx.TypeProto()
m.map_type.key_type = TensorProto.INT64
m.map_type.value_type.CopyFrom(tp)
a = onnx.AttributeProto(name="m", type=onnx.AttributeProto.TYPE_PROTO)
a.tp.CopyFrom(m)
e = rejected(a, NotImplementedError)
# the innermost wrapper is the one of deserialize_type_proto_for_type (type before shape)
assert "deserialize_type_proto_for_type" in str(e.__cause__), str(e.__cause__)
e = rejected(m, NotImplementedError, fn=serde.from_proto)
assert "deserialize_type_proto_for_type" in str(e)

a = onnx.AttributeProto(name="ms", type=onnx.AttributeProto.TYPE_PROTOS)
a.type_protos.extend([tp, m, tp])
rejected(a, NotImplementedError)

bad_seq = onnx.TypeProto()
bad_seq.sequence_type.SetInParent()
a = onnx.AttributeProto(name="bs", type=onnx.AttributeProto.TYPE_PROTOS)
a.type_protos.extend([bad_seq])
rejected(a, ValueError)

bad_enum = onnx.TypeProto()
bad_enum.tensor_type.elem_type = 9999
a = onnx.AttributeProto(name="be", type=onnx.AttributeProto.TYPE_PROTO)
a.tp.CopyFrom(bad_enum)
rejected(a, ValueError)

# 4. Sparse tensors (both kinds) are refused with NotImplementedError; unknown attr type with ValueError
for t in (onnx.AttributeProto.SPARSE_TENSOR, onnx.AttributeProto.SPARSE_TENSORS):
    e = rejected(onnx.AttributeProto(name="sp", type=t), NotImplementedError)
    assert "Sparse tensors are not supported yet" in str(e.__cause__)
a = onnx.AttributeProto()
a.ParseFromString(b"\x0a\x03unk" + b"\xa0\x01\x4d")  # name="unk", type=77 (unknown enum value)
assert a.name == "unk"
# proto2 keeps an unknown enum value in the unknown fields: the attribute reads as UNDEFINED
attr = serde.deserialize_attribute(a)
assert attr.type == ir.AttributeType.UNDEFINED and attr.value is None

# 5. Reference attribute keeps its type (also a sparse one); UNDEFINED; invalid UTF-8
a = onnx.AttributeProto(name="r", type=onnx.AttributeProto.SPARSE_TENSOR, ref_attr_name="outer")
attr = serde.deserialize_attribute(a)
p1 = serde.serialize_reference_attribute(attr)
assert p1 == a
assert attr.is_ref() and attr.ref_attr_name == 'outer' and attr.type == ir.AttributeType.SPARSE_TENSOR
assert p1.ref_attr_name == "outer"
attr = serde.deserialize_attribute(onnx.AttributeProto(name="u"))
assert attr.type == ir.AttributeType.UNDEFINED and attr.value is None
a = onnx.AttributeProto(name="s", type=onnx.AttributeProto.STRING, s=b"\xff\xfe")
attr, p1 = roundtrip_attr(a)
assert attr.value == b"\xff\xfe" and p1.s == b"\xff\xfe"
a = onnx.AttributeProto(name="ss", type=onnx.AttributeProto.STRINGS, strings=[b"ok", b"\xff"])
rejected(a, UnicodeDecodeError)

# 6. Whole model: node with type-proto attributes nested in a subgraph that uses an outer value
inner = helper.make_graph(
    [helper.make_node("Identity", ["x"], ["y"], name="in0")], "inner", [], [helper.make_tensor_value_info("y", TensorProto.FLOAT, [1])]
)
n = helper.make_node("If", ["c"], ["o"], name="if0", then_branch=inner, else_branch=inner)
ta = onnx.AttributeProto(name="types", type=onnx.AttributeProto.TYPE_PROTOS)
ta.type_protos.extend([tp, seq])
n.attribute.append(ta)
g = helper.make_graph(
    [n],
    "g",
    [helper.make_tensor_value_info("c", TensorProto.BOOL, []), helper.make_tensor_value_info("x", TensorProto.FLOAT, [1])],
    [helper.make_tensor_value_info("o", TensorProto.FLOAT, [1])],
)
mp = helper.make_model(g)
model = serde.deserialize_model(mp)
x = model.graph.inputs[1]
uses = [(u.node.name, u.idx) for u in x.uses()]
assert sorted(uses) == [("in0", 0), ("in0", 0)], uses
for node in model.graph:
    assert node.graph is model.graph
    for o in node.outputs:
        assert o.producer() is node
q1 = serde.serialize_model(model)
q2 = serde.serialize_model(serde.deserialize_model(q1))
assert q1.SerializeToString(deterministic=True) == q2.SerializeToString(deterministic=True)

builtins.open = _real_open
print("OK")
