"""Demo for C20: journaling observes without interfering and restores the classes."""
import contextlib
import gc
import io
import weakref

import onnx_ir as ir
from onnx_ir import _core, _graph_containers
from onnx_ir.journaling import Journal, get_current_journal
from onnx_ir.journaling import _wrappers

THIS_FILE = __file__


def snapshot_classes():
    snap = _wrappers.get_original_methods()
    # property objects too
    for cls, names in (
        (_core.Node, ("name", "domain", "version", "op_type", "overload", "graph")),
        (_core.Value, ("name", "type", "shape", "const_value")),
        (_core.Function, ("name", "domain", "overload")),
    ):
        for n in names:
            snap[f"{cls.__name__}.{n}.fget"] = getattr(cls, n).fget
    return snap


def scenario():
    """A sequence of IR operations; returns (observable state, return values / exceptions)."""
    out = []
    x = ir.Value(name="x", type=ir.TensorType(ir.DataType.FLOAT), shape=ir.Shape([1, 2]))
    y = ir.Value(name="y")
    n1 = ir.Node("", "Add", [x, y], name="n1")
    n2 = ir.Node("", "Relu", [n1.outputs[0]], name="n2")
    g = ir.Graph([x, y], [n2.outputs[0]], nodes=[n1, n2], name="g", opset_imports={"": 18})
    n1.name = "n1_renamed"
    n1.name = "n1_renamed"  # duplicate assignment
    n2.op_type = "Sigmoid"
    n2.domain = "custom"
    n2.version = 3
    n2.overload = "ov"
    x.name = "x2"
    x.shape = ir.Shape([3, None])
    x.type = ir.TensorType(ir.DataType.INT64)
    y.const_value = None
    n3 = ir.Node("", "Neg", [x], name="n3")
    g.insert_before(n1, [n3])
    n3.outputs[0].name = "neg_out"
    out.append(("rauw", y.replace_all_uses_with(n3.outputs[0])))
    g.extend([])  # empty input
    # rejected calls
    try:
        g.append(n1)  # already belongs to g
        out.append(("append-dup", "ok"))
    except Exception as e:  # noqa: BLE001
        out.append(("append-dup", type(e).__name__, str(e)))
    try:
        g.remove(n1, safe=True)  # still used by n2
        out.append(("remove-safe", "ok"))
    except Exception as e:  # noqa: BLE001
        out.append(("remove-safe", type(e).__name__, str(e)))
    try:
        g.inputs.remove(n2.outputs[0])  # not an input
        out.append(("inputs.remove", "ok"))
    except Exception as e:  # noqa: BLE001
        out.append(("inputs.remove", type(e).__name__))
    n2.resize_outputs(2)
    n2.resize_inputs(2)
    g.outputs.append(n2.outputs[1])
    out.append(("pop", g.outputs.pop().name))
    g.inputs.insert(0, ir.Value(name="extra"))
    g.inputs[0] = ir.Value(name="extra2")
    n2.attributes["alpha"] = ir.AttrFloat32("alpha", 0.5)
    init = ir.Value(name="w", const_value=ir.tensor([1.0, 2.0], name="w"))
    g.register_initializer(init)
    del g.initializers["w"]
    g.initializers["w"] = init
    g.sort()
    model = ir.Model(g, ir_version=10)
    state = (
        str(model),
        [n.name for n in g],
        [v.name for v in g.inputs],
        [v.name for v in g.outputs],
        sorted(g.initializers),
    )
    return state, out, (x, n1, g)


def ops(journal):
    return [(e.operation, e.class_name, e.details) for e in journal.entries]


def main():
    before = snapshot_classes()
    assert get_current_journal() is None

    # 1. no journal vs journal: same state, returns and exceptions
    plain_state, plain_out, _ = scenario()
    with Journal() as j:
        assert get_current_journal() is j
        j_state, j_out, keep = scenario()
    assert get_current_journal() is None
    assert snapshot_classes() == before, "classes not restored"
    assert plain_state == j_state
    assert plain_out == j_out, (plain_out, j_out)
    recorded = ops(j)
    assert recorded, "nothing recorded"
    # program order of a few landmark operations
    names = [r[0] for r in recorded]
    assert names.index("insert_before") < names.index("replace_all_uses_with") < names.index("sort")
    assert names.count("set_name") >= 4
    dup = [r for r in recorded if r[0] == "set_name" and r[1] == "Node"]
    assert dup[0][2] == "'n1' -> 'n1_renamed'" and dup[1][2] == "'n1_renamed' -> 'n1_renamed'", dup
    assert ("extend", "Graph", "[]") in recorded

    # 2. stack traces: innermost frame retained is the user code (this file), for every entry
    # created by an instrumented operation called from this file.
    set_entries = [e for e in j.entries if e.operation in ("set_op_type", "sort", "set_attribute")]
    assert len(set_entries) == 3
    for e in set_entries:
        last = e.stack_trace[-1]
        assert last.filename == THIS_FILE and last.name == "scenario", (last.filename, last.name)
    # a direct call to the public record(): the frames of record and its caller are dropped
    def direct(jj, obj):
        jj.record(obj, "custom", details="d")
    j2 = Journal()
    seen = []
    j2.add_hook(seen.append)
    direct(j2, keep[0])
    direct(j2, None)  # unusual: None object -> no ref
    assert [e.operation for e in j2.entries] == ["custom", "custom"] and seen == list(j2.entries)
    assert j2.entries[0].stack_trace[-1].name == "main"
    assert j2.entries[0].obj is keep[0]
    assert j2.entries[1].ref is None and j2.entries[1].obj is None
    assert j2.entries[1].class_name == "NoneType"

    # 3. display goes through the user-frame search; same text both ways modulo timestamps
    buf = io.StringIO()
    with contextlib.redirect_stdout(buf):
        j.display()
        j.entries[0].display()
        j2.entries[1].display()
    text = buf.getvalue()
    assert f"{THIS_FILE}:" in text and " in scenario" in text
    assert "<no ref>" in text and "User Code Location:" in text
    assert "<unknown>" not in text

    # 4. nesting (depth 3, including re-entering the same journal) and an exception inside
    a, b = Journal(), Journal()
    try:
        with a:
            v = ir.Value(name="va")
            with b:
                v.name = "vb"
                with a:
                    assert get_current_journal() is a
                    v.name = "vc"
                    raise KeyError("boom")
    except KeyError as e:
        assert e.args == ("boom",)
    else:
        raise AssertionError("exception swallowed")
    assert get_current_journal() is None
    assert snapshot_classes() == before, "classes not restored after nested exception"
    assert v.name == "vc"
    # inner journals wrap the (already wrapped) methods, so outer journals record as well;
    # `a` is active twice when the second rename happens
    assert [(e.operation, e.details) for e in a.entries] == [
        ("init", repr(ir.Value(name="va"))),
        ("set_name", "'va' -> 'vb'"),
        ("set_name", "'vb' -> 'vc'"),
        ("set_name", "'vb' -> 'vc'"),
    ], ops(a)
    assert [(e.operation, e.details) for e in b.entries] == [
        ("set_name", "'va' -> 'vb'"),
        ("set_name", "'vb' -> 'vc'"),
    ], ops(b)
    # every one of these entries points at this function as the user frame
    for e in list(a.entries) + list(b.entries):
        user = [f for f in e.stack_trace if f.filename == THIS_FILE]
        assert user and user[-1].name == "main"
    assert a.entries[0].stack_trace[-1].filename == THIS_FILE
    assert a._saved_states == [] and b._saved_states == []

    # 5. entries do not keep IR objects alive
    with Journal() as j3:
        tmp = ir.Value(name="tmp")
        tmp.name = "tmp2"
        r = weakref.ref(tmp)
    del tmp
    gc.collect()
    assert r() is None, "journal entry keeps the value alive"
    assert all(e.obj is None for e in j3.entries)
    buf = io.StringIO()
    with contextlib.redirect_stdout(buf):
        j3.display()
    assert "<deleted>" in buf.getvalue()

    # 6. empty journal
    with Journal() as j4:
        pass
    assert list(j4.entries) == []
    assert snapshot_classes() == before
    # digest of every recorded stack (files, functions, line numbers): must be identical
    # before and after the refactoring (compare the printed value across the two trees)
    import hashlib

    sig = repr(
        [
            (e.operation, e.class_name, [(f.filename, f.name, f.lineno) for f in e.stack_trace])
            for jj in (j, j2, a, b, j3)
            for e in jj.entries
        ]
    )
    print("C20 demo OK:", len(j.entries), "entries; stack digest",
          hashlib.sha256(sig.encode()).hexdigest()[:16])


if __name__ == "__main__":
    main()
