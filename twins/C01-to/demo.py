"""Demo for C01: use-def / ownership links stay consistent (graph outputs, inputs, initializers).

Exercises Value.replace_all_uses_with(replace_graph_outputs=True) with a value listed
several times in the graph outputs, releasing of the graph link when the last role of a
value (input / output / initializer) is dropped, rejected calls, and a nested subgraph.
"""

import onnx_ir as ir


def check(graphs, extra_values=()):
    """Check both directions of every link for the given graphs (and loose values)."""
    values = list(extra_values)
    for g in graphs:
        nodes = list(g)
        assert len(set(map(id, nodes))) == len(nodes), "node listed twice"
        for n in nodes:
            assert n.graph is g
            for i, v in enumerate(n.inputs):
                if v is not None:
                    assert (n, i) in v.uses(), (n, i)
                    values.append(v)
            for i, o in enumerate(n.outputs):
                assert o.producer() is n and o.index() == i
                values.append(o)
        values += list(g.inputs) + list(g.outputs) + list(g.initializers.values())
        for name, v in g.initializers.items():
            assert v.name == name
            assert v.producer() is None
            assert v.is_initializer() and v._graph is g
        for v in g.inputs:
            assert v.is_graph_input() and v._graph is g and v.producer() is None
        for v in g.outputs:
            assert v.is_graph_output() and v._graph is g
    for v in values:
        for node, idx in v.uses():
            assert node.inputs[idx] is v
        owner = v._graph
        if owner is None:
            assert not (v.is_graph_input() or v.is_graph_output() or v.is_initializer())
        else:
            assert v.is_graph_input() == any(x is v for x in owner.inputs)
            assert v.is_graph_output() == any(x is v for x in owner.outputs)
            assert v.is_initializer() == any(x is v for x in owner.initializers.values())
            assert v.is_graph_input() or v.is_graph_output() or v.is_initializer()


def expect(exc, fn):
    try:
        fn()
    except exc:
        return
    raise AssertionError(f"{exc.__name__} not raised")


def main():
    x = ir.Value(name="x")
    w = ir.Value(name="w", const_value=ir.tensor([1.0], name="w"))
    add = ir.Node("", "Add", [x, w], name="add")
    relu = ir.Node("", "Relu", [add.outputs[0]], name="relu")
    y = add.outputs[0]
    z = relu.outputs[0]
    # y is listed three times in the outputs, z once in between
    g = ir.Graph([x], [y, z, y, y], nodes=[add, relu], initializers=[w], name="main")
    everything = [x, w, y, z]
    check([g], everything)

    # 1. rejected: y is a graph output and replace_graph_outputs is False
    expect(ValueError, lambda: y.replace_all_uses_with(x))
    assert [o.name for o in g.outputs] == [y.name, z.name, y.name, y.name]
    assert relu.inputs[0] is y
    check([g], everything)

    # 2. rejected at the first listed occurrence: replacement owned by another graph; nothing may change
    foreign = ir.Value(name="foreign")
    other = ir.Graph([foreign], [], nodes=[], name="other")
    expect(ValueError, lambda: y.replace_all_uses_with(foreign, replace_graph_outputs=True))
    assert [o is y for o in g.outputs] == [True, False, True, True]
    assert relu.inputs[0] is y and foreign.uses() == ()
    check([g, other], everything + [foreign])

    # 3. replacement is the value itself: a no-op that must keep every flag
    y.replace_all_uses_with(y, replace_graph_outputs=True)
    assert [o is y for o in g.outputs] == [True, False, True, True]
    assert y.is_graph_output() and y._graph is g
    check([g, other], everything + [foreign])

    # 4. accepted: every occurrence of y in the outputs becomes x (input AND output now)
    y.replace_all_uses_with(x, replace_graph_outputs=True)
    assert [o is x for o in g.outputs] == [True, False, True, True]
    assert not y.is_graph_output() and y._graph is None and y.graph is g
    assert y.uses() == () and relu.inputs[0] is x
    assert x.is_graph_input() and x.is_graph_output()
    check([g, other], everything + [foreign])

    # 5. x is additionally made an initializer, then loses its roles one by one;
    #    the graph link is released only with the last role
    g.initializers["x"] = x
    assert x.is_initializer()
    check([g, other], everything)
    g.inputs.remove(x)
    assert not x.is_graph_input() and x._graph is g
    check([g, other], everything)
    del g.outputs[2:]
    assert x.is_graph_output() and x._graph is g  # still listed at position 0
    g.outputs[0] = z
    assert not x.is_graph_output() and x._graph is g  # initializer role remains
    check([g, other], everything)
    del g.initializers["x"]
    assert not x.is_initializer() and x._graph is None and x.graph is None
    assert "x" not in g.initializers
    check([g, other], everything)

    # 6. rename an initializer; a clashing rename is rejected and changes nothing
    w2 = ir.Value(name="w2", const_value=ir.tensor([2.0], name="w2"))
    g.initializers.add(w2)
    expect(ValueError, lambda: setattr(w, "name", "w2"))
    expect(ValueError, lambda: setattr(w, "name", None))
    assert w.name == "w" and g.initializers["w"] is w and g.initializers["w2"] is w2
    w.name = "weight"
    assert "w" not in g.initializers and g.initializers["weight"] is w
    assert w.is_initializer() and w._graph is g and w.const_value.name == "weight"
    check([g, other], everything + [w2])

    # 7. empty cases: a value without uses that is not an output; an empty outputs list
    lonely = ir.Value(name="lonely")
    lonely.replace_all_uses_with(z)
    lonely.replace_all_uses_with(z, replace_graph_outputs=True)
    g.outputs.clear()
    assert not z.is_graph_output() and z._graph is None and z.graph is g
    check([g, other], everything + [w2, lonely])

    # 8. nested subgraph: its output (an outer value use is kept too) is replaced
    inner_in = ir.Value(name="inner_in")
    ident = ir.Node("", "Identity", [inner_in], name="ident")
    uses_outer = ir.Node("", "Neg", [z], name="neg")
    sub = ir.Graph(
        [inner_in], [ident.outputs[0], ident.outputs[0]], nodes=[ident, uses_outer], name="sub"
    )
    cond = ir.Value(name="cond")
    g.inputs.append(cond)
    if_node = ir.Node("", "If", [cond], attributes=[ir.AttrGraph("then_branch", sub)], name="if")
    g.append(if_node)
    io = ident.outputs[0]
    # rejected: the outer graph's node output cannot take over as it is ... allowed for outputs,
    # but a value that is an output of *another* graph is not
    g.outputs.append(z)
    expect(ValueError, lambda: io.replace_all_uses_with(z, replace_graph_outputs=True))
    assert [o is io for o in sub.outputs] == [True, True] and z._graph is g
    check([g, sub, other], everything + [w2, cond, inner_in, io])
    io.replace_all_uses_with(uses_outer.outputs[0], replace_graph_outputs=True)
    assert [o is uses_outer.outputs[0] for o in sub.outputs] == [True, True]
    assert not io.is_graph_output() and io._graph is None and io.graph is sub
    assert (uses_outer, 0) in z.uses()
    check([g, sub, other], everything + [w2, cond, inner_in, io])

    print("C01 demo OK")


if __name__ == "__main__":
    main()
