"""Demo for C13: clones are faithful and fully independent of their originals.

Exercises Model/Graph/GraphView/Function.clone() (each of which builds its own
cloner) with nested subgraphs, captured outer-scope values, duplicate inputs and
multi-device annotations (sharding specs that must be re-pointed at the cloned
values, kept as-is for outer-scope values, or absent altogether).
"""

from __future__ import annotations

import sys

import onnx_ir as ir

FLOAT = ir.TensorType(ir.DataType.FLOAT)
BOOL = ir.TensorType(ir.DataType.BOOL)


def ser(obj) -> bytes:
    return ir.to_proto(obj).SerializeToString(deterministic=True)


def check(cond: bool, msg: str) -> None:
    if not cond:
        print("FAIL:", msg)
        sys.exit(1)


def all_graphs(graph):
    yield graph
    for node in graph:
        for attr in node.attributes.values():
            if attr.is_ref():
                continue
            if attr.type == ir.AttributeType.GRAPH:
                yield from all_graphs(attr.as_graph())
            elif attr.type == ir.AttributeType.GRAPHS:
                for g in attr.as_graphs():
                    yield from all_graphs(g)


def objects_of(graph) -> dict[int, object]:
    """All graphs/nodes/values/shapes/metadata containers reachable from graph."""
    objs: dict[int, object] = {}

    def add(o):
        if o is not None:
            objs[id(o)] = o

    def add_value(v):
        if v is None:
            return
        add(v)
        add(v.shape)
        add(v.type)
        add(v.metadata_props)
        add(v.meta)

    for g in all_graphs(graph):
        add(g)
        add(g.metadata_props)
        add(g.meta)
        for v in list(g.inputs) + list(g.outputs) + list(g.initializers.values()):
            add_value(v)
        for node in g:
            add(node)
            add(node.metadata_props)
            add(node.meta)
            for v in node.outputs:
                add_value(v)
    return objs


def spec_values(graph):
    for g in all_graphs(graph):
        for node in g:
            for conf in node.device_configurations:
                for spec in conf.sharding_specs:
                    yield node, spec.value


def build():
    x = ir.Value(name="x", shape=ir.Shape([4, 8]), type=FLOAT)
    cond = ir.Value(name="cond", shape=ir.Shape([]), type=BOOL)
    w = ir.Value(
        name="w",
        shape=ir.Shape([4, 8]),
        type=FLOAT,
        const_value=ir.tensor([[1.0] * 8] * 4, dtype=ir.DataType.FLOAT, name="w"),
    )
    add = ir.Node("", "Add", [x, w], outputs=[ir.Value(name="a", shape=ir.Shape([4, 8]), type=FLOAT)], name="add0")
    a = add.outputs[0]
    a.metadata_props["note"] = "captured"
    a.meta["scratch"] = {"k": [1, 2]}
    # duplicate inputs: the same value twice
    dbl = ir.Node("", "Mul", [a, a], outputs=[ir.Value(name="d", shape=ir.Shape([4, 8]), type=FLOAT)], name="mul0")
    d = dbl.outputs[0]

    # nested subgraphs capturing `a` and `d` from the outer scope
    t_node = ir.Node("", "Relu", [a], outputs=[ir.Value(name="t", shape=ir.Shape([4, 8]), type=FLOAT)], name="then_relu")
    then_g = ir.Graph([], [t_node.outputs[0]], nodes=[t_node], name="then_g")
    inner_n = ir.Node("", "Neg", [d], outputs=[ir.Value(name="ii", shape=ir.Shape([4, 8]), type=FLOAT)], name="inner_neg")
    inner_g = ir.Graph([], [inner_n.outputs[0]], nodes=[inner_n], name="inner_g")
    abs_n = ir.Node("", "Abs", [a], outputs=[ir.Value(name="ie", shape=ir.Shape([4, 8]), type=FLOAT)], name="inner_abs")
    inner_else = ir.Graph([], [abs_n.outputs[0]], nodes=[abs_n], name="inner_else")
    inner_if = ir.Node(
        "", "If", [cond],
        [ir.AttrGraph("then_branch", inner_g), ir.AttrGraph("else_branch", inner_else)],
        outputs=[ir.Value(name="e", shape=ir.Shape([4, 8]), type=FLOAT)],
        name="inner_if",
    )
    else_g = ir.Graph([], [inner_if.outputs[0]], nodes=[inner_if], name="else_g")
    if_node = ir.Node(
        "", "If", [cond],
        [ir.AttrGraph("then_branch", then_g), ir.AttrGraph("else_branch", else_g)],
        outputs=[ir.Value(name="y", shape=ir.Shape([4, 8]), type=FLOAT)],
        name="if0",
    )
    if_node.metadata_props["origin"] = "demo"
    # a node without any annotation at all (empty device_configurations)
    ident = ir.Node("", "Identity", [if_node.outputs[0]], outputs=[ir.Value(name="z", shape=ir.Shape([4, 8]), type=FLOAT)], name="id0")

    graph = ir.Graph(
        [x, cond], [ident.outputs[0]], nodes=[add, dbl, if_node, ident],
        initializers=[w], opset_imports={"": 18}, name="main",
    )
    graph.metadata_props["gk"] = "gv"

    # a function with a reference attribute and an attribute parameter
    fx = ir.Value(name="fx", type=FLOAT)
    fnode = ir.Node("", "LeakyRelu", [fx], [ir.RefAttr("alpha", "alpha", ir.AttributeType.FLOAT)], outputs=[ir.Value(name="fy")], name="fn0")
    fgraph = ir.Graph([fx], [fnode.outputs[0]], nodes=[fnode], opset_imports={"": 18}, name="fbody")
    func = ir.Function("demo.domain", "MyLeaky", "", graph=fgraph, attributes=[ir.AttrFloat32("alpha", 0.5)])

    model = ir.Model(graph, ir_version=11, functions=[func], producer_name="demo")
    model.metadata_props["mk"] = "mv"

    conf0 = model.add_device_configuration("conf0", num_devices=2)
    conf1 = model.add_device_configuration("conf1", num_devices=4)
    add.shard(x, configuration=conf0, axis=0, num_shards=2, device_indices=(0, 1))
    add.shard(a, configuration=conf0, axis=0, num_shards=2)
    add.shard(a, configuration=conf1, axis=1, num_shards=4, pipeline_stage=1)
    dbl.shard(a, configuration=conf0, axis=0, num_shards=2)  # `a` appears twice as input
    dbl.shard(d, configuration=conf0, axis=-1, num_shards=2)
    # annotations on nodes of nested subgraphs that point at captured outer values
    t_node.shard(a, configuration=conf0, axis=0, num_shards=2)
    inner_n.shard(d, configuration=conf1, axis=0, num_shards=4)
    inner_n.shard(inner_n.outputs[0], configuration=conf1, axis=0, num_shards=4)
    # a pipeline-only annotation: a configuration with an EMPTY tuple of sharding specs
    if_node.device_configurations = (
        ir.NodeDeviceConfiguration(configuration=conf0, sharding_specs=(), pipeline_stage=3),
    )
    return model, dict(x=x, cond=cond, w=w, a=a, d=d, add=add, dbl=dbl, if_node=if_node,
                       then_g=then_g, else_g=else_g, inner_g=inner_g, t_node=t_node,
                       inner_n=inner_n, inner_if=inner_if, func=func, conf0=conf0, conf1=conf1)


def causes(exc):
    while exc is not None:
        yield exc
        exc = exc.__cause__


def main() -> None:
    model, o = build()
    base = ser(model)
    check(b"conf0" in base and base.count(b"conf1") >= 3, "device annotations are not serialized")

    # ---- 1. Model.clone: faithful, disjoint, all references inside the clone
    c1 = model.clone()
    c2 = model.clone(deep_copy=True)
    check(ser(c1) == base and ser(c2) == base, "model clone serializes differently")
    check(ser(model) == base, "cloning changed the original")
    orig_objs = objects_of(model.graph)
    for f in model.functions.values():
        orig_objs.update(objects_of(f.graph))
    for c in (c1, c2):
        cl_objs = objects_of(c.graph)
        for f in c.functions.values():
            cl_objs.update(objects_of(f.graph))
        shared = set(orig_objs) & set(cl_objs)
        check(not shared, f"clone shares objects with original: {[orig_objs[i] for i in shared][:3]}")
        cl_values = {i for i, v in cl_objs.items() if isinstance(v, ir.Value)}
        n = 0
        for node, v in spec_values(c.graph):
            n += 1
            check(v is not None and id(v) in cl_values, f"sharding spec of cloned {node.name} points outside the clone")
            check(v in set(node.inputs) | set(node.outputs), f"sharding spec of cloned {node.name} not bound to its own io")
        check(n == 8, f"expected 8 sharding specs in the clone, got {n}")
        for g in all_graphs(c.graph):
            for node in g:
                for v in node.inputs:
                    check(v is None or id(v) in cl_values, f"input of cloned {node.name} points outside the clone")
        cif = c.graph.node("if0")
        check(len(cif.device_configurations) == 1 and cif.device_configurations[0].sharding_specs == ()
              and cif.device_configurations[0].pipeline_stage == 3, "pipeline-only annotation not preserved")
        check(c.graph.node("id0").device_configurations == (), "unannotated node got annotations")
    # the two clones come from separate cloners: nothing shared between them either
    check(not (set(objects_of(c1.graph)) & set(objects_of(c2.graph))), "two clones share objects")
    # deep_copy controls whether meta payloads are shared
    ca1 = c1.graph.node("add0").outputs[0]
    ca2 = c2.graph.node("add0").outputs[0]
    check(ca1.meta["scratch"] is o["a"].meta["scratch"], "shallow clone should share meta payload")
    check(ca2.meta["scratch"] is not o["a"].meta["scratch"] and ca2.meta["scratch"] == {"k": [1, 2]}, "deep clone meta")
    check(c1.graph.initializers["w"].const_value is o["w"].const_value, "tensors may be shared")

    # ---- 2. edits of the clone do not touch the original
    cg = c1.graph
    cadd, cmul, cif = cg.node("add0"), cg.node("mul0"), cg.node("if0")
    ca = cadd.outputs[0]
    ca.name = "a_renamed"
    ca.shape = ir.Shape([2, 2])
    ca.type = ir.TensorType(ir.DataType.DOUBLE)
    ca.metadata_props["note"] = "edited"
    ca.meta["scratch2"] = 1
    cmul.replace_input_with(1, cg.inputs[0])
    cconf = c1.add_device_configuration("extra", num_devices=2)
    cmul.shard(cg.inputs[0], configuration=cconf, axis=1, num_shards=2)
    cadd.device_configurations = ()
    cif.attributes.pop("else_branch")
    cif.metadata_props.clear()
    cg.metadata_props["gk"] = "changed"
    c1.metadata_props["mk"] = "changed"
    cthen = cif.attributes["then_branch"].as_graph()
    cthen[0].op_type = "Sigmoid"
    cfunc = next(iter(c1.functions.values()))
    cfunc[0].attributes.clear()
    cfunc.attributes.clear()
    cg.initializers["w"].const_value = None
    check(ser(c1) != base, "edits of the clone had no effect on the clone?")
    check(ser(model) == base, "editing the clone changed the original")
    check(ser(c2) == base, "editing one clone changed another clone")

    # ---- 3. and vice versa: edits of the original do not touch a clone
    c3 = model.clone()
    snap3 = ser(c3)
    o["a"].name = "a_orig_renamed"
    o["a"].shape = ir.Shape([1])
    o["dbl"].replace_input_with(0, o["x"])
    o["dbl"].shard(o["x"], configuration=o["conf0"], axis=1, num_shards=2)
    o["inner_n"].device_configurations = ()
    o["if_node"].metadata_props["origin"] = "edited"
    o["t_node"].replace_input_with(0, o["d"])
    model.graph.metadata_props.clear()
    check(ser(model) != base, "edits of the original had no effect?")
    check(ser(c3) == snap3 == base, "editing the original changed the clone")

    # ---- 4. Graph.clone of a subgraph with captured values
    model, o = build()
    else_g = o["else_g"]
    try:
        else_g.clone()
    except Exception as e:  # the refusal must be a clear error about outer-scope values
        chain = list(causes(e))
        check(any(isinstance(x, ValueError) and "outer-scope" in str(x) for x in chain),
              f"unexpected refusal: {e!r}")
        check(isinstance(e, (ValueError, RuntimeError)), f"unexpected exception type {type(e)}")
        print("refused as expected:", type(e).__name__)
    else:
        check(False, "cloning a subgraph with captured values must be refused by default")
    before = ser(model)
    sub = else_g.clone(allow_outer_scope_values=True)
    check(ser(model) == before, "subgraph clone changed the model")
    check(sub is not else_g and sub[0] is not o["inner_if"], "subgraph clone not new")
    s_inner_if = sub[0]
    check(s_inner_if.inputs[0] is o["cond"], "captured value must be referenced, not copied")
    s_inner_g = s_inner_if.attributes["then_branch"].as_graph()
    s_neg = s_inner_g[0]
    check(s_neg is not o["inner_n"] and s_neg.inputs[0] is o["d"], "nested captured value must be kept")
    specs = s_neg.device_configurations[0].sharding_specs
    check(len(specs) == 2, "expected two specs on cloned inner node")
    check(specs[0].value is o["d"], "spec on an outer-scope value must be kept as-is")
    check(specs[1].value is s_neg.outputs[0], "spec on the node's output must follow the clone")
    check(s_neg.device_configurations[0].configuration is o["conf1"], "configuration identity")
    # original annotation untouched
    check(o["inner_n"].device_configurations[0].sharding_specs[1].value is o["inner_n"].outputs[0],
          "original spec was re-pointed")
    # editing the sub clone leaves the original alone
    s_neg.outputs[0].name = "renamed_in_sub"
    s_neg.replace_input_with(0, o["a"])
    s_neg.device_configurations = ()
    check(ser(model) == before, "editing subgraph clone changed the model")
    check(o["inner_n"].inputs[0] is o["d"], "original input rewired")

    # ---- 5. GraphView.clone: captured values promoted to inputs of the view
    view = ir.GraphView([o["a"], o["d"], o["cond"]], list(model.graph.outputs), nodes=[o["if_node"], model.graph.node("id0")], name="view")
    vclone = view.clone()
    check(ser(model) == before, "view clone changed the model")
    check(isinstance(vclone, ir.Graph), "view clone must be a Graph")
    check(ser(vclone) == ser(view), "view clone serializes differently")
    va, vd, vcond = vclone.inputs
    check(va is not o["a"] and vd is not o["d"] and vcond is not o["cond"], "view inputs must be new values")
    vobjs = objects_of(vclone)
    check(not (set(vobjs) & set(objects_of(model.graph))), "view clone shares objects with the model")
    vif = vclone[0]
    v_then_relu = vif.attributes["then_branch"].as_graph()[0]
    check(v_then_relu.inputs[0] is va, "nested node must use the view clone's input")
    check(v_then_relu.device_configurations[0].sharding_specs[0].value is va, "nested spec must follow")
    v_neg = vif.attributes["else_branch"].as_graph()[0].attributes["then_branch"].as_graph()[0]
    check([s.value for s in v_neg.device_configurations[0].sharding_specs] == [vd, v_neg.outputs[0]],
          "doubly nested specs must follow")
    # a view that does not list the captured values is refused
    try:
        ir.GraphView([o["cond"]], [o["if_node"].outputs[0]], nodes=[o["if_node"]]).clone()
    except Exception as e:
        check(any(isinstance(x, ValueError) and "outer-scope" in str(x) for x in causes(e)), f"unexpected: {e!r}")
    else:
        check(False, "view with unlisted captured values must be refused")
    # an empty view clones to an empty graph
    empty = ir.GraphView([], [], nodes=[]).clone()
    check(len(empty) == 0 and not empty.inputs and not empty.outputs, "empty view clone")
    check(ser(model) == before, "view clones changed the model")

    # ---- 6. Function.clone
    func = o["func"]
    fbefore = ser(func)
    fclone = func.clone()
    check(ser(fclone) == fbefore, "function clone serializes differently")
    check(fclone.graph is not func.graph and fclone[0] is not func[0], "function clone not new")
    check(fclone[0].attributes["alpha"].is_ref(), "reference attribute must stay a reference")
    check(fclone[0].inputs[0] is fclone.inputs[0], "function clone wiring")
    fclone[0].attributes.clear()
    fclone.attributes.clear()
    fclone.inputs[0].name = "other"
    fclone.name = "Other"
    check(ser(func) == fbefore and ser(model) == before, "editing function clone changed the original")

    print("OK")


if __name__ == "__main__":
    main()
