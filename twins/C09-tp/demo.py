"""Demo for C09: concurrent external-data writing equals the serial one, is bounded and live.

Exercises unload_from_model / convert_tensors_to_external around the pieces that were
refactored: per-object write locks (a tensor object shared by several initializers, also
passed directly as duplicates), callback reporting, and the byte reservation.
"""

from __future__ import annotations

import itertools
import logging
import os
import tempfile
import threading
import time

import numpy as np

import onnx_ir as ir
from onnx_ir import external_data


class Probe:
    """Records what happens while tensors are being written."""

    def __init__(self) -> None:
        self.lock = threading.Lock()
        self.in_flight = 0
        self.peak = 0
        self.active_per_object: dict[int, int] = {}
        self.max_active_per_object = 0
        self.callback_active = 0
        self.callback_overlap = False
        self.callback_infos: list[ir.external_data.CallbackInfo] = []
        self.callback_names: list[str] = []

    def callback(self, tensor, info) -> None:
        with self.lock:
            self.callback_active += 1
            if self.callback_active > 1:
                self.callback_overlap = True
        time.sleep(0.0005)
        with self.lock:
            self.callback_infos.append(info)
            self.callback_names.append(tensor.name)
            self.callback_active -= 1


class TrackedLazyTensor(ir.LazyTensor):
    """A lazy tensor that reports the time span in which its bytes are materialised."""

    def __init__(self, array: np.ndarray, name: str, probe: Probe, fail: bool = False):
        self._array = array
        self._probe = probe
        self._fail = fail
        super().__init__(
            self._make, dtype=ir.DataType(ir.tensor(array).dtype), shape=ir.Shape(array.shape), name=name
        )

    def _make(self):
        if self._fail:
            raise RuntimeError(f"cannot materialise {self.name}")
        return ir.tensor(self._array.copy())

    def tofile(self, file) -> None:
        probe = self._probe
        with probe.lock:
            probe.in_flight += self.nbytes
            probe.peak = max(probe.peak, probe.in_flight)
            active = probe.active_per_object.get(id(self), 0) + 1
            probe.active_per_object[id(self)] = active
            probe.max_active_per_object = max(probe.max_active_per_object, active)
        try:
            time.sleep(0.001)
            super().tofile(file)
        finally:
            with probe.lock:
                probe.in_flight -= self.nbytes
                probe.active_per_object[id(self)] -= 1


SIZES = [40, 8, 4000, 16, 3000, 24, 8, 2500, 64, 8, 120, 5000]  # in float32 elements


def make_model(probe: Probe, fail_at: int | None = None, with_shared: bool = True) -> ir.Model:
    rng = np.random.default_rng(7)
    values = []
    shared = None
    for i, n in enumerate(SIZES):
        array = rng.standard_normal(n).astype(np.float32)
        tensor = TrackedLazyTensor(array, f"w{i}", probe, fail=(i == fail_at))
        if i == 2:
            shared = tensor
        values.append(ir.Value(name=f"w{i}", const_value=tensor))
    if with_shared:
        # The same tensor object (a big one) is the value of three initializers.
        values.append(ir.Value(name="alias_a", const_value=shared))
        values.append(ir.Value(name="alias_b", const_value=shared))
    graph = ir.Graph([], [], nodes=[], initializers=values, name="g", opset_imports={"": 20})
    return ir.Model(graph, ir_version=10)


def read_dir(path: str) -> dict[str, bytes]:
    out = {}
    for name in sorted(os.listdir(path)):
        with open(os.path.join(path, name), "rb") as f:
            out[name] = f.read()
    return out


def layout(model: ir.Model):
    return [
        (name, v.const_value.location, v.const_value.offset, v.const_value.length)
        for name, v in model.graph.initializers.items()
    ]


def save(tmp: str, tag: str, **options):
    probe = Probe()
    model = make_model(probe)
    directory = os.path.join(tmp, tag)
    os.mkdir(directory)
    result: list = []

    def run():
        try:
            external_data.unload_from_model(
                model, directory, "weights.data", callback=probe.callback, **options
            )
            result.append(None)
        except BaseException as e:  # noqa: BLE001
            result.append(e)

    thread = threading.Thread(target=run, daemon=True)
    thread.start()
    thread.join(120)
    assert not thread.is_alive(), f"{tag}: save did not terminate"
    assert result == [None], f"{tag}: {result}"
    return probe, model, read_dir(directory)


def check_probe(tag: str, probe: Probe, n_tensors: int, budget: int | None) -> None:
    assert len(probe.callback_infos) == n_tensors, (tag, len(probe.callback_infos))
    assert sorted(i.index for i in probe.callback_infos) == list(range(n_tensors)), tag
    assert all(i.total == n_tensors for i in probe.callback_infos), tag
    assert not probe.callback_overlap, f"{tag}: callback ran in two threads at once"
    assert probe.max_active_per_object == 1, f"{tag}: a shared tensor was evaluated concurrently"
    assert probe.in_flight == 0, tag
    if budget is not None:
        largest = max(SIZES) * 4
        assert probe.peak <= budget + largest, (tag, probe.peak, budget, largest)


def main() -> None:
    logging.getLogger("onnx_ir").setLevel(logging.ERROR)  # oversized-shard warnings
    n_tensors = len(SIZES) + 2
    with tempfile.TemporaryDirectory() as tmp:
        # ---- single file ----
        ref_probe, ref_model, ref_files = save(tmp, "serial")
        check_probe("serial", ref_probe, n_tensors, None)
        assert [i.index for i in ref_probe.callback_infos] == list(range(n_tensors))
        assert all(
            i.filename == "weights.data" and i.shard_total == n_tensors and i.shard_index == i.index
            for i in ref_probe.callback_infos
        )
        assert list(ref_files) == ["weights.data"]
        # the bytes are the dense concatenation in declaration order
        expected = b"".join(
            v.const_value.tobytes() for v in ref_model.graph.initializers.values()
        )
        assert ref_files["weights.data"] == expected

        # budgets: tiny (several tensors are larger than it), medium, huge
        for workers, budget in itertools.product([1, 2, 3, 8], [1, 100, 9000, 1 << 30]):
            tag = f"single_w{workers}_b{budget}"
            probe, model, files = save(tmp, tag, max_workers=workers, max_in_flight_bytes=budget)
            assert files == ref_files, tag
            assert layout(model) == layout(ref_model), tag
            check_probe(tag, probe, n_tensors, budget if workers > 1 else None)

        # ---- sharded ----
        sref_probe, sref_model, sref_files = save(tmp, "shard_serial", max_shard_size_bytes=12000)
        assert len(sref_files) > 2, list(sref_files)
        check_probe("shard_serial", sref_probe, n_tensors, None)
        for workers, budget in itertools.product([2, 3, 5, 16], [1, 2000, 1 << 30]):
            tag = f"shard_w{workers}_b{budget}"
            probe, model, files = save(
                tmp, tag, max_workers=workers, max_in_flight_bytes=budget, max_shard_size_bytes=12000
            )
            assert files == sref_files, tag
            assert layout(model) == layout(sref_model), tag
            check_probe(tag, probe, n_tensors, budget)
            by_index = {i.index: i for i in probe.callback_infos}
            ref_by_index = {i.index: i for i in sref_probe.callback_infos}
            assert by_index == ref_by_index, tag

        # ---- duplicates given directly to convert_tensors_to_external ----
        probe = Probe()
        a = TrackedLazyTensor(np.arange(3000, dtype=np.float32), "a", probe)
        b = TrackedLazyTensor(np.arange(10, dtype=np.float32), "b", probe)
        dup = [a, b, a, a, b, a]
        d_serial = os.path.join(tmp, "dup_serial")
        d_par = os.path.join(tmp, "dup_par")
        os.mkdir(d_serial)
        os.mkdir(d_par)
        ext_s = external_data.convert_tensors_to_external(dup, d_serial, "d.bin")
        ext_p = external_data.convert_tensors_to_external(
            dup, d_par, "d.bin", callback=probe.callback, max_workers=4, max_in_flight_bytes=50
        )
        assert read_dir(d_serial) == read_dir(d_par)
        assert [(t.offset, t.length) for t in ext_s] == [(t.offset, t.length) for t in ext_p]
        assert probe.max_active_per_object == 1
        assert len(probe.callback_infos) == len(dup) and not probe.callback_overlap
        assert sorted(probe.callback_names) == sorted(t.name for t in dup)

        # ---- empty input: no tensors, an empty file, no callback ----
        probe = Probe()
        d_empty = os.path.join(tmp, "empty")
        os.mkdir(d_empty)
        out = external_data.convert_tensors_to_external(
            [], d_empty, "e.bin", callback=probe.callback, max_workers=4
        )
        assert out == [] and read_dir(d_empty) == {"e.bin": b""} and probe.callback_infos == []

        # ---- failing tensor: the error arrives after every worker stopped ----
        for options in (
            dict(max_workers=4, max_in_flight_bytes=100),
            dict(max_workers=6, max_in_flight_bytes=100, max_shard_size_bytes=12000),
            dict(),
        ):
            probe = Probe()
            model = make_model(probe, fail_at=7)
            d_fail = os.path.join(tmp, f"fail_{len(os.listdir(tmp))}")
            os.mkdir(d_fail)
            before = threading.active_count()
            try:
                external_data.unload_from_model(
                    model, d_fail, "weights.data", callback=probe.callback, **options
                )
            except RuntimeError as e:
                assert "cannot materialise w7" in str(e)
            else:
                raise AssertionError("the failure was swallowed")
            assert probe.in_flight == 0, "a worker was still writing when the error arrived"
            assert threading.active_count() <= before
            assert not probe.callback_overlap and probe.max_active_per_object <= 1
            assert len(probe.callback_infos) <= n_tensors
            assert len({i.index for i in probe.callback_infos}) == len(probe.callback_infos)
            # nothing was converted, and no temporary directory is left behind
            assert all(
                isinstance(v.const_value, TrackedLazyTensor)
                for v in model.graph.initializers.values()
            )
            assert not [n for n in os.listdir(d_fail) if n.startswith(".")], os.listdir(d_fail)
            if "max_shard_size_bytes" not in options:
                assert os.listdir(d_fail) == []

        # ---- rejected calls ----
        probe = Probe()
        model = make_model(probe)
        d_rej = os.path.join(tmp, "rejected")
        os.mkdir(d_rej)
        for bad in (dict(max_workers=0), dict(max_in_flight_bytes=0), dict(max_workers=-2)):
            try:
                external_data.unload_from_model(
                    model, d_rej, "weights.data", callback=probe.callback, **bad
                )
            except ValueError:
                pass
            else:
                raise AssertionError(bad)
        try:  # a path that names no file is refused before anything is created
            external_data.convert_tensors_to_external(
                [a], d_rej, "", callback=probe.callback, max_workers=3
            )
        except ValueError:
            pass
        else:
            raise AssertionError("empty path accepted")
        assert os.listdir(d_rej) == [] and probe.callback_infos == [] and probe.peak == 0

        # ---- the reservation of an in-memory tensor is its whole length ----
        assert external_data._reservation_bytes(ir.tensor(np.zeros(5, np.float32)), 20) == 20

    print("C09 demo OK")


if __name__ == "__main__":
    main()
